#!/usr/bin/env bash
# Developer tool: like confirm_seed.sh, but works through a list of seeds in ONE persistent scratch
# worktree ("slot"), so that cargo builds are incremental. Several slots can run side by side.
#   tools/confirm_slot.sh <slot-name> <listfile>
# listfile lines:  <srcdir> <seed-id> <prop> [more props...]
# For every seed: (1) demo passes without the patch, (2) the repository's suite passes with the
# patch, (3) the demo fails with the patch; then ./check <prop> quick against the patched worktree.
# Results go to /verif/seeded/<seed-id>/ and one summary line per seed to /tmp/confirm-<slot>.log.
set -u
slot="$1"; list="$2"
wt="/tmp/cslot-$slot"
log="/tmp/confirm-$slot.log"
git -C /repo worktree remove --force "$wt" >/dev/null 2>&1; rm -rf "$wt"
git -C /repo worktree add --detach "$wt" HEAD >/dev/null 2>&1 || { echo "cannot create worktree"; exit 2; }
cp /repo/Cargo.lock "$wt/"
key="$(printf '%s' "$wt" | cksum | cut -d' ' -f1)"
cleanup() {
  rm -rf "/verif/target/$key"
  git -C /repo worktree remove --force "$wt" >/dev/null 2>&1
  rm -rf "$wt"
}
trap cleanup EXIT
export CARGO_NET_OFFLINE=true
while read -r src id props; do
  [ -z "$src" ] && continue
  set -- $props
  out="/verif/seeded/$id"
  mkdir -p "$out"
  cp "$src/patch.diff" "$out/patch.diff"; rm -rf "$out/demo"; cp -r "$src/demo" "$out/"; rm -rf "$out/demo/target"
  crate=lexpr
  if grep -qi 'serde-lexpr/tests\|-p serde-lexpr\|serde_lexpr' "$src/demo/README.txt" "$src/demo/"*.rs 2>/dev/null; then crate=serde-lexpr; fi
  demo="$(ls "$src"/demo/*.rs | head -1)"
  (cd "$wt" && git checkout -q -- . && rm -f lexpr/tests/seed_demo.rs serde-lexpr/tests/seed_demo.rs)
  # (1) demo without the patch
  cp "$demo" "$wt/$crate/tests/seed_demo.rs"
  (cd "$wt" && CARGO_TARGET_DIR="$wt/target" timeout 1500 cargo test --offline -p "$crate" --test seed_demo >"$out/demo_without_patch.log" 2>&1); r1=$?
  rm -f "$wt/$crate/tests/seed_demo.rs"
  # (2) suite with the patch
  if ! git -C "$wt" apply "$src/patch.diff"; then echo "$id PATCH-DOES-NOT-APPLY" >> "$log"; continue; fi
  (cd "$wt" && CARGO_TARGET_DIR="$wt/target" timeout 1800 cargo test --workspace --offline 2>&1 | grep -E '^test result|^error|FAILED|panicked' >"$out/suite_with_patch.log")
  if grep -qv '^test result: ok' "$out/suite_with_patch.log" || ! [ -s "$out/suite_with_patch.log" ]; then r2=1; else r2=0; fi
  # (3) demo with the patch
  cp "$demo" "$wt/$crate/tests/seed_demo.rs"
  (cd "$wt" && CARGO_TARGET_DIR="$wt/target" timeout 1500 cargo test --offline -p "$crate" --test seed_demo >"$out/demo_with_patch.log" 2>&1); r3=$?
  rm -f "$wt/$crate/tests/seed_demo.rs"
  confirmed=false
  if [ $r1 -eq 0 ] && [ $r2 -eq 0 ] && [ $r3 -ne 0 ]; then confirmed=true; fi
  results="{"; summary=""
  for p in "$@"; do
    clog="$out/check_$p.log"
    VERIF_REPO="$wt" VERIF_EVIDENCE_DIR="$wt/evidence" MC_MAX_REPLAYS=4 timeout 3000 /verif/check "$p" quick >"$clog" 2>&1; rc=$?
    nv=$(grep -c '^VIOLATION' "$clog")
    results="$results\"$p\": {\"rc\": $rc, \"violation_lines\": $nv},"
    summary="$summary $p:rc=$rc:v=$nv"
    grep -E 'violation class|VIOLATION|KNOWN|tier:|MACHINERY' "$clog" | cut -c1-600 | head -40 > "$clog.tmp"; mv "$clog.tmp" "$clog"
  done
  results="${results%,}}"
  python3 - "$out" "$id" "$confirmed" "$crate" "$results" "$@" <<'EOF'
import json, sys, os
out, sid, confirmed, crate, results = sys.argv[1:6]
props = sys.argv[6:]
readme = open(os.path.join(out, "demo", "README.txt")).read() if os.path.exists(os.path.join(out, "demo", "README.txt")) else ""
meta = {"id": sid, "origin": "fresh sub-agent given only the property text and a scratch worktree", "breaks": props[:1], "demo_crate": crate,
        "confirmed_by_me": confirmed == "true",
        "confirmation": "scratch worktree of /repo HEAD: demo passes without the patch, `cargo test --workspace --offline` passes with the patch, demo fails with the patch",
        "needs_to_manifest": readme.strip()[:1500], "checks_run_quick": json.loads(results)}
json.dump(meta, open(os.path.join(out, "meta.json"), "w"), indent=1)
EOF
  echo "$id confirmed=$confirmed (r1=$r1 r2=$r2 r3=$r3)$summary" >> "$log"
done < "$list"
echo "slot $slot finished" >> "$log"
