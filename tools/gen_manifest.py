#!/usr/bin/env python3
"""Regenerate /verif/MANIFEST.json from the table below (kept valid at all times).
A property is claimed once its check exists in harness/src/props/; everything else is listed
under not_applicable with the reason."""
import json, os, subprocess

root = os.path.dirname(os.path.dirname(os.path.abspath(__file__)))

# id -> (level category, technique, level text, level note, design ref)
P = {
 "C01": ("exploration", "bounded-exhaustive enumeration of value domains through all 16 print x parse entry-point pairs, against an independent reference reader",
         "Every value of the stated finite domains (all Unicode scalars as chars and 1-char strings, all bytes, integer/float boundary lattices, all strings <=3 over a 23-char trouble alphabet, all plain names <=3, all shapes with <=4 leaves over context atoms) is printed and re-read through every entry-point combination, in both feature builds; exhaustive within those domains, which is where the round-trip defects live (token adjacency, escapes, number forms).",
         "Trusts std float parsing/printing, ryu/itoa, and the harness's reference reader (bound to the implementation by the C08 agreement counts). f64 is covered by lattices, f32 completely (thorough).", "5/C01"),
 "C02": ("exploration", "complete enumeration of all 576 printer x compatible parser option pairs (69 120) over context values, with the documented fold as oracle",
         "All consistent pairings are enumerated, not sampled; each is run on atoms and all two-leaf shapes (thorough: three-leaf), and the Emacs Lisp pairing on the full value domain plus an independent reader of the documented Emacs subset.",
         "COMPAT and fold are transcriptions of the statement; names restricted to identifiers plain in the dialect as the quantifier says.", "5/C02"),
 "C03": ("model_checking", "exhaustive enumeration of all byte strings <=3 and token-alphabet strings x option sets x sources x APIs; explicit-state exploration of call histories on one Parser (depth budget as state); child-process abort oracle for pathological nesting",
         "Totality is decided on completely enumerated input spaces under catch_unwind with overflow checks on; stack overflow / non-termination are observed in child processes; the depth budget, the only cross-call state, is explored as a state machine over segment histories with suffix congruence as invariant.",
         "Inputs longer than the bounds are only covered through the structured families (repeated openers, long runs). Nesting levels 101..999 are unspecified and not checked.", "5/C03"),
 "C04": ("exploration", "recursive bounded-exhaustive generation of inhabitants of a 45-type Serde family; identity checked on the value path and three text paths",
         "Each type's inhabitants are enumerated completely up to the stated collection sizes and boundary sets; the oracle is the identity itself plus injectivity.",
         "Trusts serde's derive and std collections; floats on the text path to C05 accuracy.", "5/C04"),
 "C05": ("exploration", "complete enumeration of literal grammars (all strings <=8 over the decimal alphabet, boundary integers in four radixes, shortest forms of a float lattice) against an exact big-integer / correctly-rounded oracle, in both feature builds",
         "The literal families are enumerated completely; the oracle uses exact arithmetic (own bignum) and std's correctly rounded parser.",
         "std's f64 parser is the trusted correctly-rounded reference; f64 covered by lattices, f32 image completely in thorough.", "5/C05"),
 "C06": ("fault_enumeration", "exhaustive differential over enumerated inputs for the three sources; stateless choice-tree exploration of read schedules (short reads, Interrupted, BufReader capacities) with deviation bound 2; a hard read error injected at every byte offset of every input, sticky and transient",
         "Every (input, fault offset, fault model) combination in the bounded input spaces is executed; the oracle for 'determined by the delivered prefix' is computed semantically by extending the prefix with every possible next byte.",
         "Inputs bounded as stated; std::io::Bytes / BufReader are trusted.", "5/C06"),
 "C07": ("fault_enumeration", "stateless choice-tree exploration of write schedules (short writes, zero writes, hard errors) with deviation bound 2 plus uniform k-byte sinks and a fault at every output offset, over enumerated values and all 576 printer option sets",
         "Every schedule within the deviation bound is executed on the real printer against a controlled io::Write; the oracle is prefix/equality with the String output and error surfacing.",
         "Interrupted from a writer is outside the statement and not injected.", "5/C07"),
 "C08": ("exploration", "complete enumeration of all 1536 parser option sets x token corpus x syntactic positions against a declarative reference reader, plus an exhaustive pairwise non-interference differential on all token-alphabet strings",
         "All option sets are enumerated (no sampling of configurations); the reference reader answers Unspecified where the documentation is silent so nothing beyond the statement is demanded; the differential needs no expected values at all.",
         "The reference reader (Appendix A of DESIGN.md) is the trusted transcription of the documentation; agreement counts are reported.", "5/C08"),
 "C09": ("exploration", "exhaustive generation of sexp! invocations from an abstract syntax (all atoms, all ordered pairs, all triples over a sub-alphabet, all shapes with <=4 leaves) compiled against the working tree and compared with the text parser",
         "Each enumerated program is really compiled and run; documented syntax that fails to compile is a violation.",
         "Rust tokenisation limits which forms can be written at all; exclusions are counted in the evidence.", "5/C09"),
 "C10": ("model_checking", "exhaustive differential of the value and datum loops on enumerated inputs x option sets x sources; explicit-state exploration of mixed call histories; all sub-datums walked with every accessor",
         "Two hand-duplicated parsers are compared on every input of the bounded spaces and in every reachable parser state of the history exploration.",
         "Inputs bounded as stated.", "5/C10"),
 "C11": ("exploration", "exhaustive enumeration of layouts (trivia insertions at token boundaries) of enumerated values; span clauses checked for every sub-datum, across str/slice/reader/BufReader",
         "Every clause of the statement is an executable predicate on (input, span tree); all are checked on every enumerated layout.",
         "Implicit-cdr spans reachable only through as_pair are outside the statement.", "5/C11"),
 "C12": ("model_checking", "exhaustive enumeration of value sequences x separators x trivia insertions; explicit-state exploration of call histories on one Parser with a termination bound derived from the state space size",
         "Termination is decided by a pigeonhole bound on the deterministic parser's state space; concatenation and trivia clauses are enumerated completely within the bounds.",
         "Items separated by at least one trivia element, as in the statement.", "5/C12"),
 "C13": ("exploration", "exhaustive enumeration of all token-alphabet strings accepted by the parser, re-printed with every corresponding printer and re-read; fixed point after one step",
         "Starts from foreign text (the parser's whole language within the bound), not from printer output.",
         "Fixed point is taken modulo the documented folding; floats to C05 accuracy.", "5/C13"),
 "C14": ("exploration", "shape function written from the crate documentation compared with to_value on every inhabitant of the type family; all list/vector/improper/wrong-kind alternative encodings enumerated",
         "Complete enumeration of inhabitants and of single-position alternative encodings.",
         "Over-long encodings are outside the quantifier.", "5/C14"),
 "C15": ("exploration", "complete enumeration of (element sequence, tail) over small alphabets against a Vec-based list model, all construction routes and all accessors",
         "All 13^<=4 x 15 lists, all association lists of <=3 entries over 11 entry forms, all index values incl. usize::MAX; the accessors are ten loops over one cons chain and small scope exposes their disagreements.",
         "Vec/RV reference model trusted.", "5/C15"),
 "C16": ("exploration", "every list-walking public operation run in a child process on a thread with a fixed small stack at lengths where any per-element recursion must overflow (threshold argument)",
         "n*16 bytes exceeds the stack in every configuration, so completing proves constant stack use; enumeration is over operations x shapes x construction routes.",
         "Sub-linear stack growth would not be detected.", "5/C16"),
 "C17": ("exploration", "exhaustive enumeration of all byte sequences of length 1..3 and all 4-byte sequences over 26 UTF-8 boundary classes in six syntactic contexts x sources x dialects; every returned str re-validated; hook assertions at the unchecked conversion sites",
         "The complete set of short ill-formed and well-formed sequences is explored in every context where bytes can reach a str.",
         "Relies on the verif-hooks assertions for strings dropped on error paths.", "5/C17"),
 "C18": ("exploration", "every value tree with <=3 nodes over 16 atoms and every single-mutation of valid encodings, crossed with every type of the Serde family, under catch_unwind",
         "Totality, error category and normalisation are checked on the complete (value, type) product.",
         "Type family as in C04.", "5/C18"),
 "C19": ("exploration", "location bounds checked on every failing input of the exhaustive input spaces from all sources; every proper byte prefix of every text of a grammar corpus checked for the EOF category",
         "Both clauses are universally quantified over enumerated sets; 'truncation' is computed from the definition (prefix of a text that parses), not from a model.",
         "Corpus G is generated from the value domains and alternative spellings.", "5/C19"),
 "C20": ("exploration", "complete sweeps of 8/16-bit integers and boundary lattices for wider types, all From conversions, and the full (value, primitive) comparison product in both operand orders",
         "Accessor/conversion/comparison coherence is checked on completely enumerated domains (all i8/u8/i16/u16, all f32 in thorough).",
         "64-bit integers and f64 by boundary lattices.", "5/C20"),
}

def implemented():
    d = os.path.join(root, "harness", "src", "props")
    return {f[:-3].upper() for f in os.listdir(d) if f.startswith("c") and f.endswith(".rs") and f[1:3].isdigit()}

def main():
    impl = implemented()
    hooks_commit = subprocess.run(["git", "-C", "/repo", "log", "--format=%H", "--grep", "^verif hooks"], capture_output=True, text=True).stdout.split()
    checks, na = [], []
    for pid in sorted(P):
        cat, tech, text, note, ref = P[pid]
        if pid in impl:
            checks.append({
                "property_id": pid,
                "quick_cmd": f"./check {pid} quick",
                "thorough_cmd": f"./check {pid} thorough",
                "evidence_file": f"/verif/evidence/{pid}.json",
                "replay_cmd_template": "./check --replay {path}",
                "engine": "mc",
                "level_claimed": {"category": cat, "text": text, "design_ref": "DESIGN.md section " + ref},
                "level_note": note,
                "technique": "model checking: " + tech,
            })
        else:
            na.append({"property_id": pid, "reason": "check not built yet in this snapshot of /verif (model checking applies; see DESIGN.md section " + ref + ")"})
    m = {
        "version": 1,
        "setup_cmd": "./check --setup",
        "hooks": {
            "guard": "cargo feature `verif-hooks` of the lexpr crate (off by default)",
            "enable": "the harness depends on lexpr with features=[\"verif-hooks\"] when /repo/lexpr/Cargo.toml declares it (./check detects this)",
            "baseline_off_cmd": "cd /repo && cargo test --workspace --no-fail-fast --offline",
            "source_commits": hooks_commit,
            "add_only": True,
        },
        "engines": [
            {"name": "mc", "path": "/verif/harness", "serves_properties": sorted(impl),
             "kind_free_text": "Rust binary: E1 complete domain enumeration, E2 stateless choice-tree exploration of io::Read/io::Write answers with a deviation bound, E3 explicit-state BFS over Parser call histories, E4 child-process abort oracle; a second build (harness-nofast) links lexpr without fast-float-parsing"},
        ],
        "checks": checks,
        "not_applicable": na,
        "notes": "All checks are bounded-exhaustive explorations of the real implementation (model checking family). Exit 2 means machinery failure, never a verdict. Known findings: /verif/known_findings.json.",
    }
    json.dump(m, open(os.path.join(root, "MANIFEST.json"), "w"), indent=1)
    print("claimed:", sorted(impl))

main()
