#!/usr/bin/env python3
"""Developer tool: print the DESIGN 8.6 table (size of the quick tier) from evidence/*.json."""
import json, sys
print("| property | sub-checks | evaluations | E3 states | wall s |\n|---|---|---|---|---|")
for i in range(1, 21):
    p = f"C{i:02d}"
    j = json.load(open(f"/verif/evidence/{p}.json"))
    c = j["coverage"]
    st = c.get("states") or "-"
    print(f"| {p} | {len(c['subchecks'])} | {c['evaluations']:,} | {st} | {j['wall_s']} | {j['tier']}" if "-v" in sys.argv else f"| {p} | {len(c['subchecks'])} | {c['evaluations']:,} | {st} | {j['wall_s']} |")
