#!/usr/bin/env python3
"""Developer tool: systematic first-order mutants of the library, used to look for blind spots of
the checks (not part of any registered check).

  tools/mutate.py gen  <outdir> [--per-file N]      enumerate mutants, write <outdir>/<id>.diff + index.json
  tools/mutate.py suite <outdir> [--jobs J]         stage A: which mutants does the repository's own suite let through
  tools/mutate.py checks <outdir>                   stage B: run the relevant quick checks on the survivors

Worktrees live under /tmp/mutwt-* and are removed at the end of each stage.
"""
import hashlib, json, os, re, subprocess, sys, threading, queue, time

REPO = "/repo"
FILES = {
    "lexpr/src/parse/mod.rs": ["C08", "C13", "C19", "C10", "C11", "C05", "C01", "C06", "C12", "C17", "C02", "C03"],
    "lexpr/src/parse/read.rs": ["C08", "C13", "C19", "C17", "C06", "C11", "C10", "C01", "C12", "C02", "C03"],
    "lexpr/src/parse/iter.rs": ["C11", "C19", "C12", "C10"],
    "lexpr/src/parse/error.rs": ["C19", "C06"],
    "lexpr/src/print.rs": ["C01", "C07", "C13", "C17", "C02"],
    "lexpr/src/cons.rs": ["C15", "C20", "C16"],
    "lexpr/src/number.rs": ["C20", "C05", "C01"],
    "lexpr/src/value/mod.rs": ["C20", "C15", "C01"],
    "lexpr/src/value/index.rs": ["C15"],
    "lexpr/src/value/from.rs": ["C20"],
    "lexpr/src/value/partial_eq.rs": ["C20"],
    "lexpr/src/datum.rs": ["C10", "C11", "C16"],
    "serde-lexpr/src/value/de.rs": ["C04", "C14", "C18"],
    "serde-lexpr/src/value/ser.rs": ["C04", "C14"],
    "lexpr-macros/src/parser.rs": ["C09"],
    "lexpr-macros/src/generator.rs": ["C09"],
}

OPS = [
    ("eq->ne", re.compile(r" == "), " != "),
    ("ne->eq", re.compile(r" != "), " == "),
    ("lt->le", re.compile(r" < "), " <= "),
    ("le->lt", re.compile(r" <= "), " < "),
    ("gt->ge", re.compile(r" > "), " >= "),
    ("ge->gt", re.compile(r" >= "), " > "),
    ("and->or", re.compile(r" && "), " || "),
    ("or->and", re.compile(r" \|\| "), " && "),
    ("plus1->plus0", re.compile(r" \+ 1\b"), " + 0"),
    ("minus1->minus0", re.compile(r" - 1\b"), " - 0"),
    ("addassign1", re.compile(r" \+= 1;"), " += 0;"),
    ("subassign1", re.compile(r" -= 1;"), " -= 0;"),
    ("plus->minus", re.compile(r" \+ (?=[a-z(])"), " - "),
    ("mul->add", re.compile(r" \* (?=[a-z0-9(])"), " + "),
    ("true->false", re.compile(r"\btrue\b"), "false"),
    ("false->true", re.compile(r"\bfalse\b"), "true"),
    ("drop-not", re.compile(r"\bif !"), "if "),
    ("incl->excl", re.compile(r"\.\.="), ".."),
    ("drop-alt-first", re.compile(r"b'(\\.|[^'\\])' \| "), ""),
    ("drop-alt-last", re.compile(r" \| b'(\\.|[^'\\])'(?= =>| \))"), ""),
    ("drop-char-alt", re.compile(r"'(\\.|[^'\\])' \| "), ""),
    ("some->none", re.compile(r"=> Some\(([a-z_.*&]+)\),?$"), "=> None,"),
    ("const+1", re.compile(r"(?<![\w.'])(\d{1,6})(?![\w.'])"), None),
    ("hexconst+1", re.compile(r"\b0x([0-9A-Fa-f]{2,6})\b"), None),
]
STMT_DELETE = re.compile(r"^\s*(self\.[a-z_.]+\([^;]*\);|[a-z_]+\.(clear|push|push_str|extend_from_slice|discard|truncate)\([^;]*\);)\s*$")


def sites(path):
    lines = open(os.path.join(REPO, path), encoding="utf-8").read().split("\n")
    out = []
    in_test = False
    for i, line in enumerate(lines):
        st = line.strip()
        if st.startswith("#[cfg(test)]"):
            in_test = True  # test modules are at the end of a file in this code base
        if in_test:
            continue
        if not st or st.startswith("//") or st.startswith("#[") or st.startswith("#![") or st.startswith("use ") or st.startswith("*"):
            continue
        if "verif" in line or "assert" in line or "unreachable" in line or "panic!" in line:
            continue
        code = line.split("//")[0] if '"' not in line else line
        for name, rx, rep in OPS:
            for k, m in enumerate(rx.finditer(code)):
                if k > 1:
                    break
                # not inside a string literal (cheap test: even number of quotes before the match)
                if code[: m.start()].count('"') % 2 == 1:
                    continue
                if name == "const+1":
                    if int(m.group(1)) < 2:
                        continue
                    rep = str(int(m.group(1)) + 1)
                if name == "hexconst+1":
                    rep = "0x%X" % (int(m.group(1), 16) + 1)
                new = code[: m.start()] + rep + code[m.end():]
                if name == "some->none":
                    new = code[: m.start()] + "=> None," + code[m.end():]
                out.append((i, name, new))
        if STMT_DELETE.match(line):
            out.append((i, "delete-stmt", re.match(r"^\s*", line).group(0) + "// " + st))
    return lines, out


def make_diff(path, lines, i, new):
    old = "\n".join(lines)
    nl = list(lines)
    nl[i] = new
    tmp_a = "/tmp/mut_a.rs"
    tmp_b = "/tmp/mut_b.rs"
    open(tmp_a, "w", encoding="utf-8").write(old)
    open(tmp_b, "w", encoding="utf-8").write("\n".join(nl))
    r = subprocess.run(["diff", "-u", "--label", "a/" + path, "--label", "b/" + path, tmp_a, tmp_b], capture_output=True, text=True)
    return r.stdout


def gen(outdir, per_file, salt="", exclude=None):
    os.makedirs(outdir, exist_ok=True)
    index = []
    used = set()
    if exclude:
        for m in json.load(open(exclude)):
            used.add((m["file"], m["line"] - 1))
    for path in FILES:
        lines, ss = sites(path)
        # deterministic spread: order by a hash, take per_file (scaled by file size)
        quota = max(4, int(per_file * min(3.0, len(lines) / 500.0)))
        ss.sort(key=lambda s: hashlib.sha1(f"{salt}{path}:{s[0]}:{s[1]}".encode()).hexdigest())
        seen_lines = set(i for (f, i) in used if f == path)
        chosen = []
        for s in ss:
            if s[0] in seen_lines:
                continue
            seen_lines.add(s[0])
            chosen.append(s)
            if len(chosen) >= quota:
                break
        for (i, name, new) in chosen:
            mid = f"m{len(index):04d}"
            d = make_diff(path, lines, i, new)
            if not d:
                continue
            open(os.path.join(outdir, mid + ".diff"), "w", encoding="utf-8").write(d)
            index.append({"id": mid, "file": path, "line": i + 1, "op": name, "old": lines[i].strip(), "new": new.strip(), "props": FILES[path]})
        print(path, "sites", len(ss), "chosen", len(chosen))
    json.dump(index, open(os.path.join(outdir, "index.json"), "w"), indent=1)
    print("mutants:", len(index))


def sh(cmd, cwd=None, timeout=1200, env=None):
    try:
        r = subprocess.run(cmd, shell=True, cwd=cwd, capture_output=True, text=True, timeout=timeout, env=env)
        return r.returncode, r.stdout + r.stderr
    except subprocess.TimeoutExpired:
        return 124, "TIMEOUT"


def mk_worktree(wt):
    sh(f"git -C {REPO} worktree remove --force {wt}; rm -rf {wt}")
    rc, out = sh(f"git -C {REPO} worktree add --detach {wt} HEAD && cp {REPO}/Cargo.lock {wt}/")
    if rc != 0:
        raise SystemExit("cannot create worktree " + out)


def rm_worktree(wt):
    key = subprocess.run(f"printf '%s' {wt} | cksum | cut -d' ' -f1", shell=True, capture_output=True, text=True).stdout.strip()
    sh(f"rm -rf /verif/target/{key}; git -C {REPO} worktree remove --force {wt}; rm -rf {wt}; git -C {REPO} worktree prune")


def suite(outdir, jobs):
    index = json.load(open(os.path.join(outdir, "index.json")))
    respath = os.path.join(outdir, "suite.json")
    res = json.load(open(respath)) if os.path.exists(respath) else {}
    q = queue.Queue()
    for m in index:
        if m["id"] not in res:
            q.put(m)
    lock = threading.Lock()

    def worker(k):
        wt = f"/tmp/mutwt-a{k}"
        mk_worktree(wt)
        env = dict(os.environ, CARGO_TARGET_DIR=f"{wt}/target", CARGO_NET_OFFLINE="true", CARGO_BUILD_JOBS="4")
        sh("cargo test --workspace --offline --no-run", cwd=wt, timeout=1800, env=env)
        while True:
            try:
                m = q.get_nowait()
            except queue.Empty:
                break
            diff = os.path.join(outdir, m["id"] + ".diff")
            rc, out = sh(f"git apply {diff}", cwd=wt)
            if rc != 0:
                verdict = "patch-failed"
            else:
                # GNU timeout signals the whole process group: a test binary that hangs in a mutant is
                # killed with its cargo (a Python-side timeout alone leaves it spinning for ever)
                rc, out = sh("timeout -s KILL 900 cargo test --workspace --offline 2>&1", cwd=wt, timeout=1000, env=env)
                if rc in (124, 137):
                    verdict = "suite-timeout"
                elif re.search(r"^error(\[|:)", out, re.M) and "test result" not in out:
                    verdict = "compile-error"
                elif rc != 0:
                    verdict = "suite-fails"
                else:
                    verdict = "survives"
            sh("git checkout -- .", cwd=wt)
            with lock:
                res[m["id"]] = verdict
                json.dump(res, open(respath, "w"), indent=1)
                print(m["id"], m["file"], m["line"], m["op"], "->", verdict, flush=True)
        rm_worktree(wt)

    ts = [threading.Thread(target=worker, args=(k,)) for k in range(jobs)]
    [t.start() for t in ts]
    [t.join() for t in ts]
    from collections import Counter
    print(Counter(res.values()))


def checks(outdir):
    index = json.load(open(os.path.join(outdir, "index.json")))
    res = json.load(open(os.path.join(outdir, "suite.json")))
    cpath = os.path.join(outdir, "checks.json")
    cres = json.load(open(cpath)) if os.path.exists(cpath) else {}
    wt = "/tmp/mutwt-b"
    mk_worktree(wt)
    env = dict(os.environ, VERIF_REPO=wt, VERIF_EVIDENCE_DIR=f"{wt}/evidence", MC_MAX_REPLAYS="2")
    for m in index:
        if res.get(m["id"]) != "survives" or m["id"] in cres:
            continue
        diff = os.path.join(outdir, m["id"] + ".diff")
        rc, out = sh(f"git apply {diff}", cwd=wt)
        if rc != 0:
            cres[m["id"]] = {"caught": None, "log": [{"prop": "-", "rc": -1, "violations": 0, "machinery": "patch does not apply to the current tree"}], "seconds": 0}
            json.dump(cres, open(cpath, "w"), indent=1)
            print(m["id"], "patch does not apply", flush=True)
            continue
        caught = None
        log = []
        t0 = time.time()
        for p in m["props"]:
            rc, out = sh(f"/verif/check {p} quick 2>&1", timeout=2400, env=env)
            nv = len(re.findall(r"^VIOLATION", out, re.M))
            log.append({"prop": p, "rc": rc, "violations": nv})
            if rc == 1 and nv > 0:
                cls = re.findall(r"violation class (\[[^\]]*\])", out)
                caught = {"prop": p, "class": cls[0] if cls else ""}
                break
            if rc not in (0, 1):
                log[-1]["machinery"] = out[-400:]
        sh("git checkout -- .", cwd=wt)
        cres[m["id"]] = {"caught": caught, "log": log, "seconds": int(time.time() - t0)}
        json.dump(cres, open(cpath, "w"), indent=1)
        print(m["id"], m["file"], m["line"], m["op"], "|", m["old"][:70], "=>", ("CAUGHT by " + caught["prop"] + " " + caught["class"]) if caught else "NOT CAUGHT", flush=True)
    rm_worktree(wt)


if __name__ == "__main__":
    cmd, outdir = sys.argv[1], sys.argv[2]
    if cmd == "gen":
        n = int(sys.argv[sys.argv.index("--per-file") + 1]) if "--per-file" in sys.argv else 10
        salt = sys.argv[sys.argv.index("--salt") + 1] if "--salt" in sys.argv else ""
        excl = sys.argv[sys.argv.index("--exclude") + 1] if "--exclude" in sys.argv else None
        gen(outdir, n, salt, excl)
    elif cmd == "suite":
        j = int(sys.argv[sys.argv.index("--jobs") + 1]) if "--jobs" in sys.argv else 3
        suite(outdir, j)
    elif cmd == "checks":
        checks(outdir)
