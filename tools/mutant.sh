#!/usr/bin/env bash
# Developer tool: run checks against a scratch worktree of /repo with a patch applied.
#   tools/mutant.sh <patch.diff> [--tests] <Cxx> [<Cxx> ...]
# Creates /tmp/lexpr-mut-$$ (git worktree of /repo HEAD), applies the patch, optionally runs the
# repository's own test suite, runs ./check <Cxx> quick for each property with VERIF_REPO pointing
# at the worktree, then removes the worktree and its build output.
set -u
patch="$(readlink -f "$1")"; shift
run_tests=0
if [ "${1:-}" = "--tests" ]; then run_tests=1; shift; fi
wt="/tmp/lexpr-mut-$$"
git -C /repo worktree add --detach "$wt" HEAD >/dev/null 2>&1 || { echo "cannot create worktree"; exit 2; }
cp /repo/Cargo.lock "$wt/Cargo.lock"
cleanup() {
  key="$(printf '%s' "$wt" | cksum | cut -d' ' -f1)"
  rm -rf "/verif/target/$key"
  git -C /repo worktree remove --force "$wt" >/dev/null 2>&1
  rm -rf "$wt"
}
trap cleanup EXIT
if ! git -C "$wt" apply "$patch"; then echo "patch does not apply"; exit 2; fi
if [ $run_tests -eq 1 ]; then
  (cd "$wt" && CARGO_TARGET_DIR="$wt/target" cargo test --workspace --offline 2>&1 | grep -E '^test result|FAILED|failed|error' | sort | uniq -c)
fi
for p in "$@"; do
  echo "=== $p on mutant $(basename "$patch")"
  VERIF_REPO="$wt" VERIF_EVIDENCE_DIR="$wt/evidence" /verif/check "$p" ${TIER:-quick} 2>&1 | grep -E 'VIOLATION|KNOWN|violation class|MACHINERY|tier:' | cut -c1-300 | head -${LINES_MAX:-12}
  echo "rc=${PIPESTATUS[0]}"
done
