#!/usr/bin/env bash
# Developer tool: confirm a seeded change delivered by a sub-agent and run the checks against it.
#   tools/confirm_seed.sh <srcdir> <seed-id> <prop> [more props...]
# <srcdir> holds patch.diff and demo/ (seed_demo.rs, README.txt). Confirms in a fresh scratch
# worktree of /repo: (1) demo passes without the patch, (2) the repository's suite passes with the
# patch, (3) the demo fails with the patch; then runs ./check <prop> quick with VERIF_REPO pointing
# at the patched worktree, stores everything under /verif/seeded/<seed-id>/, and cleans up.
set -u
src="$1"; id="$2"; shift; shift
wt="/tmp/confirm-$id"
out="/verif/seeded/$id"
git -C /repo worktree remove --force "$wt" >/dev/null 2>&1; rm -rf "$wt"
git -C /repo worktree add --detach "$wt" HEAD >/dev/null 2>&1 || { echo "cannot create worktree"; exit 2; }
cp /repo/Cargo.lock "$wt/"
cleanup() {
  key="$(printf '%s' "$wt" | cksum | cut -d' ' -f1)"
  rm -rf "/verif/target/$key"
  git -C /repo worktree remove --force "$wt" >/dev/null 2>&1
  rm -rf "$wt"
}
trap cleanup EXIT
crate=lexpr
if grep -qi 'serde-lexpr/tests\|-p serde-lexpr\|serde_lexpr' "$src/demo/README.txt" "$src/demo/"*.rs 2>/dev/null; then crate=serde-lexpr; fi
demo="$(ls "$src"/demo/*.rs | head -1)"
export CARGO_TARGET_DIR="$wt/target"
mkdir -p "$out"
cp "$src/patch.diff" "$out/patch.diff"; cp -r "$src/demo" "$out/"; rm -rf "$out/demo/target"
# (1) demo without the patch
cp "$demo" "$wt/$crate/tests/seed_demo.rs"
(cd "$wt" && timeout 900 cargo test --offline -p "$crate" --test seed_demo >"$out/demo_without_patch.log" 2>&1); r1=$?
rm -f "$wt/$crate/tests/seed_demo.rs"
# (2) suite with the patch
if ! git -C "$wt" apply "$src/patch.diff"; then echo "PATCH DOES NOT APPLY"; exit 2; fi
(cd "$wt" && timeout 1200 cargo test --workspace --offline 2>&1 | grep -E '^test result|^error|FAILED|panicked' >"$out/suite_with_patch.log");
if grep -qv '^test result: ok' "$out/suite_with_patch.log" || ! [ -s "$out/suite_with_patch.log" ]; then r2=1; else r2=0; fi
# (3) demo with the patch
cp "$demo" "$wt/$crate/tests/seed_demo.rs"
(cd "$wt" && timeout 900 cargo test --offline -p "$crate" --test seed_demo >"$out/demo_with_patch.log" 2>&1); r3=$?
rm -f "$wt/$crate/tests/seed_demo.rs"
echo "demo without patch: rc=$r1 (want 0); suite with patch: rc=$r2 (want 0); demo with patch: rc=$r3 (want != 0)"
unset CARGO_TARGET_DIR
confirmed=false
if [ $r1 -eq 0 ] && [ $r2 -eq 0 ] && [ $r3 -ne 0 ]; then confirmed=true; fi
results="{"
for p in "$@"; do
  log="$out/check_$p.log"
  VERIF_REPO="$wt" VERIF_EVIDENCE_DIR="$wt/evidence" timeout 2400 /verif/check "$p" quick >"$log" 2>&1; rc=$?
  nv=$(grep -c '^VIOLATION' "$log")
  echo "== $p: rc=$rc violations=$nv"
  grep 'violation class' "$log" | cut -c1-330 | head -4
  grep 'MACHINERY' "$log" | head -2
  results="$results\"$p\": {\"rc\": $rc, \"violation_lines\": $nv},"
  # keep the log small
  grep -E 'violation class|VIOLATION|KNOWN|tier:|MACHINERY' "$log" | cut -c1-600 | head -40 > "$log.tmp"; mv "$log.tmp" "$log"
done
results="${results%,}}"
python3 - "$out" "$id" "$confirmed" "$crate" "$results" "$@" <<'EOF'
import json, sys, os
out, sid, confirmed, crate, results = sys.argv[1:6]
props = sys.argv[6:]
readme = open(os.path.join(out, "demo", "README.txt")).read() if os.path.exists(os.path.join(out, "demo", "README.txt")) else ""
meta = {"id": sid, "origin": "fresh sub-agent given only the property text and a scratch worktree", "breaks": props[:1], "demo_crate": crate,
        "confirmed_by_me": confirmed == "true",
        "confirmation": "scratch worktree of /repo HEAD: demo passes without the patch, `cargo test --workspace --offline` passes with the patch, demo fails with the patch",
        "needs_to_manifest": readme.strip()[:1500], "checks_run_quick": json.loads(results)}
json.dump(meta, open(os.path.join(out, "meta.json"), "w"), indent=1)
EOF
echo "stored in $out (confirmed=$confirmed)"
