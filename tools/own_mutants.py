#!/usr/bin/env python3
"""Developer tool: apply each of the hand-written candidate mutants (DESIGN.md section 5) to a
scratch worktree of /repo, run the repository's own tests, run the named checks against it, and
record patch + outcome under /verif/seeded/own-<name>/.  Usage: own_mutants.py [name-filter]"""
import json, os, subprocess, sys, shutil

WT = "/tmp/lexpr-own-mut"
M = []
def m(name, props, file, old, new, note="", control=False, count=1):
    M.append(dict(name=name, props=props, file=file, old=old, new=new, note=note, control=control, count=count))

P = "lexpr/src/print.rs"; PM = "lexpr/src/parse/mod.rs"; PR = "lexpr/src/parse/read.rs"
m("c01-hex-escape-shift", ["C01"], P, "HEX_DIGITS[(byte >> 4) as usize],\n                HEX_DIGITS[(byte & 0xF) as usize],\n                b';',", "HEX_DIGITS[(byte >> 5) as usize],\n                HEX_DIGITS[(byte & 0xF) as usize],\n                b';',", "\\xHH; escape wrong for 0x10-0x1F and 0x7F; the suite's only control char is 0x01")
m("c01-swap-alarm-backspace", ["C01", "C13"], PR, "        b'a' => scratch.push(0x07),\n        b'b' => scratch.push(0x08),\n        b'f' => scratch.push(0x0C),\n        b'n' => scratch.push(b'\\n'),\n        b'r'", "        b'a' => scratch.push(0x08),\n        b'b' => scratch.push(0x07),\n        b'f' => scratch.push(0x0C),\n        b'n' => scratch.push(b'\\n'),\n        b'r'", "\\a and \\b swapped in the R6RS string reader")
m("c02-elisp-paren-not-escaped", ["C02"], P, 'static ELISP_ESCAPE_CHARS: &[u8] = b"()[]\\\\;|\'`#.,";', 'static ELISP_ESCAPE_CHARS: &[u8] = b")[]\\\\;|\'`#.,";', "?( printed without backslash; the Emacs reader rejects it")
m("c02-elisp-control-hex", ["C02"], P, "                b'\\\\',\n                b'u',\n                b'0',\n                b'0',\n                HEX_DIGITS[(byte >> 4) as usize],", "                b'\\\\',\n                b'x',\n                b'0',\n                b'0',\n                HEX_DIGITS[(byte >> 4) as usize],", "controls in Elisp strings as \\x00NN: turns the string unibyte")
m("c03-vector-no-depth-charge", ["C03"], PM, "            Token::VecOpen(close) => {\n                self.remaining_depth -= 1;\n                if self.remaining_depth == 0 {\n                    self.remaining_depth += 1;\n                    return Err(self.peek_error(ErrorCode::RecursionLimitExceeded));\n                }\n\n                let ret = self.parse_vector(close);\n\n                self.remaining_depth += 1;", "            Token::VecOpen(close) => {\n                let ret = self.parse_vector(close);", "value API: #( no longer charged against the nesting budget")
m("c03-exponent-plain-add", ["C03", "C05"], PM, "            starting_exp.saturating_add(exp)", "            starting_exp + exp", "i32 overflow for 21-digit significands with exponent 2^31-1")
m("c04-u64-through-i64", ["C04", "C14"], "serde-lexpr/src/value/ser.rs", "    fn serialize_u64(self, v: u64) -> Result<Value> {\n        Ok(Value::from(v))", "    fn serialize_u64(self, v: u64) -> Result<Value> {\n        Ok(Value::from(v as i64))", "u64 above i64::MAX serialized as a negative number")
m("c04-option-unit-collapse", ["C04", "C18"], "serde-lexpr/src/value/de.rs", "            Value::Null => visitor.visit_none(),\n            Value::Cons(cons) if cons.cdr().is_null() => {", "            Value::Null => visitor.visit_none(),\n            Value::Cons(cons) if cons.cdr().is_null() && cons.car().is_null() => visitor.visit_none(),\n            Value::Cons(cons) if cons.cdr().is_null() => {", "(()) read as None: Option<Option<T>> and Option<()> collapse")
m("c05-neg-zero", ["C05", "C01"], PM, "                    if neg > 0 {", "                    if neg >= 0 {", "-0 becomes the float -0.0")
m("c05-overflow-macro", ["C05", "C03"], PM, "        $a >= $c / $radix && ($a > $c / $radix || $b > $c % $radix)\n    };\n    ($a:ident * $radix:ident", "        $a > $c / $radix\n    };\n    ($a:ident * $radix:ident", "u64 overflow check weakened for the literal-radix arm (decimal fraction digits)")
m("c06-bar-terminator-slice-only", ["C06"], PR, "                | Some(b')') | Some(b']') | Some(b'(') | Some(b'[') | Some(b';') | Some(b'\"')\n                | Some(b'|') | None) => {\n                    if let Some(code) = check_symbol_end(scratch, next.is_none()) {\n                        return error(self, code);\n                    }\n                    return result(self, scratch);", "                | Some(b')') | Some(b']') | Some(b'(') | Some(b'[') | Some(b';') | Some(b'\"')\n                | None) => {\n                    if let Some(code) = check_symbol_end(scratch, next.is_none()) {\n                        return error(self, code);\n                    }\n                    return result(self, scratch);", "the stream symbol scanner no longer stops at '|'")
m("c06-elisp-nonascii-flag", ["C06"], PR, "                _ => {\n                    if ch > 127 {\n                        seen_non_ascii = true;\n                    }\n                    scratch.push(ch);", "                _ => {\n                    scratch.push(ch);", "IoRead::parse_elisp_str forgets raw non-ASCII bytes when classifying unibyte/multibyte")
m("c07-fragment-write", ["C07"], P, "        writer.write_all(fragment.as_bytes())\n    }", "        writer.write(fragment.as_bytes()).map(drop)\n    }", "write instead of write_all for string fragments")
m("c07-ignore-end-list", ["C07"], P, "                self.formatter.end_list(&mut self.writer)\n            }", "                let _ = self.formatter.end_list(&mut self.writer);\n                Ok(())\n            }", "error from the closing parenthesis ignored")
m("c08-t-uppercase", ["C08"], PM, '        } else if self.options.t_symbol() != TSymbol::Default && name == "t" {', '        } else if self.options.t_symbol() != TSymbol::Default && (name == "t" || name == "T") {', "T also read as true")
m("c08-nil-prefix", ["C08"], PM, '        } else if self.options.nil_symbol() != NilSymbol::Default && name == "nil" {', '        } else if self.options.nil_symbol() != NilSymbol::Default && name.starts_with("nil") {', "nilx read as the empty list")
m("c09-vector-tail-flattened", ["C09"], "lexpr-macros/src/parser.rs", "            Value::ImproperList(rest_list, rest) => {\n                elements.extend(rest_list);\n                Ok(Value::ImproperList(elements, rest))\n            }", "            Value::ImproperList(rest_list, rest) => {\n                elements.extend(rest_list);\n                Ok(Value::ImproperList(elements, rest))\n            }\n            Value::Vector(rest_list) => {\n                elements.extend(rest_list);\n                Ok(Value::List(elements))\n            }", "a vector tail is spliced into the list")
m("c10-vector-meta-closer", ["C10"], PM, "                    b')' | b']' => {\n                        if c != terminator {\n                            return Err(self.peek_error(ErrorCode::MismatchedParenthesis));\n                        }\n                        return Ok((elements, element_meta));", "                    b')' | b']' => {\n                        return Ok((elements, element_meta));", "datum API: vector accepts a mismatched closer")
m("c10-quotation-cons", ["C10", "C11"], "lexpr/src/datum.rs", "            value: Value::list(vec![Value::symbol(name), quoted_value]),", "            value: Value::cons(Value::symbol(name), quoted_value),", "datum API builds (quote . x) instead of (quote x)")
m("c11-start-before-whitespace", ["C11"], PM, "    pub fn next_datum(&mut self) -> Result<Option<Datum>> {\n        let peek = match self.parse_whitespace()? {\n            Some(b) => b,\n            None => return Ok(None),\n        };\n        let start = self.read.position();", "    pub fn next_datum(&mut self) -> Result<Option<Datum>> {\n        let start0 = self.read.position();\n        let peek = match self.parse_whitespace()? {\n            Some(b) => b,\n            None => return Ok(None),\n        };\n        let start = if start0.line() > 1 { start0 } else { self.read.position() };", "span start taken before trivia when not on the first line")
m("c11-quote-head-whole-span", ["C11"], "lexpr/src/datum.rs", "                    SpanInfo::Prim(quote_span),\n                    SpanInfo::Cons(", "                    SpanInfo::Prim(Span::new(quote_span.start(), quoted_end)),\n                    SpanInfo::Cons(", "shorthand head gets the whole datum's span")
m("c12-cr-not-whitespace", ["C12"], PM, "                Some(b' ') | Some(b'\\n') | Some(b'\\t') | Some(b'\\r') | Some(0x0C) => {\n                    self.eat_char();", "                Some(b' ') | Some(b'\\n') | Some(b'\\t') | Some(0x0C) => {\n                    self.eat_char();", "CR no longer skipped between datums")
m("c12-iterator-expect", ["C12"], PM, "    fn next(&mut self) -> Option<Self::Item> {\n        self.value_iter().next()\n    }", "    fn next(&mut self) -> Option<Self::Item> {\n        match self.expect_value() {\n            Err(e) if e.is_eof() && e.to_string().starts_with(\"EOF while parsing a value\") => None,\n            other => Some(other),\n        }\n    }", "Iterator for Parser through expect_value: differs on EOF inside the stream")
m("c13-backslash-in-symbols", ["C13"], PR, "                Some(ch) => {\n                    self.discard();\n                    scratch.push(ch);\n                }\n            }\n        }\n    }\n}\n\nimpl<'de, R> Read<'de> for IoRead<R>", "                Some(b'\\\\') => {\n                    self.discard();\n                    if let Some(c) = self.next()? {\n                        scratch.push(c);\n                    }\n                }\n                Some(ch) => {\n                    self.discard();\n                    scratch.push(ch);\n                }\n            }\n        }\n    }\n}\n\nimpl<'de, R> Read<'de> for IoRead<R>", "stream reader: backslash escapes the next byte inside symbols (a\\ b -> symbol 'a b')")
m("c13-ctl-esc-in-r6rs-strings", ["C13", "C08", "C01"], PR, "        b'|' => scratch.push(b'|'),\n        // TODO: trailing backspace", "        b'|' => scratch.push(b'|'),\n        b'e' => scratch.push(0x1B),\n        // TODO: trailing backspace", "CONTROL: a new accepted spelling \\e whose value prints as \\x1B; — property still holds", control=True)
m("c14-listaccess-improper", ["C14", "C18"], "serde-lexpr/src/value/de.rs", "                    Value::Null => self.cursor = None,\n                    _ => return Err(invalid_value(cell.cdr(), \"cons cell or end of list\")),", "                    _ => self.cursor = None,", "(1 2 . 3) read as [1, 2]")
m("c14-empty-bytes-as-list", ["C14", "C04"], "serde-lexpr/src/value/ser.rs", "    fn serialize_bytes(self, value: &[u8]) -> Result<Value> {\n        Ok(Value::Bytes(value.into()))", "    fn serialize_bytes(self, value: &[u8]) -> Result<Value> {\n        if value.is_empty() {\n            return Ok(Value::Null);\n        }\n        Ok(Value::Bytes(value.into()))", "empty byte buffer serialized as the empty list")
m("c15-dotted-any", ["C15"], "lexpr/src/value/mod.rs", "            Value::Cons(pair) => pair.iter().all(|p| !matches!(p.cdr(), Value::Null)),", "            Value::Cons(pair) => pair.iter().any(|p| !matches!(p.cdr(), Value::Null)),", "is_dotted_list true for proper lists of 2+ elements")
m("c15-index-tail", ["C15"], "lexpr/src/value/index.rs", "                for _ in 0..*self {\n                    match cursor.cdr() {\n                        Value::Cons(next) => cursor = next,\n                        _ => return None,\n                    }\n                }\n                Some(cursor.car())", "                for i in 0..*self {\n                    match cursor.cdr() {\n                        Value::Cons(next) => cursor = next,\n                        Value::Null => return None,\n                        tail if i + 1 == *self => return Some(tail),\n                        _ => return None,\n                    }\n                }\n                Some(cursor.car())", "index len of a dotted list returns its tail")
m("c16-append-recursive", ["C16"], "lexpr/src/value/mod.rs", "        let mut list = Cons::new(Value::Nil, Value::Null);\n        let mut pair = &mut list;\n        let mut have_value = false;\n        for item in elements {\n            if have_value {\n                pair.set_cdr(Value::from((Value::Nil, Value::Null)));\n                pair = pair.cdr_mut().as_cons_mut().unwrap();\n            }\n            pair.set_car(item.into());\n            have_value = true;\n        }\n        if have_value {\n            pair.set_cdr(tail.into());\n            Value::Cons(list)\n        } else {\n            tail.into()\n        }", "        fn build<I: Iterator<Item = Value>>(mut it: I, tail: Value) -> Value {\n            match it.next() {\n                Some(x) => {\n                    let rest = build(it, tail);\n                    Value::Cons(Cons::new(x, rest))\n                }\n                None => tail,\n            }\n        }\n        build(elements.into_iter().map(Into::into), tail.into())", "Value::append built recursively")
m("c16-print-recursive-cdr", ["C16"], P, "                for (i, pair) in elements.iter().enumerate() {\n                    self.formatter.begin_seq_element(&mut self.writer, i == 0)?;\n                    self.print(pair.car())?;\n                    self.formatter.end_seq_element(&mut self.writer)?;\n                    match pair.cdr() {\n                        Value::Null | Value::Cons(_) => {}\n                        _ => {", "                for (i, pair) in elements.iter().enumerate() {\n                    self.formatter.begin_seq_element(&mut self.writer, i == 0)?;\n                    self.print(pair.car())?;\n                    self.formatter.end_seq_element(&mut self.writer)?;\n                    if i == usize::MAX {\n                        self.print(pair.cdr())?;\n                    }\n                    match pair.cdr() {\n                        Value::Null | Value::Cons(_) => {}\n                        _ => {", "CONTROL: dead recursive call in the printer (never taken)", control=True)
m("c17-as-str-unchecked", ["C17"], PR, "    str::from_utf8(slice).or_else(|_| error(read, ErrorCode::InvalidUnicodeCodePoint))", "    let _ = read;\n    Ok(unsafe { str::from_utf8_unchecked(slice) })", "as_str no longer validates: ill-formed UTF-8 reaches a str")
m("c17-elisp-escape-byte", ["C17", "C02"], PR, "            if n > 255 {\n                scratch.extend_from_slice(c.encode_utf8(&mut [0_u8; 4]).as_bytes());\n                Ok(ElispEscape::Multibyte)", "            if n > 255 {\n                scratch.push(n as u8);\n                Ok(ElispEscape::Multibyte)", "multibyte Elisp hex escape pushes one truncated byte")
m("c18-mapaccess-expect", ["C18"], "serde-lexpr/src/value/de.rs", "        let value = cell\n            .car()\n            .as_cons()\n            .ok_or_else(|| invalid_value(cell.car(), \"cons cell\"))\n            .and_then(|cell| seed.deserialize(&mut Deserializer::from_value(cell.cdr())))?;", "        let value = seed.deserialize(&mut Deserializer::from_value(\n            cell.car().as_cons().expect(\"pair\").cdr(),\n        ))?;", "CONTROL?: next_value after a successful next_key never sees a non-pair (unreachable panic)", control=True)
m("c18-bytes-io-error", ["C18"], "serde-lexpr/src/value/de.rs", "            _ => Err(invalid_value(self.input, \"byte vector\")),", "            _ => Err(Error::from(std::io::Error::new(std::io::ErrorKind::InvalidData, \"not a byte vector\"))),", "wrong kind for bytes reported in the Io category")
m("c19-vector-eof-syntax", ["C19"], "lexpr/src/parse/error.rs", "            | ErrorCode::EofWhileParsingVector\n            | ErrorCode::EofWhileParsingValue", "            | ErrorCode::EofWhileParsingValue", "EOF inside a vector classified as Syntax", count=1)
m("c19-peek-position-uncapped", ["C19"], PR, "        self.position_of_index(cmp::min(self.slice.len(), self.index + 1))", "        self.position_of_index_unchecked(self.index + 1)", "peek_position overshoots by one column at the end of the input")
m("c20-from-i32-posint", ["C20"], "lexpr/src/number.rs", "                    let n = if n >= 0 {\n                        N::PosInt(n as u64)", "                    let n = if n >= 0 || (std::mem::size_of::<$ty>() == 4 && n == -1) {\n                        N::PosInt(n as u64)", "From<i32>(-1) stored as PosInt(u64::MAX)")
m("c20-is-i64-strict", ["C20"], "lexpr/src/number.rs", "            N::PosInt(v) => v <= i64::MAX as u64,\n            N::NegInt(_) => true,\n            N::Float(_) => false,\n        }\n    }\n\n    /// Returns true if the `Number` is an integer between zero and `u64::MAX`.", "            N::PosInt(v) => v < i64::MAX as u64,\n            N::NegInt(_) => true,\n            N::Float(_) => false,\n        }\n    }\n\n    /// Returns true if the `Number` is an integer between zero and `u64::MAX`.", "is_i64 false for i64::MAX")

EXTRA_EDITS = {
    # second edit needed to keep the mutant compiling
    "c19-vector-eof-syntax": [("lexpr/src/parse/error.rs", "            | ErrorCode::ExpectedVector", "            | ErrorCode::ExpectedVector\n            | ErrorCode::EofWhileParsingVector")],
    "c19-peek-position-uncapped": [(PR, "    fn parse_symbol_bytes<'s, T, F>(\n        &'s mut self,\n        scratch: &'s mut Vec<u8>,\n        result: F,\n    ) -> Result<Reference<'a, 's, T>>", "    fn position_of_index_unchecked(&self, i: usize) -> Position {\n        let mut p = self.position_of_index(cmp::min(self.slice.len(), i));\n        if i > self.slice.len() {\n            p.column += i - self.slice.len();\n        }\n        p\n    }\n\n    fn parse_symbol_bytes<'s, T, F>(\n        &'s mut self,\n        scratch: &'s mut Vec<u8>,\n        result: F,\n    ) -> Result<Reference<'a, 's, T>>")],
}

def sh(cmd, **kw):
    return subprocess.run(cmd, shell=True, capture_output=True, text=True, **kw)

def main():
    flt = sys.argv[1] if len(sys.argv) > 1 else ""
    sh(f"git -C /repo worktree remove --force {WT}; rm -rf {WT}")
    r = sh(f"git -C /repo worktree add --detach {WT} HEAD && cp /repo/Cargo.lock {WT}/")
    key = sh(f"printf '%s' {WT} | cksum | cut -d' ' -f1").stdout.strip()
    results = []
    for mu in M:
        if flt and flt not in mu["name"]:
            continue
        sh(f"git -C {WT} checkout -- . && git -C {WT} clean -fdq -e target -e Cargo.lock")
        edits = [(mu["file"], mu["old"], mu["new"])] + EXTRA_EDITS.get(mu["name"], [])
        ok = True
        for f, old, new in edits:
            p = os.path.join(WT, f)
            s = open(p).read()
            if s.count(old) < 1:
                print(f"!! {mu['name']}: pattern not found in {f}")
                ok = False
                break
            s = s.replace(old, new, 1)
            open(p, "w").write(s)
        if not ok:
            results.append((mu["name"], "PATTERN-NOT-FOUND", {}))
            continue
        out_dir = f"/verif/seeded/own-{mu['name']}"
        os.makedirs(out_dir, exist_ok=True)
        diff = sh(f"git -C {WT} diff").stdout
        open(f"{out_dir}/patch.diff", "w").write(diff)
        t = sh(f"cd {WT} && CARGO_TARGET_DIR={WT}/target timeout 900 cargo test --workspace --offline 2>&1 | grep -E '^test result|^error|FAILED|panicked' ")
        lines = t.stdout.strip().splitlines()
        suite_ok = bool(lines) and all(l.startswith("test result: ok") for l in lines)
        verdicts = {}
        if suite_ok:
            for prop in mu["props"]:
                c = sh(f"cd /verif && VERIF_REPO={WT} VERIF_EVIDENCE_DIR={WT}/evidence timeout 1500 ./check {prop} quick 2>&1")
                viol = [l for l in c.stdout.splitlines() if l.startswith("VIOLATION")]
                cls = [l.strip()[:260] for l in (c.stdout + c.stderr).splitlines() if "violation class" in l][:3]
                mach = [l for l in (c.stdout + c.stderr).splitlines() if "MACHINERY" in l][:2]
                verdicts[prop] = {"rc": c.returncode, "violations": len(viol), "classes": cls, "machinery": mach}
        meta = {"name": mu["name"], "breaks": mu["props"], "note": mu["note"], "control": mu["control"], "origin": "hand-written candidate from DESIGN.md section 5",
                "repo_suite_passes_with_change": suite_ok, "suite_output": lines[:12], "checks_run": verdicts}
        json.dump(meta, open(f"{out_dir}/meta.json", "w"), indent=1)
        results.append((mu["name"], "suite-ok" if suite_ok else "SUITE-FAILS", {k: (v["rc"], v["violations"]) for k, v in verdicts.items()}))
        print(results[-1], flush=True)
    sh(f"git -C /repo worktree remove --force {WT}; rm -rf {WT} /verif/target/{key}")
    print("DONE")

main()
