#!/usr/bin/env python3
"""Append an entry to known_findings.json (developer tool; never run by a check).
usage: kf.py fixed <prop> <commit> <what>   |   kf.py known <prop> <subcheck-re> <kind-re> <witness-re> <what>"""
import json, sys, os
root = os.path.dirname(os.path.dirname(os.path.abspath(__file__)))
p = os.path.join(root, "known_findings.json")
d = json.load(open(p))
if sys.argv[1] == "fixed":
    _, _, prop, commit, what = sys.argv
    d["findings"].append({"property": prop, "status": "fixed", "commit": commit, "what": what,
                          "record": f"fixed: property={prop} {commit} {what}"})
else:
    _, _, prop, sub, kind, wit, what = sys.argv
    d["findings"].append({"property": prop, "status": "known", "subcheck": sub, "kind": kind, "witness": wit, "what": what})
json.dump(d, open(p, "w"), indent=1, ensure_ascii=False)
