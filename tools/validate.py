#!/usr/bin/env python3
"""Validate MANIFEST.json and every evidence file against the schemas in /root/.vp."""
import json, sys, glob, os
try:
    import jsonschema
except ImportError:
    sys.exit("run with python3-vt (jsonschema needed)")
root = os.path.dirname(os.path.dirname(os.path.abspath(__file__)))
ok = True
def check(path, schema_path):
    global ok
    schema = json.load(open(schema_path))
    try:
        jsonschema.validate(json.load(open(path)), schema)
        print("ok  ", path)
    except Exception as e:
        ok = False
        print("FAIL", path, str(e)[:300])
check(os.path.join(root, "MANIFEST.json"), "/root/.vp/MANIFEST.schema.json")
for f in sorted(glob.glob(os.path.join(root, "evidence", "C*.json"))):
    check(f, "/root/.vp/EVIDENCE.schema.json")
m = json.load(open(os.path.join(root, "MANIFEST.json")))
claimed = {c["property_id"] for c in m["checks"]}
na = {c["property_id"] for c in m.get("not_applicable", [])}
allp = {json.loads(l)["id"] for l in open(os.path.join(root, "properties.jsonl"))}
if claimed | na != allp or claimed & na:
    ok = False
    print("FAIL: claimed+not_applicable != properties", sorted(allp - claimed - na), sorted(claimed & na))
sys.exit(0 if ok else 1)
