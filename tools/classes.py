#!/usr/bin/env python3
"""Developer tool: summarise the violation classes of an evidence file."""
import json, sys
e = json.load(open(sys.argv[1]))
seen = set()
for v in e.get("violation_classes", []):
    k = (v["sub"], v["kind"], v["class"])
    if k in seen: continue
    seen.add(k)
    print(f'{v["occurrences_in_class"]:>9}  [{v["sub"]} / {v["class"]}]  {v["witness"][:110]}  -- {v["detail"][:150]}')
for k in e.get("known_findings_hit", []):
    print("KNOWN", k["occurrences"], k["what"][:100])
