//! G — grammar corpus of well-formed single-datum texts (DESIGN 3.2), plus a pool of malformed
//! items. Built from the value domains printed by the real printers and from a hand-written list of
//! alternative spellings covering every token kind of both dialects.

use crate::domains::{a12, actx, shapes, PR};
use crate::rv::RV;

/// Alternative spellings, default (Scheme) dialect.
pub const ALT_DEFAULT: &[&str] = &[
    // numbers
    // decimal spellings of numbers that the printer writes with an exponent (and vice versa)
    "0.0000001", "0.00000015", "-0.00000000025", "0.000001", "0.00001", "1000000000000000000000.0", "123456789012345678901234.5", "15e-8", "1.5e-7", "1e-7", "0.1e-3", "100e-2", "1e+21", "12.5e-1",
    // strings and characters spelled with hex escapes for every control character and DEL
    "\"\\x7f;\"", "\"a\\x7F;b\"", "\"\x7f\"", "\"\\x1f;\\x7f;\\x80;\\x9f;\\xa0;\"", "\"\\x0;\\x1;\\x8;\\xb;\\xc;\\xe;\\x1b;\"", "#\\x7f", "#\\x1f", "#\\x80", "#\\x9f", "#\\xa0", "#\\x0", "#\\x1b",
    // raw CR / CR LF inside strings; negative zero from every path; a dot glued to a quote character
    "\"a\r\nb\"", "\"a\rb\"", "\"\r\n\"", "(\"x\r\n\" y)", "-0.0", "-0e0", "-1e-400", "-0e-99999999999", "-0.0e5", "(-0.0 0.0)",
    "'.'b", "`.,x", ",.`y", "(a .'b)", "#('.'b)", "'(a . '.,c)", "(a .,b)",
    // negative floats written with an exponent and no fraction, and other spellings the printer does not use
    "-1e21", "-1.0e21", "-7.0e22", "-5e-7", "-1E3", "-2e16", "+1e21", "-0.0000003", "-0e0", "-1e0",
    // unquote followed by trivia and an @-initial symbol is NOT unquote-splicing
    ", @a", "(, @rest)", ",\n@a", ",;c\n@a", ",@ a", "(a , @b c)",
    // the long forms of the shorthands, in every arity, with @-initial arguments
    "(unquote @rest)", "(unquote @)", "(quasiquote (list (unquote x) (unquote @) (unquote-splicing y)))", "(a (unquote @b) #((unquote @)))", "(quote)", "(quote a b)", "(quote . a)", "(unquote . @a)", "(x unquote @a)", "(x . (unquote @a))", "(unquote-splicing a)", "(function f)",
    // raw control characters (NUL, BEL, ESC, DEL, C1) inside strings and symbols
    "\"a\x00b\"", "(#:key \"\x00\")", "#(\"\x00\x001\" x)", "\"\x01\x07\x1b\x7f\"", "\"\u{80}\u{9f}\"", "a\x01b", "(\x7f)",
    "0", "-0", "+5", "-5", "007", "#b101", "#b-101", "#o17", "#o+17", "#d10", "#d-10", "#xff", "#xFF", "#x-fF", "#x+0a", "#b0", "1.5", "-1.5", "+1.5",
    "1e3", "1E3", "1e+3", "1e-3", "1.5e3", "1.5E-3", "0.5", "10.25", "#d1.5", "#d1e3", "123456789012345678901234567890", "-123456789012345678901234567890",
    "18446744073709551615", "18446744073709551616", "-9223372036854775808", "-9223372036854775809", "1.0e21", "1e21", "5e-324", "1e-7", "100.0", "#xFFFFFFFFFFFFFFFFFFFF",
    // booleans, nil
    "#t", "#f", "#nil", "()", "( )", "[]",
    // characters
    "#\\a", "#\\A", "#\\(", "#\\)", "#\\;", "#\\\"", "#\\#", "#\\\\", "#\\x", "#\\x41", "#\\x3bb", "#\\x10FFFF", "#\\x0", "#\\nul", "#\\alarm", "#\\backspace", "#\\tab",
    "#\\xD8000", "#\\xDFFF0", "#\\x0D8000", "\"\\xD8000;\"", "(#\\xD8000)", "#\\\u{80}", "#\\\u{7ff}", "#\\\u{800}", "#\\\u{d7ff}", "#\\\u{e000}", "#\\\u{ffff}", "#\\\u{10000}", "#\\\u{10ffff}", "\u{aa}", "\u{7fa}x", "\u{800}", "\u{d7fb}", "\u{ffdc}", "\u{10000}", "(\u{30000} \u{7fa})", "#:\u{7fa}",
    "#\\linefeed", "#\\newline", "#\\vtab", "#\\page", "#\\return", "#\\esc", "#\\space", "#\\delete", "#\\λ", "#\\😀", "#\\é",
    // strings
    "\"\"", "\"a\"", "\"a b\"", "\"\\\"\"", "\"\\\\\"", "\"\\a\\b\\t\\n\\r\\v\\f\"", "\"\\|\"", "\"\\x41;\"", "\"\\x3bb;\"", "\"\\x1F600;\"", "\"\\x0;\"", "\"λ€😀\"", "\"a\\x41;λ\\nb\"",
    "\"line1\nline2\"", "\"tab\there\"", "\";not a comment\"", "\"(\"", "\"#|\"",
    // symbols and keywords
    "a", "abc", "a-b", "a.b", "a1", "+", "-", "...", "->", "<=?", "!$%&*/:<=>?@^_~", "λ", "λx", "aλ", "set!", "list->vector", "+a", "-a", "--", "+-", "-+", "a+", "a-", ".a",
    "..", "nil", "t", "#:a", "#:k-w", "#:λ", "#:+", "#:a1", ":a", "a:", "x.y.z", "%a", "=", "/", "*", "?a", "a?",
    // lists, dotted, vectors, bytevectors
    "(a)", "(a b)", "(a b c)", "(a . b)", "(a b . c)", "(a . (b . (c)))", "(a . (b c))", "(a . ())", "((a))", "((a) (b))", "(() ())", "[a b]", "[a . b]", "(a [b] c)", "#()", "#(a)",
    "#(a b)", "#(a #(b))", "#((a . b))", "(#(a) . #(b))", "#u8()", "#u8(1)", "#u8(0 127 128 255)", "#vu8()", "#vu8(1 2)", "#u8(#xff)", "#u8( 1  2 )", "(1 . 2)", "(1 .5)", "(a .b)",
    "(+ 1 2)", "(- 1)", "(a -)", "(a +)", "(a ...)", "(... a)", "(a . +)", "(a . -)", "(quote a)", "(1 2.5 \"s\" #\\c #t #nil sym #:kw)",
    // quote shorthands
    "'a", "`a", ",a", ",@a", "'(a b)", "''a", "'#(a)", "`(a ,b ,@c)", "' a", "'\"s\"", "'#\\a", "'()", "(a 'b)", "(a . 'b)", "#('a)", ",@(a)", ", a", ",@ a",
    // layout
    " a", "a ", "\ta\t", "\na\n", "\r\na\r\n", "\x0ca\x0c", ";c\na", "a;c", "a ;c\n", "(a;c\nb)", "( a . b )", "(a\n.\nb)", "#( a )", "#u8(\n1\n)", ";λ\na", "; \n ; \n a",
];

/// Alternative spellings that need Emacs Lisp options.
pub const ALT_ELISP: &[&str] = &[
    "nil", "t", "(nil t)", ":a", ":k-w", ":λ", "[a b]", "[]", "[a [b]]", "[(a . b)]", "(a . [b])", "?a", "?A", "?\\(", "?\\)", "?\\[", "?\\]", "?\\\\", "?\\;", "?\\\"", "?\"", "?\\a", "?\\b",
    "?\\t", "?\\n", "?\\v", "?\\f", "?\\r", "?\\e", "?\\s", "?\\d", "?\\^a", "?\\^A", "?\\^z", "?\\x41", "?\\x3bb", "?\\x10ffff", "?\\101", "?\\0", "?\\u03bb", "?\\U0001F600", "?\\N{U+3bb}",
    "?\\xD8000", "?\\xd8000", "?\\1540000", "?\\1577770", "?\\N{U+D8000}", "\"\\N{U+D8000}\"", "\"\\xD8000\"", "[?\\xD8000]", "?\u{80}", "?\u{7ff}", "?\u{800}", "?\u{d7ff}", "?\u{e000}", "?\u{ffff}", "?\u{10000}", "?\u{10ffff}", "?\\\u{7ff}", "?λ", "?😀", "? ", "?#", "?'", "?.", "?\\.", "?\\'", "?\\#", "?\\,", "?\\`", "?\\|",
    "\"\"", "\"a\"", "\"\\\"\\\\\"", "\"\\a\\b\\t\\n\\v\\f\\r\\e\\s\\d\"", "\"\\^a\\^Z\"", "\"\\101\"", "\"\\101\\102\"", "\"\\0\"", "\"\\377\"", "\"\\x41\"", "\"\\x41\\ \"", "\"\\xff\"",
    "\"\\x3bb\"", "\"\\u03bb\"", "\"\\U0001F600\"", "\"\\N{U+3bb}\"", "\"a\\ b\"", "\"\\101λ\"", "\"λ\"", "\"\\u0041\\101\"", "\"a\\qb\"", "\"\\\n\"", "\"\\400\"", "\"\\x100\"",
    "\"\\377\x7f\"", "\"\x7f\\377\"", "\"\\377a\"", "\"a\\377\"", "\"\\377 \"", "\"\\101\x7f\"", "\"é\\x21\"", "\"\\x21é\"", "\"\\377\\u00e9\"", "\"\\x21\u{80}\"", "\"\u{80}\\x21\"", "\"\\x21\\x7f\"",
    "0.0000001", "0.00000015", "15e-8", "1.5e-7", "1e-7", "-1e-7", "1e+21", "0.1e-3", "[0.00000015 15e-8]", "\"\\x7f\"", "\"a\\d\"", "?\\x7f", "?\\d", "?\\177", "\"\\177\"",
    // Emacs byte strings spelled by hand: an escaped octet followed by an octet that is a digit
    "\"\\001\\065\"", "\"\\x61\\x31\"", "\"\\377\\060\"", "\"\\0015\"", "\"\\1\\62\"", "\"\\x1\\ 5\"", "\"\\3777\"",
    "1abc", "1+", "1-", "1/2", "12ab", "0x10", "1.5.6", "1e3", "1e", "1.", "123", "-5", "1.5", "2020-01-01", "9a9", "(1+ x)", "[1- 2]", "550e8400-e29b-41d4-a716-446655440000",
    "(a . b)", "'a", "`(a ,b)", "#u8(1 2)", "#t", "#f", "#nil", "#\\a", "(defun f (x) \"doc\" (+ x 1))", "[?a ?b]", "(:k . v)", "[nil t]",
];

/// Racket / mixed options.
pub const ALT_OTHER: &[&str] = &["(a .b: 1)", "(.c:)", ".e:", "#(x (.d: y))", "(a . .f:)", "[.g: a]", "#%a", "#%app", "(#%a b)", "#%", "a:", "k-w:", "λ:", "(a: b)", "[a: b:]", "#:a", ":a:", "::", ":", "nil:", ":nil", "t:", "nilx", "tt", "NIL", "T", "1a:"];

/// Malformed or partial items (used for streams and error-path differentials).
pub const MALFORMED: &[&str] = &[
    "#(#z) a", "#(1 2 #z ) a b", "[1 #z] a", "(#z) a", "(1 #z) a", "(a . #z) b", "#u8(1 #z) a", "'#z a", "(a #(1 #z) b) c", "#(a (1 #z) b) c",
    ")", "]", "(", "[", "(a", "(a .", "(a . b", "(a . b c)", "(. a)", "( . )", "(a . )", "#(", "#(a", "#(a . b)", "[a)", "(a]", "#(a]", "\"", "\"abc", "\"\\", "\"\\x", "\"\\x41", "\"\\q\"",
    "\"\\xD800;\"", "\"\\x110000;\"", "#", "#n", "#ni", "#nix", "#u", "#u8", "#u8(", "#u8(256)", "#u8(-1)", "#u8(a)", "#u8(1.5)", "#u8 1", "#vu", "#vu8", "#vu9(", "#b", "#b2", "#o8", "#xg",
    "#x", "#x-", "#d", "#e1", "#\\", "#\\spac", "#\\spacex", "#\\x110000", "#\\xD800", "#\\xg", "1.", "1.e", "1e", "1e+", "1.5e", "1.5.6", "1/2", "1x", "12ab", "0x10", "+.", "-.", "+.5", "-.5", ".5", "1e400", "1e99999999999",
    "-1e400", "1.0e400", ".", "..", "'", "`", ",", ",@", "')", "'.", "(a . 'b c)", "#:", "#: a", "#%a", "\x01", "\x7f", "\\", "|", "|a|", "a|b", "{", "}", "a{b}", "a\"b\"", "\"a\"b", "#t1", "#tx", "#f0", "#true", "#false", "#nil1", "#\\ab", "'a b", "a b", "a)", "(a))", "a;c\nb", "a\x0cb", "foo\x0cbar",
];

/// Malformed items that are not valid UTF-8.
pub const MALFORMED_BYTES: &[&[u8]] = &[b"\xff", b"\xce", b"\xce(", b"\xbb", b"a\xff", b"\"\xff\"", b"#\\\xff", b"#\\\xce", b"\xce\xbb\xff", b"\"\xce\"", b";\xff\na", b"\xe2\x82", b"\xf0\x9f\x98", b"\xed\xa0\x80", b"\xc0\x80", b"\xf4\x90\x80\x80"];

/// Print a model value with the given printer options; None if printing fails.
pub fn print_with(v: &RV, p: Option<&PR>) -> Option<Vec<u8>> {
    let val = v.to_value();
    crate::util::guard(|| match p {
        None => lexpr::to_string(&val).ok().map(|s| s.into_bytes()),
        Some(p) => lexpr::print::to_string_custom(&val, p.to_lexpr()).ok().map(|s| s.into_bytes()),
    })
    .ok()
    .flatten()
}

#[derive(Clone, Copy, PartialEq, Eq, Debug)]
pub enum Dialect {
    Default,
    Elisp,
    Other,
}

/// The corpus: (text, dialect it is written for). Deduplicated, shortest first.
pub fn corpus_g(rich: bool) -> Vec<(Vec<u8>, Dialect)> {
    let mut out: Vec<(Vec<u8>, Dialect)> = Vec::new();
    for s in ALT_DEFAULT {
        out.push((s.as_bytes().to_vec(), Dialect::Default));
    }
    for s in ALT_ELISP {
        out.push((s.as_bytes().to_vec(), Dialect::Elisp));
    }
    for s in ALT_OTHER {
        out.push((s.as_bytes().to_vec(), Dialect::Other));
    }
    // hand-spelled scalars (NOT printer output: a changed printer must not change the corpus with
    // it): every scalar below U+0300 and the UTF-8 / surrogate / range boundaries as an R6RS hex
    // character, inside an R6RS string escape, and in the Emacs spellings
    for cp in (0u32..0x300).chain([0x7ff, 0x800, 0xd7ff, 0xe000, 0xfffd, 0xffff, 0x10000, 0x10ffff]) {
        if char::from_u32(cp).is_none() {
            continue;
        }
        out.push((format!("#\\x{:x}", cp).into_bytes(), Dialect::Default));
        out.push((format!("\"a\\x{:X};b\"", cp).into_bytes(), Dialect::Default));
        if rich || cp < 0x100 || cp > 0x2f0 {
            out.push((format!("?\\x{:x}", cp).into_bytes(), Dialect::Elisp));
            out.push((format!("\"a\\x{:x}\\ b\"", cp).into_bytes(), Dialect::Elisp));
            if cp <= 0o777 {
                out.push((format!("?\\{:o}", cp).into_bytes(), Dialect::Elisp));
            }
            if cp > 0xff {
                out.push((format!("\"\\u{:04x}\"", cp.min(0xffff)).into_bytes(), Dialect::Elisp));
            }
        }
    }
    let el = PR::elisp();
    let mut vals = actx();
    let atoms = a12();
    let sh = if rich { shapes(2, 2) } else { shapes(2, 1) };
    for s in sh {
        for a in &atoms {
            for b in &atoms {
                vals.push(s.build(&mut vec![a.clone(), b.clone()].into_iter()));
            }
        }
    }
    if rich {
        let a5 = crate::domains::a5();
        for s in shapes(3, 2) {
            for a in &a5 {
                for b in &a5 {
                    for c in &a5 {
                        vals.push(s.build(&mut vec![a.clone(), b.clone(), c.clone()].into_iter()));
                    }
                }
            }
        }
    }
    for v in &vals {
        if let Some(t) = print_with(v, None) {
            out.push((t, Dialect::Default));
        }
        if let Some(t) = print_with(v, Some(&el)) {
            out.push((t, Dialect::Elisp));
        }
    }
    out.sort_by(|a, b| (a.0.len(), &a.0, a.1 as u8).cmp(&(b.0.len(), &b.0, b.1 as u8)));
    out.dedup();
    out
}

/// Integer literals too long for 64 bits in every radix, and their near misses: one character
/// replaced by the first non-digit of the radix (the digit equal to the radix) at the first
/// position, before and after the point where the accumulator overflows, and at the end; long
/// decimals with a malformed fraction / exponent. The scanner switches code paths when the
/// accumulator overflows, so short near misses do not exercise the second path.
pub fn long_number_tokens() -> Vec<Vec<u8>> {
    let mut out: Vec<Vec<u8>> = Vec::new();
    for (prefix, max, bad) in [("#b", '1', '2'), ("#o", '7', '8'), ("#d", '9', 'a'), ("", '9', 'a'), ("#x", 'f', 'g'), ("#x", 'F', 'G')] {
        for sign in ["", "-"] {
            let body: String = std::iter::repeat(max).take(70).collect();
            out.push(format!("{}{}{}", prefix, sign, body).into_bytes());
            for pos in [0usize, 30, 66, 69] {
                let mut b: Vec<char> = body.chars().collect();
                b[pos] = bad;
                out.push(format!("{}{}{}", prefix, sign, b.into_iter().collect::<String>()).into_bytes());
            }
        }
    }
    let nines: String = std::iter::repeat('9').take(40).collect();
    for tail in [".5.5", "e", "e+", ".5e", ".5e5x", "e5.5", "/2", ".", "..", "e400", ".5e-400", "e-400"] {
        out.push(format!("{}{}", nines, tail).into_bytes());
    }
    out
}

/// Texts nested to exactly 126..=129 levels through every kind of opener and some mixtures (the
/// documented limit is 128): an off-by-one in one of the arms that charge the nesting budget
/// makes one API or one construct accept a level more or less than the others.
pub fn depth_boundary_texts() -> Vec<Vec<u8>> {
    let mut out = Vec::new();
    let kinds: [(&str, &str); 6] = [("(", ")"), ("[", "]"), ("#(", ")"), ("'", ""), ("`", ""), ("(a . ", ")")];
    for d in 126usize..=129 {
        for (o, c) in kinds {
            out.push(format!("{}x{}", o.repeat(d), c.repeat(d)).into_bytes());
        }
        // mixtures: lists outside, one other kind innermost; alternating
        for (o, c) in kinds {
            out.push(format!("{}{}x{}{}", "(".repeat(d - 1), o, c, ")".repeat(d - 1)).into_bytes());
            out.push(format!("{}{}x{}{}", "(".repeat(60), o.repeat(d - 60), c.repeat(d - 60), ")".repeat(60)).into_bytes());
        }
    }
    out
}

/// Every malformed item also on the third line of a multi-line text whose first lines are short
/// (an error located with a column that belongs to another line is then out of bounds).
pub fn malformed_on_later_lines() -> Vec<Vec<u8>> {
    let mut out = Vec::new();
    for m in MALFORMED {
        out.push(format!("(a\n b\n  {})", m).into_bytes());
        out.push(format!("\n\n{}", m).into_bytes());
        out.push(format!("a\n{}\n", m).into_bytes());
    }
    for m in ["#z", ")", "1x"] {
        out.push(format!("(a b\r\n  (c d\r\n  {}))", m).into_bytes());
        out.push(format!("a\r{}\r", m).into_bytes());
    }
    for m in ["1e999", "1e400", "-1e999", "1.5e99999", "#xFFFFFFFFFFFFFFFFFFFFFFFFFFFFFFFFFFFFFFFFFFFFFFFFFFFFFFFFFFFFFFFFFFFFFFFFFFFFFFFFFFFFFFFFFFFFFFFFFFFFFFFFFFFFFFFFFFFFFFFFFFFFFFFFFFFFFFFFFFFFFFFFFFFFFFFFFFFFFFFFFFFFFFFFFFFFFFFFFFFFFFFFFFFFFFFFFFFFFFFFFFFFFFFFFFFFFFFFFFFFFFFFFFFFFFFFFFFFFFFFFFFFFFFFFFFFF"] {
        out.push(format!("(a\n b\n  {})", m).into_bytes());
        out.push(format!("(a\n b\n  {}\n)", m).into_bytes());
    }
    out
}

/// All texts of the corpus regardless of dialect, plus the malformed pool.
/// A backslash followed by every ASCII byte, as an Emacs character (`?\x`), inside an Emacs /
/// R6RS string, and after `#\`: the escape tables have a default arm ("any other character
/// stands for itself") whose boundary at DEL / 0x80 nothing else reaches (mutant: `> 0x7F`
/// turned into `>= 0x7F` in that arm).
pub fn backslash_each_ascii() -> Vec<Vec<u8>> {
    let mut out = Vec::new();
    for b in 0u8..=0x7f {
        out.push(vec![b'?', b'\\', b]);
        out.push(vec![b'(', b'?', b'\\', b, b' ', b'a', b')']);
        out.push(vec![b'"', b'\\', b, b'"']);
        out.push(vec![b'"', b'a', b'\\', b, b'b', b'"']);
        out.push(vec![b'#', b'\\', b]);
        out.push(vec![b'?', b]);
    }
    out
}

pub fn corpus_all(rich: bool) -> Vec<Vec<u8>> {
    let mut v: Vec<Vec<u8>> = corpus_g(rich).into_iter().map(|x| x.0).collect();
    v.extend(depth_boundary_texts());
    v.extend(malformed_on_later_lines());
    for s in MALFORMED {
        v.push(s.as_bytes().to_vec());
    }
    for s in MALFORMED_BYTES {
        v.push(s.to_vec());
    }
    v.extend(long_number_tokens());
    v.extend(backslash_each_ascii());
    v.sort_by(|a, b| (a.len(), a).cmp(&(b.len(), b)));
    v.dedup();
    v
}
