//! Named finite domains (DESIGN.md 3.2): option sets, alphabets, value families.

use crate::rv::RV;
use lexpr::parse::{Brackets, KeywordSyntax, NilSymbol, TSymbol};
use lexpr::print::{BoolSyntax, BytesSyntax, NilSyntax, VectorSyntax};
use lexpr::parse::{CharSyntax, StringSyntax};

pub const KW_OCTO: u8 = 1;
pub const KW_PREFIX: u8 = 2;
pub const KW_POSTFIX: u8 = 4;

/// A parser option set (one of 1536).
#[derive(Clone, Copy, PartialEq, Eq, Hash, Debug)]
pub struct PO {
    pub kw: u8,       // bit set of KW_*
    pub nil: u8,      // 0 Default (symbol), 1 EmptyList, 2 Special
    pub t: u8,        // 0 Default (symbol), 1 True
    pub brackets: u8, // 0 List, 1 Vector
    pub string: u8,   // 0 R6RS, 1 Elisp
    pub chr: u8,      // 0 R6RS, 1 Elisp
    pub racket: bool,
    pub digit: bool,
}

pub const N_PO: u64 = 1536;

impl PO {
    pub fn from_index(mut i: u64) -> PO {
        let kw = (i % 8) as u8;
        i /= 8;
        let nil = (i % 3) as u8;
        i /= 3;
        let t = (i % 2) as u8;
        i /= 2;
        let brackets = (i % 2) as u8;
        i /= 2;
        let string = (i % 2) as u8;
        i /= 2;
        let chr = (i % 2) as u8;
        i /= 2;
        let racket = i % 2 == 1;
        i /= 2;
        let digit = i % 2 == 1;
        PO { kw, nil, t, brackets, string, chr, racket, digit }
    }
    pub fn index(&self) -> u64 {
        let mut i = self.digit as u64;
        i = i * 2 + self.racket as u64;
        i = i * 2 + self.chr as u64;
        i = i * 2 + self.string as u64;
        i = i * 2 + self.brackets as u64;
        i = i * 2 + self.t as u64;
        i = i * 3 + self.nil as u64;
        i = i * 8 + self.kw as u64;
        i
    }
    pub fn new_empty() -> PO {
        PO { kw: 0, nil: 0, t: 0, brackets: 0, string: 0, chr: 0, racket: false, digit: false }
    }
    pub fn default_() -> PO {
        PO { kw: KW_OCTO, ..PO::new_empty() }
    }
    pub fn elisp() -> PO {
        PO { kw: KW_PREFIX, nil: 1, t: 0, brackets: 1, string: 1, chr: 1, racket: false, digit: true }
    }
    pub fn all_on() -> PO {
        PO { kw: 7, nil: 2, t: 1, brackets: 1, string: 1, chr: 1, racket: true, digit: true }
    }
    /// Build the implementation's option value through its public builder API.
    pub fn to_lexpr(&self) -> lexpr::parse::Options {
        let mut o = lexpr::parse::Options::new();
        let mut kws = Vec::new();
        if self.kw & KW_OCTO != 0 {
            kws.push(KeywordSyntax::Octothorpe);
        }
        if self.kw & KW_PREFIX != 0 {
            kws.push(KeywordSyntax::ColonPrefix);
        }
        if self.kw & KW_POSTFIX != 0 {
            kws.push(KeywordSyntax::ColonPostfix);
        }
        o = o.with_keyword_syntaxes(kws);
        o = o.with_nil_symbol(match self.nil {
            0 => NilSymbol::Default,
            1 => NilSymbol::EmptyList,
            _ => NilSymbol::Special,
        });
        o = o.with_t_symbol(if self.t == 0 { TSymbol::Default } else { TSymbol::True });
        o = o.with_brackets(if self.brackets == 0 { Brackets::List } else { Brackets::Vector });
        o = o.with_string_syntax(if self.string == 0 { StringSyntax::R6RS } else { StringSyntax::Elisp });
        o = o.with_char_syntax(if self.chr == 0 { CharSyntax::R6RS } else { CharSyntax::Elisp });
        o = o.with_racket_hash_percent_symbols(self.racket);
        o = o.with_leading_digit_symbols(self.digit);
        o
    }
    /// The same option set built the way a user who only sets what differs from `Options::new()`
    /// would build it: additive keyword calls, no call for options left at their documented
    /// `new()` state (no keywords, nil/t symbols, brackets lists, R6RS strings and chars, no
    /// Racket symbols, no leading-digit symbols).
    pub fn to_lexpr_sparse(&self) -> lexpr::parse::Options {
        let mut o = lexpr::parse::Options::new();
        if self.kw & KW_POSTFIX != 0 {
            o = o.with_keyword_syntax(KeywordSyntax::ColonPostfix);
        }
        if self.kw & KW_OCTO != 0 {
            o = o.with_keyword_syntax(KeywordSyntax::Octothorpe);
        }
        if self.kw & KW_PREFIX != 0 {
            o = o.with_keyword_syntax(KeywordSyntax::ColonPrefix);
        }
        if self.nil != 0 {
            o = o.with_nil_symbol(if self.nil == 1 { NilSymbol::EmptyList } else { NilSymbol::Special });
        }
        if self.t != 0 {
            o = o.with_t_symbol(TSymbol::True);
        }
        if self.brackets != 0 {
            o = o.with_brackets(Brackets::Vector);
        }
        if self.string != 0 {
            o = o.with_string_syntax(StringSyntax::Elisp);
        }
        if self.chr != 0 {
            o = o.with_char_syntax(CharSyntax::Elisp);
        }
        if self.racket {
            o = o.with_racket_hash_percent_symbols(true);
        }
        if self.digit {
            o = o.with_leading_digit_symbols(true);
        }
        o
    }
    /// The same option set reached from the Emacs Lisp preset by overriding every option (in
    /// reverse order of `to_lexpr`): a builder call must replace, not accumulate, state.
    pub fn to_lexpr_from_elisp(&self) -> lexpr::parse::Options {
        let mut o = lexpr::parse::Options::elisp();
        o = o.with_leading_digit_symbols(self.digit);
        o = o.with_racket_hash_percent_symbols(self.racket);
        o = o.with_char_syntax(if self.chr == 0 { CharSyntax::R6RS } else { CharSyntax::Elisp });
        o = o.with_string_syntax(if self.string == 0 { StringSyntax::R6RS } else { StringSyntax::Elisp });
        o = o.with_brackets(if self.brackets == 0 { Brackets::List } else { Brackets::Vector });
        o = o.with_t_symbol(if self.t == 0 { TSymbol::Default } else { TSymbol::True });
        o = o.with_nil_symbol(match self.nil {
            0 => NilSymbol::Default,
            1 => NilSymbol::EmptyList,
            _ => NilSymbol::Special,
        });
        let mut kws = Vec::new();
        for (f, k) in [(KW_POSTFIX, KeywordSyntax::ColonPostfix), (KW_PREFIX, KeywordSyntax::ColonPrefix), (KW_OCTO, KeywordSyntax::Octothorpe)] {
            if self.kw & f != 0 {
                kws.push(k);
            }
        }
        o.with_keyword_syntaxes(kws)
    }
    pub fn describe(&self) -> String {
        format!(
            "kw={}{}{} nil={} t={} br={} str={} chr={} racket={} digit={}",
            if self.kw & KW_OCTO != 0 { "#:" } else { "" },
            if self.kw & KW_PREFIX != 0 { ",:a" } else { "" },
            if self.kw & KW_POSTFIX != 0 { ",a:" } else { "" },
            ["sym", "emptylist", "special"][self.nil as usize],
            ["sym", "true"][self.t as usize],
            ["list", "vector"][self.brackets as usize],
            ["r6rs", "elisp"][self.string as usize],
            ["r6rs", "elisp"][self.chr as usize],
            self.racket as u8,
            self.digit as u8
        )
    }
    /// The options differing from `self` in exactly one option (the 8 "adjacent" sets, one
    /// per option dimension, cycling the multi-valued ones and flipping each keyword flag).
    pub fn neighbours(&self) -> Vec<(&'static str, PO)> {
        let mut v = Vec::new();
        v.push(("kw-octothorpe", PO { kw: self.kw ^ KW_OCTO, ..*self }));
        v.push(("kw-prefix", PO { kw: self.kw ^ KW_PREFIX, ..*self }));
        v.push(("kw-postfix", PO { kw: self.kw ^ KW_POSTFIX, ..*self }));
        v.push(("nil", PO { nil: (self.nil + 1) % 3, ..*self }));
        v.push(("nil", PO { nil: (self.nil + 2) % 3, ..*self }));
        v.push(("t", PO { t: 1 - self.t, ..*self }));
        v.push(("brackets", PO { brackets: 1 - self.brackets, ..*self }));
        v.push(("string", PO { string: 1 - self.string, ..*self }));
        v.push(("char", PO { chr: 1 - self.chr, ..*self }));
        v.push(("racket", PO { racket: !self.racket, ..*self }));
        v.push(("digit", PO { digit: !self.digit, ..*self }));
        v
    }
}

/// PO15: new(), default(), elisp(), all-on, and the 11 single-option deviations from default().
pub fn po15() -> Vec<PO> {
    let d = PO::default_();
    let mut v = vec![PO::new_empty(), d, PO::elisp(), PO::all_on()];
    for (_, n) in d.neighbours() {
        if !v.contains(&n) {
            v.push(n);
        }
    }
    v
}

/// A printer option set (one of 576).
#[derive(Clone, Copy, PartialEq, Eq, Hash, Debug)]
pub struct PR {
    pub kw: u8,     // 0 Octothorpe, 1 ColonPrefix, 2 ColonPostfix
    pub nil: u8,    // 0 Symbol, 1 Token, 2 EmptyList, 3 False
    pub bool_: u8,  // 0 Token, 1 Symbol
    pub vector: u8, // 0 Octothorpe, 1 Brackets
    pub bytes: u8,  // 0 R6RS, 1 R7RS, 2 Elisp
    pub string: u8, // 0 R6RS, 1 Elisp
    pub chr: u8,    // 0 R6RS, 1 Elisp
}

pub const N_PR: u64 = 576;

impl PR {
    pub fn from_index(mut i: u64) -> PR {
        let kw = (i % 3) as u8;
        i /= 3;
        let nil = (i % 4) as u8;
        i /= 4;
        let bool_ = (i % 2) as u8;
        i /= 2;
        let vector = (i % 2) as u8;
        i /= 2;
        let bytes = (i % 3) as u8;
        i /= 3;
        let string = (i % 2) as u8;
        i /= 2;
        let chr = (i % 2) as u8;
        PR { kw, nil, bool_, vector, bytes, string, chr }
    }
    pub fn index(&self) -> u64 {
        let mut i = self.chr as u64;
        i = i * 2 + self.string as u64;
        i = i * 3 + self.bytes as u64;
        i = i * 2 + self.vector as u64;
        i = i * 2 + self.bool_ as u64;
        i = i * 4 + self.nil as u64;
        i = i * 3 + self.kw as u64;
        i
    }
    pub fn default_() -> PR {
        PR { kw: 0, nil: 1, bool_: 0, vector: 0, bytes: 1, string: 0, chr: 0 }
    }
    pub fn elisp() -> PR {
        PR { kw: 1, nil: 0, bool_: 1, vector: 1, bytes: 2, string: 1, chr: 1 }
    }
    pub fn to_lexpr(&self) -> lexpr::print::Options {
        lexpr::print::Options::default()
            .with_keyword_syntax(match self.kw {
                0 => KeywordSyntax::Octothorpe,
                1 => KeywordSyntax::ColonPrefix,
                _ => KeywordSyntax::ColonPostfix,
            })
            .with_nil_syntax(match self.nil {
                0 => NilSyntax::Symbol,
                1 => NilSyntax::Token,
                2 => NilSyntax::EmptyList,
                _ => NilSyntax::False,
            })
            .with_bool_syntax(if self.bool_ == 0 { BoolSyntax::Token } else { BoolSyntax::Symbol })
            .with_vector_syntax(if self.vector == 0 { VectorSyntax::Octothorpe } else { VectorSyntax::Brackets })
            .with_bytes_syntax(match self.bytes {
                0 => BytesSyntax::R6RS,
                1 => BytesSyntax::R7RS,
                _ => BytesSyntax::Elisp,
            })
            .with_string_syntax(if self.string == 0 { StringSyntax::R6RS } else { StringSyntax::Elisp })
            .with_char_syntax(if self.chr == 0 { CharSyntax::R6RS } else { CharSyntax::Elisp })
    }
    pub fn describe(&self) -> String {
        format!(
            "kw={} nil={} bool={} vec={} bytes={} str={} chr={}",
            ["#:a", ":a", "a:"][self.kw as usize],
            ["sym", "token", "emptylist", "false"][self.nil as usize],
            ["token", "sym"][self.bool_ as usize],
            ["#(", "["][self.vector as usize],
            ["r6rs", "r7rs", "elisp"][self.bytes as usize],
            ["r6rs", "elisp"][self.string as usize],
            ["r6rs", "elisp"][self.chr as usize]
        )
    }
    pub fn kw_flag(&self) -> u8 {
        [KW_OCTO, KW_PREFIX, KW_POSTFIX][self.kw as usize]
    }
}

/// COMPAT(p, r), Appendix B: the parser recognises what the printer emits.
pub fn compat(p: &PR, r: &PO) -> bool {
    (r.kw & p.kw_flag()) != 0
        && (p.vector == 0 || r.brackets == 1)
        && p.string == r.string
        && p.chr == r.chr
        && (p.bytes != 2 || r.string == 1)
}

/// The printer that corresponds most closely to a parser option set (used by C13): one per
/// enabled keyword spelling; brackets for vectors iff brackets mean vectors.
pub fn corresponding_printers(r: &PO) -> Vec<PR> {
    let mut v = Vec::new();
    for kw in 0..3u8 {
        if r.kw & [KW_OCTO, KW_PREFIX, KW_POSTFIX][kw as usize] == 0 {
            continue;
        }
        for nil in 0..4u8 {
            for bool_ in 0..2u8 {
                let bytes_opts: &[u8] = if r.string == 1 { &[1, 2] } else { &[1] };
                for &bytes in bytes_opts {
                    v.push(PR { kw, nil, bool_, vector: r.brackets, bytes, string: r.string, chr: r.chr });
                }
            }
        }
    }
    if v.is_empty() {
        // no keyword spelling enabled: keywords cannot be produced by this parser at all, any
        // keyword spelling will do for the other kinds
        for nil in 0..4u8 {
            for bool_ in 0..2u8 {
                v.push(PR { kw: 0, nil, bool_, vector: r.brackets, bytes: 1, string: r.string, chr: r.chr });
            }
        }
    }
    v
}

// ------------------------------------------------------------------------------------------
// Alphabets

/// Sigma: the token alphabet (DESIGN 3.2). Each symbol is one byte except none; the two bytes of
/// 'λ' are separate symbols so that valid, truncated and reversed UTF-8 all occur.
pub const SIGMA: &[&[u8]] = &[
    b"(", b")", b" ", b"a", b"1", b".", b"\"", b"#", b"'", b"-", b"+", b";", b"\n", b"[", b"]", b"\\", b":", b"e",
    b"0", b"t", b"n", b"x", b"f", b"9", b"u", b"8", b"`", b",", b"@", b"?", b"|", b"%", b"/", b"=", b"!", b"\x0c",
    b"\xce", b"\xbb", b"i", b"l",
];

/// A reduced alphabet for the deepest sweeps.
pub const SIGMA24: &[&[u8]] = &[
    b"(", b")", b" ", b"a", b"1", b".", b"\"", b"#", b"'", b"-", b";", b"\n", b"[", b"]", b"\\", b":", b"e", b"t",
    b"x", b"?", b"|", b"\xce", b"\xbb", b",",
];

pub fn bytes_upto3(rank: u64, out: &mut Vec<u8>) {
    // rank 0: empty; 1..=256: length 1; ... (shorter first)
    out.clear();
    if rank == 0 {
        return;
    }
    let mut r = rank - 1;
    if r < 256 {
        out.push(r as u8);
        return;
    }
    r -= 256;
    if r < 65536 {
        out.push((r >> 8) as u8);
        out.push(r as u8);
        return;
    }
    r -= 65536;
    out.push((r >> 16) as u8);
    out.push((r >> 8) as u8);
    out.push(r as u8);
}
pub const N_B3: u64 = 1 + 256 + 65536 + 16777216;

// ------------------------------------------------------------------------------------------
// Numbers

/// N64: integer boundary lattice within [-2^63, 2^64-1].
pub fn n64() -> Vec<i128> {
    let mut v: Vec<i128> = vec![0, 1, -1, 2, -2, 7, -7, 9, 10, 11, 99, 100, 101, 255, 256];
    for k in 1..=64u32 {
        let p = 1i128 << k;
        for d in [-1i128, 0, 1] {
            v.push(p + d);
            v.push(-(p + d));
        }
    }
    let mut p10 = 1i128;
    for _ in 0..=19 {
        p10 *= 10;
        for d in [-1i128, 0, 1] {
            v.push(p10 + d);
            v.push(-(p10 + d));
        }
    }
    for x in [i64::MAX as i128, i64::MIN as i128, u64::MAX as i128, u32::MAX as i128, i32::MIN as i128] {
        for d in -2..=2i128 {
            v.push(x + d);
        }
    }
    for x in [1234567i128, 123456789012345678, 9007199254740993, 18446744073709551609] {
        v.push(x);
        v.push(-x);
    }
    // integers that need rounding on the way to a double: around the midpoints between
    // neighbouring doubles (ties and their +-1 neighbours; even and odd mantissas), 2^53 .. 2^64
    for k in 53..=63u32 {
        let base = 1i128 << k;
        let ulp = 1i128 << (k - 52);
        for m in [0i128, 1, 2, 3, (1 << 20) + 1] {
            let mid = base + m * ulp + ulp / 2;
            for d in [-1i128, 0, 1] {
                v.push(mid + d);
                v.push(-(mid + d));
            }
        }
    }
    v.retain(|&x| x >= -(1i128 << 63) && x <= (1i128 << 64) - 1);
    v.sort();
    v.dedup();
    v
}

/// F64 lattice: finite doubles at decimal and binary boundaries. `mant_max` = 999 (quick) or
/// 99_999 (thorough).
pub fn f64_lattice(mant_max: u32, exp_step: usize) -> Vec<f64> {
    let mut v: Vec<f64> = Vec::new();
    for e in (-330i32..=310).step_by(exp_step) {
        for d in 1..=mant_max {
            // d * 10^e via std's correctly rounded parser (trusted base)
            let s = format!("{}e{}", d, e);
            let x: f64 = s.parse().unwrap();
            if x.is_finite() {
                v.push(x);
                v.push(-x);
            }
        }
    }
    specials_f64(&mut v);
    v
}

pub fn specials_f64(v: &mut Vec<f64>) {
    for k in -1074i32..=1023 {
        let p = 2f64.powi(k);
        if p > 0.0 && p.is_finite() {
            v.push(p);
            v.push(-p);
            let up = f64::from_bits(p.to_bits() + 1);
            let dn = f64::from_bits(p.to_bits() - 1);
            v.push(up);
            if dn > 0.0 {
                v.push(dn);
            }
        }
    }
    for x in [
        0.0,
        -0.0,
        f64::MIN_POSITIVE,
        f64::MAX,
        f64::MIN,
        f64::EPSILON,
        5e-324,
        1e21,
        1e-7,
        1e22,
        1e23,
        1.5,
        -2.5,
        0.1,
        0.3,
        1.0 / 3.0,
        123456789012345680.0,
        9007199254740993.0,
        1.7976931348623157e308,
        2.2250738585072014e-308,
        2.225073858507201e-308,
        4.9e-324,
        1e15,
        1e16,
        1e17,
        123456.789e3,
        std::f64::consts::PI,
        std::f64::consts::E,
    ] {
        v.push(x);
        v.push(-x);
    }
}

// ------------------------------------------------------------------------------------------
// Strings, names

/// The 23-character trouble alphabet of STR.
pub const STR_ALPHA: &[char] = &[
    '"', '\\', 'a', ' ', '\n', '\t', '\r', '\x07', '\x08', '\0', '\x1f', '\x7f', '\u{80}', 'é', 'λ', '€', '😀', ';',
    '|', '#', 'x', '4', '1',
];

pub fn str_domain(maxlen: u32) -> Vec<String> {
    let a = STR_ALPHA.len() as u64;
    let n = crate::par::count_upto(a, maxlen);
    let mut v = Vec::with_capacity(n as usize);
    for mut rank in 0..n {
        let mut len = 0u32;
        let mut p = 1u64;
        while rank >= p {
            rank -= p;
            p *= a;
            len += 1;
        }
        let mut idx = vec![0usize; len as usize];
        for i in (0..len as usize).rev() {
            idx[i] = (rank % a) as usize;
            rank /= a;
        }
        v.push(idx.iter().map(|&i| STR_ALPHA[i]).collect());
    }
    v
}

pub const NAME_INITIALS: &[&str] =
    &["a", "z", "A", "!", "$", "%", "&", "*", "/", ":", "<", "=", ">", "?", "@", "^", "_", "~", "λ", "n", "t",
      // alphabetic initials at the UTF-8 length / lead-byte boundaries: U+00AA (C2), U+07FA (DF), U+0800 (E0), U+D7FB (ED),
      // U+FFDC (EF), U+10000 (F0 90), U+30000 (F0 B0)
      "\u{aa}", "\u{7fa}", "\u{800}", "\u{d7fb}", "\u{ffdc}", "\u{10000}", "\u{30000}"];
pub const NAME_SUBSEQ_EXTRA: &[&str] = &["0", "9", "+", "-", ".", "i", "l"];
pub const NAME_PECULIAR: &[&str] =
    &["+λ", "-λ", "+\u{7fa}", "-\u{800}x", "+λ-1", "+", "-", "...", "+a", "-a", "+.a", "-.a", "+..", "-..", ".a", "..", "->", "+-", "-+", "--", ".+", "+@", "nil", "t", "nil:", ":nil", "nilx", "tt", "λ-1", "a.b", "a:b"];

/// All candidate names: identifiers of length <= maxlen over the name alphabet, plus peculiar ones.
/// Filtering by "plain in dialect" is done by `model::reader::plain_name`.
pub fn name_candidates(maxlen: usize) -> Vec<String> {
    let mut v: Vec<String> = Vec::new();
    let mut subs: Vec<&str> = NAME_INITIALS.to_vec();
    subs.extend_from_slice(NAME_SUBSEQ_EXTRA);
    let mut cur: Vec<String> = NAME_INITIALS.iter().map(|s| s.to_string()).collect();
    v.extend(cur.iter().cloned());
    for _ in 1..maxlen {
        let mut next = Vec::new();
        for c in &cur {
            for s in &subs {
                next.push(format!("{}{}", c, s));
            }
        }
        v.extend(next.iter().cloned());
        cur = next;
    }
    v.extend(NAME_PECULIAR.iter().map(|s| s.to_string()));
    v.sort_by(|a, b| (a.len(), a.as_str()).cmp(&(b.len(), b.as_str())));
    v.dedup();
    v
}

// ------------------------------------------------------------------------------------------
// Values

/// ACTX: context atoms chosen so that the first and last printed byte cover every byte class.
pub fn actx() -> Vec<RV> {
    let mut v = vec![
        RV::Nil,
        RV::Null,
        RV::Bool(true),
        RV::Bool(false),
        RV::Int(0),
        RV::Int(-7),
        RV::Int(u64::MAX as i128),
        RV::Int(i64::MIN as i128),
        RV::Float(1.5),
        RV::Float(-0.0),
        RV::Float(1e21),
        RV::Float(1e-7),
        RV::Float(-2.5e-10),
        RV::Float(100.0),
    ];
    // one representative per scanner path of the symbol lexer: plain, sign alone, sign + letter,
    // sign + dot (peculiar), sign + non-ASCII, dot-initial, non-ASCII-initial
    for s in ["a", "+", "-", "...", "a.b", "λ-1", "x1", "<=?", "e5", "->", "f", "nil", "t", "+.a", "-..", "-λ", "+λ", "+a", ".a", "..", "λ"] {
        v.push(RV::sym(s));
    }
    for s in ["a", "k-w", "λ", "x1", "+", "e", "-.λ"] {
        v.push(RV::kw(s));
    }
    for c in ['x', '(', ')', ' ', '"', '#', ';', '\\', '\x7f', 'λ', '\u{10FFFF}', '\n', '\0', '[', ']', '.', '?', 'a', '1', '|', '\'', ','] {
        v.push(RV::Char(c));
    }
    for s in ["", "a", "a b", "\"", "\\", "λ€😀", "\n\t\r\x07\x08\0\x1f\x7f", "(;|#", "\u{80}é"] {
        v.push(RV::str(s));
    }
    v.push(RV::Bytes(vec![]));
    v.push(RV::Bytes(vec![97]));
    v.push(RV::Bytes(vec![0, 127, 128, 255]));
    v
}

/// An atom in every syntactic position: alone in a list, list head, list tail element (directly
/// before the closer), dotted tail, vector element. The list parsers scan some tokens themselves
/// (a leading dot may be the pair separator), so a token can be read differently by position.
pub fn in_positions(a: &RV) -> Vec<RV> {
    let x = RV::sym("x");
    vec![
        RV::list(vec![a.clone()]),
        RV::list(vec![a.clone(), x.clone()]),
        RV::list(vec![x.clone(), a.clone()]),
        RV::append(vec![x.clone()], a.clone()),
        RV::Vector(vec![a.clone()]),
        RV::Vector(vec![x.clone(), a.clone()]),
        RV::list(vec![RV::list(vec![a.clone()]), a.clone()]),
    ]
}

/// A12: 12-atom subset; A5: 5-atom subset.
pub fn a12() -> Vec<RV> {
    vec![
        RV::sym("a"),
        RV::sym("+"),
        RV::sym("..."),
        RV::sym("+.a"),
        RV::sym("-λ"),
        RV::Int(-7),
        RV::Float(1.5),
        RV::Float(1e21),
        RV::kw("k"),
        RV::Char('('),
        RV::str("a\"\\\n"),
        RV::Bytes(vec![0, 255]),
        RV::Null,
        RV::Bool(false),
    ]
}
pub fn a5() -> Vec<RV> {
    vec![RV::sym("a"), RV::sym("-"), RV::Int(1), RV::Char(')'), RV::Null]
}

/// SH(k): every tree shape with k leaves built from {proper list, dotted list, vector},
/// as functions from leaves to a value. Returned as closures over leaf vectors.
#[derive(Clone, Debug)]
pub enum Shape {
    Leaf,
    List(Vec<Shape>),
    Dotted(Vec<Shape>, Box<Shape>),
    Vector(Vec<Shape>),
}

impl Shape {
    pub fn leaves(&self) -> usize {
        match self {
            Shape::Leaf => 1,
            Shape::List(xs) | Shape::Vector(xs) => xs.iter().map(|x| x.leaves()).sum(),
            Shape::Dotted(xs, t) => xs.iter().map(|x| x.leaves()).sum::<usize>() + t.leaves(),
        }
    }
    pub fn depth(&self) -> usize {
        match self {
            Shape::Leaf => 0,
            Shape::List(xs) | Shape::Vector(xs) => 1 + xs.iter().map(|x| x.depth()).max().unwrap_or(0),
            Shape::Dotted(xs, t) => 1 + xs.iter().map(|x| x.depth()).max().unwrap_or(0).max(t.depth()),
        }
    }
    pub fn build(&self, leaves: &mut dyn Iterator<Item = RV>) -> RV {
        match self {
            Shape::Leaf => leaves.next().unwrap(),
            Shape::List(xs) => {
                let v: Vec<RV> = xs.iter().map(|x| x.build(leaves)).collect();
                RV::list(v)
            }
            Shape::Vector(xs) => RV::Vector(xs.iter().map(|x| x.build(leaves)).collect()),
            Shape::Dotted(xs, t) => {
                let v: Vec<RV> = xs.iter().map(|x| x.build(leaves)).collect();
                let t = t.build(leaves);
                RV::append(v, t)
            }
        }
    }
}

/// All shapes with exactly k leaves and depth <= maxdepth, containers non-empty.
pub fn shapes(k: usize, maxdepth: usize) -> Vec<Shape> {
    fn seqs(k: usize, maxdepth: usize) -> Vec<Vec<Shape>> {
        // all ways to split k leaves into a non-empty sequence of sub-shapes (depth <= maxdepth)
        if k == 0 {
            return vec![vec![]];
        }
        let mut out = Vec::new();
        for first in 1..=k {
            for s in shapes_inner(first, maxdepth) {
                for rest in seqs(k - first, maxdepth) {
                    let mut v = vec![s.clone()];
                    v.extend(rest);
                    out.push(v);
                }
            }
        }
        out
    }
    fn shapes_inner(k: usize, maxdepth: usize) -> Vec<Shape> {
        let mut out = Vec::new();
        if k == 1 {
            out.push(Shape::Leaf);
        }
        if maxdepth == 0 {
            return out;
        }
        for s in seqs(k, maxdepth - 1) {
            if s.is_empty() {
                continue;
            }
            out.push(Shape::List(s.clone()));
            out.push(Shape::Vector(s.clone()));
            if s.len() >= 2 {
                let mut xs = s.clone();
                let t = xs.pop().unwrap();
                out.push(Shape::Dotted(xs, Box::new(t)));
            }
        }
        out
    }
    shapes_inner(k, maxdepth).into_iter().filter(|s| !matches!(s, Shape::Leaf)).collect()
}

/// TRIV: trivia strings (DESIGN 3.2).
pub fn triv() -> Vec<Vec<u8>> {
    let units: [&[u8]; 6] = [b" ", b"\t", b"\r", b"\n", b"\x0c", b";c\n"];
    let mut v: Vec<Vec<u8>> = vec![vec![]];
    for a in units {
        v.push(a.to_vec());
    }
    for a in units {
        for b in units {
            let mut s = a.to_vec();
            s.extend_from_slice(b);
            v.push(s);
        }
    }
    v.push(b";\xce\xbb\n".to_vec());
    v.push(b";(\")#|\\;\rx\n".to_vec());
    v
}

/// Lists headed by the symbols that the reader produces for quote shorthands, with arguments
/// whose printed form would collide with a shorthand (`@a` after `unquote`), in every arity and
/// frame: a printer that writes shorthands, or special-cases these heads, must still round-trip
/// (seeds C01-g3, C13-g3).
pub fn quotation_forms() -> Vec<RV> {
    let heads = ["quote", "quasiquote", "unquote", "unquote-splicing", "function"];
    let args = vec![RV::sym("a"), RV::sym("@a"), RV::sym("@"), RV::sym("@@"), RV::kw("@k"), RV::str("@s"), RV::Int(1), RV::Null, RV::list(vec![RV::sym("@a"), RV::sym("b")]), RV::Vector(vec![RV::sym("@a")]), RV::list(vec![RV::sym("unquote"), RV::sym("@a")]), RV::list(vec![RV::sym("quote"), RV::sym("a")])];
    let mut v = Vec::new();
    for h in heads {
        let hs = RV::sym(h);
        v.push(RV::list(vec![hs.clone()]));
        for a in &args {
            let form = RV::list(vec![hs.clone(), a.clone()]);
            v.push(form.clone());
            v.push(RV::cons(hs.clone(), a.clone()));
            v.push(RV::list(vec![hs.clone(), a.clone(), a.clone()]));
            v.push(RV::append(vec![hs.clone(), a.clone()], RV::sym("t")));
            v.push(RV::list(vec![RV::sym("x"), form.clone(), RV::sym("y")]));
            v.push(RV::cons(RV::sym("x"), form.clone()));
            v.push(RV::Vector(vec![form.clone(), hs.clone()]));
            v.push(RV::list(vec![hs.clone(), form.clone()]));
            v.push(RV::list(vec![RV::kw(h), a.clone()]));
            v.push(RV::list(vec![RV::str(h), a.clone()]));
        }
    }
    v
}
