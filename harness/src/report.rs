//! Evidence, violations, known findings, replay files.
//!
//! Every check builds a `Report` out of `Sub` (sub-check) results. Worker threads fill
//! `Acc` accumulators; `Sub::absorb` merges them deterministically (sorted by rank).

use regex::Regex;
use serde_json::{json, Value as J};
use std::collections::{BTreeMap, HashMap, HashSet};
use std::hash::{Hash, Hasher};
use std::sync::OnceLock;
use std::time::Instant;

#[derive(Clone, Copy, PartialEq, Eq, Debug)]
pub enum Tier {
    Quick,
    Thorough,
}

impl Tier {
    pub fn name(self) -> &'static str {
        match self {
            Tier::Quick => "quick",
            Tier::Thorough => "thorough",
        }
    }
    pub fn thorough(self) -> bool {
        self == Tier::Thorough
    }
}

pub struct Ctx {
    pub prop: String,
    pub tier: Tier,
    pub seed: u64,
    pub verif_dir: String,
    pub repo: String,
    pub hooks: bool,
    /// path of the binary built against lexpr without fast-float-parsing (if any)
    pub nofast_bin: Option<String>,
    /// restrict to sub-checks whose name contains this (debugging aid; evidence says so)
    pub only: Option<String>,
    pub threads: usize,
}

impl Ctx {
    pub fn want(&self, sub: &str) -> bool {
        match &self.only {
            None => true,
            Some(s) => s.split(',').any(|p| sub.contains(p)),
        }
    }
}

#[derive(Clone, Debug)]
pub struct Viol {
    pub sub: String,
    pub kind: String,
    pub class: String,
    pub rank: u64,
    pub witness: String,
    pub detail: String,
    pub case: J,
}

#[derive(Clone, Debug)]
pub struct KnownEntry {
    pub property: String,
    pub status: String,
    pub subcheck: Regex,
    pub kind: Regex,
    pub witness: Regex,
    pub what: String,
    pub idx: usize,
}

static KNOWN: OnceLock<Vec<KnownEntry>> = OnceLock::new();

pub fn load_known(verif_dir: &str, prop: &str) {
    let path = format!("{}/known_findings.json", verif_dir);
    let mut out = Vec::new();
    if let Ok(text) = std::fs::read_to_string(&path) {
        let j: J = serde_json::from_str(&text).unwrap_or_else(|e| {
            eprintln!("MACHINERY: cannot parse {}: {}", path, e);
            std::process::exit(2)
        });
        if let Some(arr) = j.get("findings").and_then(|a| a.as_array()) {
            for (idx, e) in arr.iter().enumerate() {
                let g = |k: &str| e.get(k).and_then(|v| v.as_str()).unwrap_or("").to_string();
                if g("property") != prop || g("status") != "known" {
                    continue; // "fixed" entries suppress nothing
                }
                let rx = |k: &str| {
                    let s = g(k);
                    let s = if s.is_empty() { ".*".to_string() } else { s };
                    Regex::new(&s).unwrap_or_else(|er| {
                        eprintln!("MACHINERY: bad regex in known_findings.json entry {}: {}", idx, er);
                        std::process::exit(2)
                    })
                };
                out.push(KnownEntry {
                    property: g("property"),
                    status: g("status"),
                    subcheck: rx("subcheck"),
                    kind: rx("kind"),
                    witness: rx("witness"),
                    what: g("what"),
                    idx,
                });
            }
        }
    }
    let _ = KNOWN.set(out);
}

fn known() -> &'static [KnownEntry] {
    KNOWN.get().map(|v| v.as_slice()).unwrap_or(&[])
}

const PER_CLASS_KEEP: usize = 4;
const OUTCOME_CAP: usize = 1 << 20;

/// Per-thread accumulator.
pub struct Acc {
    pub evals: u64,
    pub nontrivial: u64,
    pub outcomes: HashSet<u64>,
    pub samples: Vec<(u64, String)>,
    pub viols: Vec<Viol>,
    pub class_counts: HashMap<String, u64>,
    pub known_hits: BTreeMap<usize, (u64, String)>,
    pub counters: BTreeMap<&'static str, u64>,
    pub sample_stride: u64,
    pub states: u64,
    pub transitions: u64,
}

impl Default for Acc {
    fn default() -> Self {
        Acc::new()
    }
}

impl Acc {
    pub fn new() -> Acc {
        Acc {
            evals: 0,
            nontrivial: 0,
            outcomes: HashSet::new(),
            samples: Vec::new(),
            viols: Vec::new(),
            class_counts: HashMap::new(),
            known_hits: BTreeMap::new(),
            counters: BTreeMap::new(),
            sample_stride: 0,
            states: 0,
            transitions: 0,
        }
    }
    #[inline]
    pub fn outcome<T: Hash>(&mut self, t: &T) {
        if self.outcomes.len() < OUTCOME_CAP {
            let mut h = std::collections::hash_map::DefaultHasher::new();
            t.hash(&mut h);
            self.outcomes.insert(h.finish());
        }
    }
    #[inline]
    pub fn count(&mut self, k: &'static str) {
        *self.counters.entry(k).or_insert(0) += 1;
    }
    #[inline]
    pub fn count_n(&mut self, k: &'static str, n: u64) {
        *self.counters.entry(k).or_insert(0) += n;
    }
    /// Keep a sample of the explored cases: the first few and an evenly spaced few.
    #[inline]
    pub fn sample(&mut self, rank: u64, f: impl FnOnce() -> String) {
        if rank < 3 || (self.sample_stride > 0 && rank % self.sample_stride == self.sample_stride / 2) {
            if self.samples.len() < 64 {
                self.samples.push((rank, f()));
            }
        }
    }
    /// Record a violation (or a hit on a known finding).
    pub fn violation(
        &mut self,
        sub: &str,
        kind: &str,
        class: &str,
        rank: u64,
        witness: String,
        detail: String,
        case: impl FnOnce() -> J,
    ) {
        for k in known() {
            if k.subcheck.is_match(sub) && k.kind.is_match(kind) && k.witness.is_match(&witness) {
                let e = self.known_hits.entry(k.idx).or_insert((0, witness.clone()));
                e.0 += 1;
                return;
            }
        }
        let key = format!("{}|{}|{}", sub, kind, class);
        let c = self.class_counts.entry(key).or_insert(0);
        *c += 1;
        if (*c as usize) <= PER_CLASS_KEEP {
            self.viols.push(Viol {
                sub: sub.to_string(),
                kind: kind.to_string(),
                class: class.to_string(),
                rank,
                witness,
                detail,
                case: case(),
            });
        }
    }
}

pub struct Sub {
    pub name: String,
    pub rule: String,
    pub bounds: String,
    pub evaluations: u64,
    pub nontrivial: u64,
    pub outcomes: HashSet<u64>,
    pub samples: Vec<(u64, String)>,
    pub exhaustive: bool,
    pub caps: Vec<String>,
    pub counters: BTreeMap<String, u64>,
    pub states: u64,
    pub transitions: u64,
    pub wall_s: f64,
    started: Instant,
}

/// What the watchdog needs to know when a rank does not return.
pub struct StallCtx {
    pub prop: String,
    pub tier: String,
    pub sub: String,
    pub ev_dir: String,
}
pub static STALL_CTX: std::sync::Mutex<Option<StallCtx>> = std::sync::Mutex::new(None);

/// Called by the watchdog of `par_ranks` when one rank has been running for longer than the limit:
/// the code under test did not return. The stuck thread cannot be stopped, so the run ends here.
/// For the properties that state termination (C03: every parse call returns; C12: iteration
/// terminates) this is a violation with a replayable case (sub-check + rank); for every other
/// property the check cannot complete and says so (exit 2), pointing at C03.
pub fn stalled(rank: u64, secs: u64) -> ! {
    let what = format!("did not return within {} s: the code under test does not terminate on this case", secs);
    end_run_at(rank, "no-answer", &what, &["C03", "C12"], "non-termination is a violation of C03 — run ./check C03")
}

/// Called from the SIGABRT handler: the code under test aborted the process while a worker was
/// on `rank` (a panic that cannot unwind — in this code base: std's check of the precondition of
/// an unchecked conversion such as from_utf8_unchecked in a build with debug assertions — or an
/// explicit abort). C03 states that parsing never aborts; C17 that no ill-formed str is ever
/// created, which is what the precondition check reports.
pub fn aborted(rank: Option<u64>) -> ! {
    match rank {
        Some(r) => end_run_at(r, "process-abort", "aborted the process (non-unwinding panic: an unsafe precondition such as from_utf8_unchecked on ill-formed bytes was violated, a memory allocation failed under the address-space limit because something grows without bound, the stack overflowed, or abort() was called)", &["C03", "C17"], "an abort while parsing is a violation of C03 and, for unchecked UTF-8 conversions, of C17 — run ./check C03 / ./check C17"),
        None => {
            eprintln!("MACHINERY: the process aborted outside a worker thread");
            unsafe { _exit(2) }
        }
    }
}

extern "C" {
    fn _exit(code: i32) -> !;
}

fn end_run_at(rank: u64, kind: &str, what_happened: &str, violation_for: &[&str], pointer: &str) -> ! {
    // (never blocks: a poisoned or held lock must not keep the process alive)
    let g = STALL_CTX.try_lock();
    let (prop, tier, sub, ev_dir) = match g.as_ref().ok().and_then(|g| g.as_ref()) {
        Some(c) => (c.prop.clone(), c.tier.clone(), c.sub.clone(), c.ev_dir.clone()),
        None => ("?".into(), "quick".into(), "?".into(), ".".into()),
    };
    let secs = 0u64;
    let _ = secs;
    let what = format!("rank {} of sub-check '{}' {}", rank, sub, what_happened);
    if violation_for.contains(&prop.as_str()) {
        let rp_dir = format!("{}/replays/{}", ev_dir, prop);
        let _ = std::fs::create_dir_all(&rp_dir);
        let path = format!("{}/stall.json", rp_dir);
        let body = json!({
            "property": prop, "sub": sub, "kind": kind, "class": format!("{}:{}", kind, sub),
            "witness": format!("sub-check={} rank={}", sub, rank), "detail": what,
            "case": {"stalled_sub": sub, "stalled_rank": rank, "tier": tier},
            "replay_cmd": format!("./check --replay {}", path),
        });
        let _ = std::fs::write(&path, serde_json::to_string_pretty(&body).unwrap());
        let ev = json!({
            "property_id": prop, "tier": tier, "seed": 0, "level": "exploration",
            "coverage": {"evaluations": rank.max(2), "distinct_nontrivial": rank.max(2), "rule": format!("[{}] interrupted: {}", sub, what),
                "samples": [{"sub": sub, "case": format!("rank {}", rank)}], "exhaustive": false,
                "explanation": "the exploration was cut short by the watchdog because one case did not return; nothing after it was explored"},
            "assumptions": ["a single bounded case returns within the watchdog limit and does not abort the process"],
            "wall_s": 0.0, "violations": 1,
            "violation_classes": [{"sub": sub, "kind": kind, "class": format!("{}:{}", kind, sub), "witness": format!("rank {}", rank), "detail": what, "occurrences_in_class": 1, "replay": path}],
            "known_findings_hit": [],
        });
        let _ = std::fs::create_dir_all(&ev_dir);
        let _ = std::fs::write(format!("{}/{}.json", ev_dir, prop), serde_json::to_string_pretty(&ev).unwrap());
        eprintln!("  violation class [{} / {} / {}:{}] x1: witness rank {} -- {}", sub, kind, kind, sub, rank, what);
        println!("VIOLATION property={} replay={}", prop, path);
        use std::io::Write;
        let _ = std::io::stdout().flush();
        let _ = std::io::stderr().flush();
        unsafe { _exit(1) }
    }
    eprintln!("MACHINERY: {} (property {}; {}; to look at this case: MC_ONLY_RANK={} mc {} --tier {} --only {})", what, prop, pointer, rank, prop, tier, sub);
    unsafe { _exit(2) }
}

impl Sub {
    pub fn new(name: &str, rule: &str, bounds: &str) -> Sub {
        if let Ok(mut g) = STALL_CTX.lock() {
            if let Some(c) = g.as_mut() {
                c.sub = name.to_string();
            }
        }
        Sub {
            name: name.to_string(),
            rule: rule.to_string(),
            bounds: bounds.to_string(),
            evaluations: 0,
            nontrivial: 0,
            outcomes: HashSet::new(),
            samples: Vec::new(),
            exhaustive: true,
            caps: Vec::new(),
            counters: BTreeMap::new(),
            states: 0,
            transitions: 0,
            wall_s: 0.0,
            started: Instant::now(),
        }
    }
    pub fn cap(&mut self, what: String) {
        self.exhaustive = false;
        self.caps.push(what);
    }
}

pub struct Report {
    pub prop: String,
    pub level: String,
    pub tier: Tier,
    pub seed: u64,
    pub subs: Vec<Sub>,
    pub viols: Vec<Viol>,
    pub class_counts: BTreeMap<String, u64>,
    pub known_hits: BTreeMap<usize, (u64, String)>,
    pub assumptions: Vec<String>,
    pub notes: Vec<String>,
    pub started: Instant,
    pub only: Option<String>,
}

impl Report {
    pub fn new(ctx: &Ctx, level: &str) -> Report {
        if let Ok(mut g) = STALL_CTX.lock() {
            let ev_dir = std::env::var("VERIF_EVIDENCE_DIR").unwrap_or_else(|_| format!("{}/evidence", ctx.verif_dir));
            *g = Some(StallCtx { prop: ctx.prop.clone(), tier: ctx.tier.name().to_string(), sub: String::new(), ev_dir });
        }
        Report {
            prop: ctx.prop.clone(),
            level: level.to_string(),
            tier: ctx.tier,
            seed: ctx.seed,
            subs: Vec::new(),
            viols: Vec::new(),
            class_counts: BTreeMap::new(),
            known_hits: BTreeMap::new(),
            assumptions: Vec::new(),
            notes: Vec::new(),
            started: Instant::now(),
            only: ctx.only.clone(),
        }
    }

    pub fn assume(&mut self, s: &str) {
        self.assumptions.push(s.to_string());
    }
    pub fn note(&mut self, s: String) {
        self.notes.push(s);
    }

    /// Merge worker accumulators into a sub-check and register it.
    pub fn absorb(&mut self, mut sub: Sub, accs: Vec<Acc>) {
        for a in accs {
            sub.evaluations += a.evals;
            sub.nontrivial += a.nontrivial;
            sub.states += a.states;
            sub.transitions += a.transitions;
            for o in a.outcomes {
                if sub.outcomes.len() < OUTCOME_CAP {
                    sub.outcomes.insert(o);
                }
            }
            sub.samples.extend(a.samples);
            for (k, v) in a.counters {
                *sub.counters.entry(k.to_string()).or_insert(0) += v;
            }
            for (k, v) in a.class_counts {
                *self.class_counts.entry(k).or_insert(0) += v;
            }
            for (k, (n, w)) in a.known_hits {
                let e = self.known_hits.entry(k).or_insert((0, w.clone()));
                e.0 += n;
                if w < e.1 {
                    e.1 = w;
                }
            }
            self.viols.extend(a.viols);
        }
        sub.samples.sort();
        sub.samples.dedup();
        if sub.samples.len() > 12 {
            // keep first 4 and 8 evenly spaced
            let n = sub.samples.len();
            let mut keep: Vec<(u64, String)> = sub.samples[..4].to_vec();
            for i in 0..8 {
                keep.push(sub.samples[4 + i * (n - 4) / 8].clone());
            }
            keep.dedup();
            sub.samples = keep;
        }
        sub.wall_s = sub.started.elapsed().as_secs_f64();
        eprintln!(
            "  [{}] {}: {} evaluations, {} non-trivial, {} distinct outcomes, {:.1}s{}",
            self.prop,
            sub.name,
            sub.evaluations,
            sub.nontrivial,
            sub.outcomes.len(),
            sub.wall_s,
            if sub.exhaustive { "" } else { " (CAPPED)" }
        );
        self.subs.push(sub);
    }

    /// Merge a report produced by the no-fast-float binary (JSON) into this one.
    pub fn absorb_child_json(&mut self, j: &J) {
        if let Some(subs) = j.get("subs").and_then(|s| s.as_array()) {
            for s in subs {
                let mut sub = Sub::new(
                    s["name"].as_str().unwrap_or("?"),
                    s["rule"].as_str().unwrap_or(""),
                    s["bounds"].as_str().unwrap_or(""),
                );
                sub.evaluations = s["evaluations"].as_u64().unwrap_or(0);
                sub.nontrivial = s["distinct_nontrivial"].as_u64().unwrap_or(0);
                sub.exhaustive = s["exhaustive"].as_bool().unwrap_or(false);
                sub.states = s["states"].as_u64().unwrap_or(0);
                sub.transitions = s["transitions"].as_u64().unwrap_or(0);
                sub.wall_s = s["wall_s"].as_f64().unwrap_or(0.0);
                if let Some(o) = s["outcome_hashes"].as_array() {
                    for h in o {
                        if let Some(h) = h.as_u64() {
                            sub.outcomes.insert(h);
                        }
                    }
                }
                if let Some(c) = s["caps"].as_array() {
                    for x in c {
                        sub.caps.push(x.as_str().unwrap_or("").to_string());
                    }
                }
                if let Some(c) = s["counters"].as_object() {
                    for (k, v) in c {
                        sub.counters.insert(k.clone(), v.as_u64().unwrap_or(0));
                    }
                }
                if let Some(c) = s["samples"].as_array() {
                    for (i, x) in c.iter().enumerate() {
                        sub.samples.push((i as u64, x.as_str().unwrap_or("").to_string()));
                    }
                }
                self.subs.push(sub);
            }
        }
        if let Some(vs) = j.get("viols").and_then(|s| s.as_array()) {
            for v in vs {
                self.viols.push(Viol {
                    sub: v["sub"].as_str().unwrap_or("").to_string(),
                    kind: v["kind"].as_str().unwrap_or("").to_string(),
                    class: v["class"].as_str().unwrap_or("").to_string(),
                    rank: v["rank"].as_u64().unwrap_or(0),
                    witness: v["witness"].as_str().unwrap_or("").to_string(),
                    detail: v["detail"].as_str().unwrap_or("").to_string(),
                    case: v["case"].clone(),
                });
            }
        }
        if let Some(cc) = j.get("class_counts").and_then(|s| s.as_object()) {
            for (k, v) in cc {
                *self.class_counts.entry(k.clone()).or_insert(0) += v.as_u64().unwrap_or(0);
            }
        }
        if let Some(kh) = j.get("known_hits").and_then(|s| s.as_array()) {
            for e in kh {
                let idx = e["idx"].as_u64().unwrap_or(0) as usize;
                let n = e["n"].as_u64().unwrap_or(0);
                let w = e["witness"].as_str().unwrap_or("").to_string();
                let ent = self.known_hits.entry(idx).or_insert((0, w));
                ent.0 += n;
            }
        }
        if let Some(a) = j.get("assumptions").and_then(|s| s.as_array()) {
            for x in a {
                self.assumptions.push(x.as_str().unwrap_or("").to_string());
            }
        }
    }

    /// Raw form for the parent process (nofast child -> parent).
    pub fn to_child_json(&self) -> J {
        json!({
            "subs": self.subs.iter().map(|s| json!({
                "name": s.name, "rule": s.rule, "bounds": s.bounds, "evaluations": s.evaluations,
                "distinct_nontrivial": s.nontrivial, "exhaustive": s.exhaustive, "states": s.states,
                "transitions": s.transitions, "wall_s": s.wall_s,
                "outcome_hashes": s.outcomes.iter().take(100000).collect::<Vec<_>>(),
                "caps": s.caps, "counters": s.counters,
                "samples": s.samples.iter().map(|x| x.1.clone()).collect::<Vec<_>>(),
            })).collect::<Vec<_>>(),
            "viols": self.viols.iter().map(|v| json!({
                "sub": v.sub, "kind": v.kind, "class": v.class, "rank": v.rank,
                "witness": v.witness, "detail": v.detail, "case": v.case,
            })).collect::<Vec<_>>(),
            "class_counts": self.class_counts,
            "known_hits": self.known_hits.iter().map(|(k, (n, w))| json!({"idx": k, "n": n, "witness": w})).collect::<Vec<_>>(),
            "assumptions": self.assumptions,
        })
    }

    /// Write evidence + replay files, print verdict lines, return the exit code.
    pub fn finish(mut self, ctx: &Ctx) -> i32 {
        // scratch runs against mutants redirect their evidence so that /verif/evidence only ever
        // holds results for /repo itself
        let ev_dir = std::env::var("VERIF_EVIDENCE_DIR").unwrap_or_else(|_| format!("{}/evidence", ctx.verif_dir));
        let rp_dir = format!("{}/replays/{}", ev_dir, self.prop);
        let _ = std::fs::create_dir_all(&ev_dir);
        let _ = std::fs::remove_dir_all(&rp_dir);
        // deterministic order
        self.viols.sort_by(|a, b| {
            (a.sub.as_str(), a.kind.as_str(), a.class.as_str(), a.witness.len(), a.rank, a.witness.as_str()).cmp(&(
                b.sub.as_str(),
                b.kind.as_str(),
                b.class.as_str(),
                b.witness.len(),
                b.rank,
                b.witness.as_str(),
            ))
        });
        let mut printed_classes: BTreeMap<String, usize> = BTreeMap::new();
        let mut lines = Vec::new();
        let mut nfile = 0usize;
        let mut viol_json = Vec::new();
        for v in &self.viols {
            let key = format!("{}|{}|{}", v.sub, v.kind, v.class);
            let c = printed_classes.entry(key.clone()).or_insert(0);
            *c += 1;
            let max_files: usize = std::env::var("MC_MAX_REPLAYS").ok().and_then(|s| s.parse().ok()).unwrap_or(60);
            if *c > 2 || nfile >= max_files {
                continue;
            }
            let _ = std::fs::create_dir_all(&rp_dir);
            let path = format!("{}/{}.json", rp_dir, nfile);
            nfile += 1;
            let total = self.class_counts.get(&key).copied().unwrap_or(1);
            let body = json!({
                "property": self.prop, "sub": v.sub, "kind": v.kind, "class": v.class,
                "witness": v.witness, "detail": v.detail, "case": v.case,
                "occurrences_in_class": total,
                "replay_cmd": format!("./check --replay {}", path),
            });
            let _ = std::fs::write(&path, serde_json::to_string_pretty(&body).unwrap());
            if *c == 1 {
                lines.push(format!("VIOLATION property={} replay={}", self.prop, path));
                eprintln!(
                    "  violation class [{} / {} / {}] x{}: witness {} -- {}",
                    v.sub, v.kind, v.class, total, v.witness, v.detail
                );
            }
            viol_json.push(json!({"sub": v.sub, "kind": v.kind, "class": v.class, "witness": v.witness,
                "detail": v.detail, "occurrences_in_class": total, "replay": path}));
        }
        let n_classes = printed_classes.len();
        // known findings
        let mut known_json = Vec::new();
        for k in known() {
            if let Some((n, w)) = self.known_hits.get(&k.idx) {
                println!("KNOWN-FINDING: property={} {} [first witness: {}; {} occurrence(s)]", self.prop, k.what, w, n);
                known_json.push(json!({"entry": k.idx, "what": k.what, "occurrences": n, "first_witness": w}));
            }
        }
        for l in &lines {
            println!("{}", l);
        }

        let evaluations: u64 = self.subs.iter().map(|s| s.evaluations).sum();
        let nontrivial: u64 = self.subs.iter().map(|s| s.nontrivial).sum();
        let states: u64 = self.subs.iter().map(|s| s.states).sum();
        let transitions: u64 = self.subs.iter().map(|s| s.transitions).sum();
        let exhaustive = self.subs.iter().all(|s| s.exhaustive) && self.only.is_none();
        let mut samples: Vec<J> = Vec::new();
        for s in &self.subs {
            for (_, x) in s.samples.iter().take(6) {
                samples.push(json!({"sub": s.name, "case": x}));
            }
        }
        if samples.is_empty() {
            samples.push(json!({"note": "no samples recorded"}));
        }
        let rule = self
            .subs
            .iter()
            .map(|s| format!("[{}] {}", s.name, s.rule))
            .collect::<Vec<_>>()
            .join(" ;; ");
        let subs_json: Vec<J> = self
            .subs
            .iter()
            .map(|s| {
                json!({
                    "name": s.name, "rule": s.rule, "bounds": s.bounds,
                    "evaluations": s.evaluations, "distinct_nontrivial": s.nontrivial,
                    "distinct_outcomes": s.outcomes.len(), "exhaustive": s.exhaustive,
                    "caps": s.caps, "counters": s.counters, "states": s.states,
                    "transitions": s.transitions, "wall_s": (s.wall_s * 100.0).round() / 100.0,
                    "samples": s.samples.iter().map(|x| x.1.clone()).collect::<Vec<_>>(),
                })
            })
            .collect();
        let mut coverage = json!({
            "evaluations": evaluations,
            "distinct_nontrivial": nontrivial,
            "rule": rule,
            "samples": samples,
            "exhaustive": exhaustive,
            "subchecks": subs_json,
            "hooks_enabled": ctx.hooks,
            "repo": ctx.repo,
            "notes": self.notes,
            "explanation": "bounded-exhaustive exploration of the real implementation; every explored case is an execution of the code under test compared with a reference model or a differential oracle",
        });
        if let Some(o) = &self.only {
            coverage["restricted_to_subchecks"] = json!(o);
        }
        if states > 0 || self.level == "model_checking" {
            coverage["states"] = json!(states.max(1));
            coverage["transitions"] = json!(transitions.max(1));
            coverage["traces_validated_against_impl"] = json!(evaluations);
        }
        let ev = json!({
            "property_id": self.prop,
            "tier": self.tier.name(),
            "seed": self.seed,
            "level": self.level,
            "coverage": coverage,
            "assumptions": self.assumptions,
            "wall_s": (self.started.elapsed().as_secs_f64() * 100.0).round() / 100.0,
            "violations": n_classes,
            "violation_classes": viol_json,
            "known_findings_hit": known_json,
        });
        let path = format!("{}/{}.json", ev_dir, self.prop);
        let tmp = format!("{}.tmp", path);
        std::fs::write(&tmp, serde_json::to_string_pretty(&ev).unwrap()).expect("write evidence");
        std::fs::rename(&tmp, &path).expect("rename evidence");
        eprintln!(
            "[{}] {} tier: {} evaluations, {} violation class(es), {} known finding(s) hit, {:.1}s -> {}",
            self.prop,
            self.tier.name(),
            evaluations,
            n_classes,
            self.known_hits.len(),
            self.started.elapsed().as_secs_f64(),
            path
        );
        if n_classes > 0 {
            1
        } else {
            0
        }
    }
}
