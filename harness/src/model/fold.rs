//! fold(p, r, v): the documented dialect folding for printer options p and parser options r
//! (DESIGN Appendix B). Nothing else folds.

use crate::domains::{PO, PR};
use crate::rv::RV;

fn sym_nil(r: &PO) -> RV {
    match r.nil {
        0 => RV::sym("nil"),
        1 => RV::Null,
        _ => RV::Nil,
    }
}
fn sym_t(r: &PO) -> RV {
    if r.t == 0 {
        RV::sym("t")
    } else {
        RV::Bool(true)
    }
}

fn fold_bool(p: &PR, r: &PO, b: bool) -> RV {
    if p.bool_ == 0 {
        RV::Bool(b)
    } else if b {
        sym_t(r)
    } else {
        sym_nil(r)
    }
}

pub fn fold(p: &PR, r: &PO, v: &RV) -> RV {
    match v {
        RV::Nil => match p.nil {
            0 => sym_nil(r),      // printed as the symbol nil
            1 => RV::Nil,         // #nil
            2 => RV::Null,        // ()
            _ => fold_bool(p, r, false), // printed as boolean false
        },
        RV::Bool(b) => fold_bool(p, r, *b),
        RV::Bytes(b) if b.is_empty() && p.bytes == 2 => RV::str(""),
        RV::Cons(a, d) => {
            // iterative along the spine
            let mut cars = vec![fold(p, r, a)];
            let mut cur: &RV = d;
            while let RV::Cons(a2, d2) = cur {
                cars.push(fold(p, r, a2));
                cur = d2;
            }
            let tail = fold(p, r, cur);
            RV::append(cars, tail)
        }
        RV::Vector(xs) => RV::Vector(xs.iter().map(|x| fold(p, r, x)).collect()),
        other => other.clone(),
    }
}

/// Did anything fold?
pub fn folds(p: &PR, r: &PO, v: &RV) -> bool {
    fold(p, r, v) != *v
}
