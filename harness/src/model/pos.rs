//! PosModel: (line, column) <-> byte offset. 1-based lines split at LF, 0-based byte columns.

/// Byte offset of (line, col) in `input`, if it denotes a position inside the input or at its end.
pub fn offset_of(input: &[u8], line: usize, col: usize) -> Option<usize> {
    if line == 0 {
        return None;
    }
    let mut cur_line = 1usize;
    let mut start = 0usize;
    if line > 1 {
        let mut found = false;
        for (i, &b) in input.iter().enumerate() {
            if b == b'\n' {
                cur_line += 1;
                if cur_line == line {
                    start = i + 1;
                    found = true;
                    break;
                }
            }
        }
        if !found {
            return None;
        }
    }
    // length of this line (excluding its LF)
    let len = input[start..].iter().position(|&b| b == b'\n').unwrap_or(input.len() - start);
    // a column equal to len denotes the LF (or the end of input); len+1 is not a byte of this line
    if col <= len {
        Some(start + col)
    } else {
        None
    }
}

pub fn pos_of(input: &[u8], offset: usize) -> (usize, usize) {
    let mut line = 1;
    let mut col = 0;
    for &b in &input[..offset] {
        if b == b'\n' {
            line += 1;
            col = 0;
        } else {
            col += 1;
        }
    }
    (line, col)
}

pub fn line_count(input: &[u8]) -> usize {
    1 + input.iter().filter(|b| **b == b'\n').count()
}

/// Length of 1-based line `line` (without its LF); None if there is no such line.
pub fn line_len(input: &[u8], line: usize) -> Option<usize> {
    input.split(|b| *b == b'\n').nth(line.checked_sub(1)?).map(|l| l.len())
}

/// C19 location clause: 1 <= line <= lines+1 and column <= len(line)+1.
pub fn location_in_bounds(input: &[u8], line: usize, col: usize) -> bool {
    let lines = line_count(input);
    if line < 1 || line > lines + 1 {
        return false;
    }
    let len = line_len(input, line).unwrap_or(0);
    col <= len + 1
}
