//! ListModel: a list is (xs, t); if t is itself a cons chain it merges into xs.

use crate::rv::RV;

/// Normalise (xs, t): xs' = xs ++ elements(t), t' = final non-cons tail.
pub fn normalise(xs: &[RV], t: &RV) -> (Vec<RV>, RV) {
    let mut out: Vec<RV> = xs.to_vec();
    let mut cur = t;
    while let RV::Cons(a, d) = cur {
        out.push((**a).clone());
        cur = d;
    }
    (out, cur.clone())
}

/// Decompose any RV that is a cons chain (or anything else: zero elements and itself as tail).
pub fn decompose(v: &RV) -> (Vec<RV>, RV) {
    normalise(&[], v)
}
