//! Token-level model of printed text: a value is laid out as a token sequence with a trivia
//! string in every gap. Used for trivia-insensitivity (C12) and exact expected spans (C11).

use crate::domains::PR;
use crate::rv::RV;

#[derive(Clone, Debug)]
pub struct Tok {
    pub text: Vec<u8>,
    /// the printer separates this token from the previous one with one space
    pub space_before: bool,
}

/// A sub-datum and the token range [first, last] it covers.
#[derive(Clone, Debug)]
pub struct Node {
    pub first: usize,
    pub last: usize,
    pub value: RV,
    pub kind: NodeKind,
    pub children: Vec<Node>,
}

#[derive(Clone, Copy, Debug, PartialEq)]
pub enum NodeKind {
    Atom,
    /// proper or dotted list: children are the elements, then the dotted tail if any
    List { dotted: bool },
    Vector,
    /// quote shorthand: children = [head symbol (the shorthand token), quoted datum]
    Shorthand,
}

pub struct Layout {
    pub toks: Vec<Tok>,
    pub root: Node,
}

fn atom_text(v: &RV, p: Option<&PR>) -> Option<Vec<u8>> {
    crate::corpus::print_with(v, p)
}

fn shorthand_of(v: &RV) -> Option<(&'static str, &RV)> {
    if let RV::Cons(a, d) = v {
        if let (RV::Sym(s), RV::Cons(x, n)) = (&**a, &**d) {
            if **n == RV::Null {
                let sh = match s.as_str() {
                    "quote" => "'",
                    "quasiquote" => "`",
                    "unquote" => ",",
                    "unquote-splicing" => ",@",
                    _ => return None,
                };
                return Some((sh, x));
            }
        }
    }
    None
}

fn build(v: &RV, p: Option<&PR>, use_shorthand: bool, toks: &mut Vec<Tok>, space: bool) -> Option<Node> {
    let brackets = p.map(|p| p.vector == 1).unwrap_or(false);
    let elisp_bytes = p.map(|p| p.bytes == 2).unwrap_or(false);
    match v {
        RV::Cons(_, _) => {
            if use_shorthand {
                if let Some((sh, x)) = shorthand_of(v) {
                    let first = toks.len();
                    toks.push(Tok { text: sh.as_bytes().to_vec(), space_before: space });
                    let head = Node { first, last: first, value: RV::sym(match sh {
                        "'" => "quote",
                        "`" => "quasiquote",
                        "," => "unquote",
                        _ => "unquote-splicing",
                    }), kind: NodeKind::Atom, children: vec![] };
                    let inner = build(x, p, use_shorthand, toks, false)?;
                    let last = inner.last;
                    return Some(Node { first, last, value: v.clone(), kind: NodeKind::Shorthand, children: vec![head, inner] });
                }
            }
            let first = toks.len();
            toks.push(Tok { text: b"(".to_vec(), space_before: space });
            let mut children = Vec::new();
            let mut cur = v;
            let mut i = 0;
            while let RV::Cons(a, d) = cur {
                children.push(build(a, p, use_shorthand, toks, i > 0)?);
                cur = d;
                i += 1;
            }
            let dotted = *cur != RV::Null;
            if dotted {
                toks.push(Tok { text: b".".to_vec(), space_before: true });
                children.push(build(cur, p, use_shorthand, toks, true)?);
            }
            toks.push(Tok { text: b")".to_vec(), space_before: false });
            Some(Node { first, last: toks.len() - 1, value: v.clone(), kind: NodeKind::List { dotted }, children })
        }
        RV::Vector(xs) => {
            let first = toks.len();
            toks.push(Tok { text: if brackets { b"[".to_vec() } else { b"#(".to_vec() }, space_before: space });
            let mut children = Vec::new();
            for (i, x) in xs.iter().enumerate() {
                children.push(build(x, p, use_shorthand, toks, i > 0)?);
            }
            toks.push(Tok { text: if brackets { b"]".to_vec() } else { b")".to_vec() }, space_before: false });
            Some(Node { first, last: toks.len() - 1, value: v.clone(), kind: NodeKind::Vector, children })
        }
        RV::Bytes(bs) if !elisp_bytes => {
            // "#u8(" is one token; the octets and the closing parenthesis follow
            let first = toks.len();
            let prefix: &[u8] = if p.map(|p| p.bytes == 0).unwrap_or(false) { b"#vu8(" } else { b"#u8(" };
            toks.push(Tok { text: prefix.to_vec(), space_before: space });
            for (i, b) in bs.iter().enumerate() {
                toks.push(Tok { text: b.to_string().into_bytes(), space_before: i > 0 });
            }
            toks.push(Tok { text: b")".to_vec(), space_before: false });
            Some(Node { first, last: toks.len() - 1, value: v.clone(), kind: NodeKind::Atom, children: vec![] })
        }
        atom => {
            let first = toks.len();
            toks.push(Tok { text: atom_text(atom, p)?, space_before: space });
            Some(Node { first, last: first, value: v.clone(), kind: NodeKind::Atom, children: vec![] })
        }
    }
}

/// Token sequence of a value as the printer lays it out (`use_shorthand`: spell (quote x) as 'x).
pub fn layout(v: &RV, p: Option<&PR>, use_shorthand: bool) -> Option<Layout> {
    let mut toks = Vec::new();
    let root = build(v, p, use_shorthand, &mut toks, false)?;
    Some(Layout { toks, root })
}

impl Layout {
    /// The printer's own layout: one space where the printer puts one.
    pub fn default_gaps(&self) -> Vec<Vec<u8>> {
        let mut g: Vec<Vec<u8>> = self.toks.iter().map(|t| if t.space_before { b" ".to_vec() } else { vec![] }).collect();
        g.push(vec![]);
        g
    }
    /// Render with `gaps[i]` before token i and `gaps[n]` after the last token. Returns the text
    /// and the byte range of every token.
    pub fn render(&self, gaps: &[Vec<u8>]) -> (Vec<u8>, Vec<(usize, usize)>) {
        let mut out = Vec::new();
        let mut ranges = Vec::with_capacity(self.toks.len());
        for (i, t) in self.toks.iter().enumerate() {
            out.extend_from_slice(&gaps[i]);
            let st = out.len();
            out.extend_from_slice(&t.text);
            ranges.push((st, out.len()));
        }
        out.extend_from_slice(&gaps[self.toks.len()]);
        (out, ranges)
    }
    /// May trivia `t` replace the gap before token i? A gap that the printer fills with a space
    /// must stay non-empty.
    pub fn gap_allows(&self, i: usize, t: &[u8]) -> bool {
        if i < self.toks.len() && self.toks[i].space_before {
            !t.is_empty()
        } else {
            true
        }
    }
}
