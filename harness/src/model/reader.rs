//! RefReader: an independent recursive-descent reader written from the documentation
//! (DESIGN Appendix A), for all 1536 parser option sets. It answers Value | Error | Unspecified;
//! oracles never compare against Unspecified.

use crate::domains::{PO, KW_OCTO, KW_POSTFIX, KW_PREFIX};
use crate::model::num::{expect, Expect};
use crate::rv::{NumLit, RV};

#[derive(Clone, Debug, PartialEq)]
pub enum RR {
    Value(RV),
    Error,
    Unspecified,
}

#[derive(Debug)]
enum Stop {
    Error,
    Unspec,
}

type R<T> = Result<T, Stop>;

pub fn is_trivia_byte(b: u8) -> bool {
    matches!(b, b' ' | b'\t' | b'\r' | b'\n' | 0x0c)
}

pub fn is_delim(b: u8) -> bool {
    is_trivia_byte(b) || matches!(b, b';' | b'(' | b')' | b'[' | b']' | b'"')
}

struct Rd<'a> {
    s: &'a [u8],
    i: usize,
    po: &'a PO,
}

const CHAR_NAMES: &[(&str, char)] = &[
    ("nul", '\0'),
    ("alarm", '\x07'),
    ("backspace", '\x08'),
    ("tab", '\t'),
    ("linefeed", '\n'),
    ("newline", '\n'),
    ("vtab", '\x0b'),
    ("page", '\x0c'),
    ("return", '\r'),
    ("esc", '\x1b'),
    ("space", ' '),
    ("delete", '\x7f'),
];

fn is_ascii_initial(b: u8) -> bool {
    b.is_ascii_alphabetic() || b"!$%&*/:<=>?@^_~".contains(&b)
}

#[derive(PartialEq, Clone, Copy)]
enum IdClass {
    Yes,
    No,
    /// contains scalars the documentation does not classify
    Unknown,
}

/// Rule 9: identifier grammar (R7RS initial/subsequent, peculiar identifiers, Unicode-alphabetic
/// scalars). `elisp_chars`: '?'-initial tokens are characters there, not identifiers.
pub fn identifier_class(tok: &str, elisp_chars: bool) -> IdClass {
    if tok.is_empty() {
        return IdClass::No;
    }
    let chars: Vec<char> = tok.chars().collect();
    let is_initial = |c: char| -> Option<bool> {
        if c.is_ascii() {
            Some(is_ascii_initial(c as u8))
        } else if c.is_alphabetic() {
            Some(true)
        } else {
            None
        }
    };
    let is_subsequent = |c: char| -> Option<bool> {
        if c.is_ascii() {
            Some(is_ascii_initial(c as u8) || c.is_ascii_digit() || "+-.@".contains(c))
        } else if c.is_alphabetic() {
            Some(true)
        } else {
            None
        }
    };
    let all_subsequent = |cs: &[char]| -> IdClass {
        let mut r = IdClass::Yes;
        for &c in cs {
            match is_subsequent(c) {
                Some(true) => {}
                Some(false) => return IdClass::No,
                None => r = IdClass::Unknown,
            }
        }
        r
    };
    let sign_subsequent = |c: char| -> Option<bool> {
        if c == '+' || c == '-' || c == '@' {
            Some(true)
        } else {
            is_initial(c)
        }
    };
    let c0 = chars[0];
    if c0 == '?' && elisp_chars {
        return IdClass::No;
    }
    if c0 == '+' || c0 == '-' {
        if chars.len() == 1 {
            return IdClass::Yes;
        }
        let c1 = chars[1];
        if c1 == '.' {
            // sign '.' dot-subsequent subsequent*
            if chars.len() < 3 {
                return IdClass::No;
            }
            let c2 = chars[2];
            let ds = if c2 == '.' { Some(true) } else { sign_subsequent(c2) };
            return match ds {
                Some(true) => all_subsequent(&chars[3..]),
                Some(false) => IdClass::No,
                None => IdClass::Unknown,
            };
        }
        return match sign_subsequent(c1) {
            Some(true) => all_subsequent(&chars[2..]),
            Some(false) => IdClass::No,
            None => IdClass::Unknown,
        };
    }
    if c0 == '.' {
        if chars.len() == 1 {
            return IdClass::No;
        }
        let c1 = chars[1];
        let ds = if c1 == '.' { Some(true) } else { sign_subsequent(c1) };
        return match ds {
            Some(true) => all_subsequent(&chars[2..]),
            Some(false) => IdClass::No,
            None => IdClass::Unknown,
        };
    }
    match is_initial(c0) {
        Some(true) => all_subsequent(&chars[1..]),
        Some(false) => IdClass::No,
        None => IdClass::Unknown,
    }
}

/// Rule 5: [sign] digit+ [ '.' digit+ ] [ (e|E) [sign] digit+ ]
pub fn decimal_literal(tok: &str) -> Option<NumLit> {
    let b = tok.as_bytes();
    let mut i = 0;
    let mut neg = false;
    if i < b.len() && (b[i] == b'+' || b[i] == b'-') {
        neg = b[i] == b'-';
        i += 1;
    }
    let st = i;
    while i < b.len() && b[i].is_ascii_digit() {
        i += 1;
    }
    if i == st {
        return None;
    }
    let int_digits = tok[st..i].to_string();
    let mut frac = None;
    if i < b.len() && b[i] == b'.' {
        let fs = i + 1;
        let mut j = fs;
        while j < b.len() && b[j].is_ascii_digit() {
            j += 1;
        }
        if j == fs {
            return None;
        }
        frac = Some(tok[fs..j].to_string());
        i = j;
    }
    let mut exp = None;
    if i < b.len() && (b[i] == b'e' || b[i] == b'E') {
        let mut j = i + 1;
        let mut eneg = false;
        if j < b.len() && (b[j] == b'+' || b[j] == b'-') {
            eneg = b[j] == b'-';
            j += 1;
        }
        let es = j;
        while j < b.len() && b[j].is_ascii_digit() {
            j += 1;
        }
        if j == es {
            return None;
        }
        // saturate
        let ds = tok[es..j].trim_start_matches('0');
        let mag: i64 = if ds.len() > 15 { 1_000_000_000_000_000 } else { ds.parse().unwrap_or(0) };
        exp = Some(if eneg { -mag } else { mag });
        i = j;
    }
    if i != b.len() {
        return None;
    }
    Some(NumLit { neg, radix: 10, int_digits, frac_digits: frac, exp })
}

/// [sign] digit-of-radix+
fn radix_integer(tok: &str, radix: u32) -> Option<NumLit> {
    let b = tok.as_bytes();
    let mut i = 0;
    let mut neg = false;
    if i < b.len() && (b[i] == b'+' || b[i] == b'-') {
        neg = b[i] == b'-';
        i += 1;
    }
    if i == b.len() {
        return None;
    }
    if !tok[i..].chars().all(|c| c.to_digit(radix).is_some()) {
        return None;
    }
    Some(NumLit { neg, radix, int_digits: tok[i..].to_string(), frac_digits: None, exp: None })
}

fn number_value(lit: NumLit) -> R<RV> {
    match expect(&lit) {
        Expect::OutOfRange => Err(Stop::Error),
        Expect::Band => Err(Stop::Unspec),
        _ => Ok(RV::NumLit(lit)),
    }
}

const UNSPEC_INNER: &[u8] = b"'`,|#";

impl<'a> Rd<'a> {
    fn peek(&self) -> Option<u8> {
        self.s.get(self.i).copied()
    }

    fn skip_trivia(&mut self) {
        while let Some(b) = self.peek() {
            if is_trivia_byte(b) {
                self.i += 1;
            } else if b == b';' {
                while let Some(c) = self.peek() {
                    self.i += 1;
                    if c == b'\n' {
                        break;
                    }
                }
            } else {
                break;
            }
        }
    }

    /// maximal run of non-delimiter bytes starting at the current position
    fn token_end(&self, from: usize) -> usize {
        let mut j = from;
        while j < self.s.len() && !is_delim(self.s[j]) {
            j += 1;
        }
        j
    }

    fn scalar_at(&self, i: usize) -> R<(char, usize)> {
        let b = *self.s.get(i).ok_or(Stop::Error)?;
        let len = if b < 0x80 {
            1
        } else if (0xc2..=0xdf).contains(&b) {
            2
        } else if (0xe0..=0xef).contains(&b) {
            3
        } else if (0xf0..=0xf4).contains(&b) {
            4
        } else {
            return Err(Stop::Error);
        };
        let bytes = self.s.get(i..i + len).ok_or(Stop::Error)?;
        let st = std::str::from_utf8(bytes).map_err(|_| Stop::Error)?;
        Ok((st.chars().next().unwrap(), len))
    }

    fn datum(&mut self, depth: usize) -> R<RV> {
        self.skip_trivia();
        let b = self.peek().ok_or(Stop::Error)?;
        if depth > 100 {
            return Err(Stop::Unspec);
        }
        match b {
            b'(' => {
                self.i += 1;
                self.list(b')', depth + 1)
            }
            b'[' => {
                self.i += 1;
                if self.po.brackets == 0 {
                    self.list(b']', depth + 1)
                } else {
                    self.vector(b']', depth + 1)
                }
            }
            b')' | b']' => Err(Stop::Error),
            b'"' => {
                self.i += 1;
                if self.po.string == 0 {
                    self.r6rs_string()
                } else {
                    self.elisp_string()
                }
            }
            b'\'' | b'`' | b',' => {
                self.i += 1;
                let name = match b {
                    b'\'' => "quote",
                    b'`' => "quasiquote",
                    _ => {
                        if self.peek() == Some(b'@') {
                            self.i += 1;
                            "unquote-splicing"
                        } else {
                            "unquote"
                        }
                    }
                };
                // the shorthand nests like a list (C03: "quote shorthands" are nesting constructs)
                let inner = self.datum(depth + 1)?;
                Ok(RV::list(vec![RV::sym(name), inner]))
            }
            b'#' => self.hash(depth),
            b'?' if self.po.chr == 1 => self.elisp_char(),
            _ => self.atom(),
        }
    }

    fn list(&mut self, close: u8, depth: usize) -> R<RV> {
        let mut items: Vec<RV> = Vec::new();
        loop {
            self.skip_trivia();
            let b = self.peek().ok_or(Stop::Error)?;
            if b == b')' || b == b']' {
                if b != close {
                    return Err(Stop::Error);
                }
                self.i += 1;
                return Ok(RV::list(items));
            }
            // the dot token: a maximal token equal to "."
            if b == b'.' && self.token_end(self.i) == self.i + 1 {
                // glued to a following string?  `."` is not documented
                if self.s.get(self.i + 1) == Some(&b'"') {
                    return Err(Stop::Unspec);
                }
                self.i += 1;
                if items.is_empty() {
                    return Err(Stop::Error);
                }
                self.skip_trivia();
                match self.peek() {
                    None => return Err(Stop::Error),
                    Some(b')') | Some(b']') => return Err(Stop::Error),
                    _ => {}
                }
                let tail = self.datum(depth)?;
                self.skip_trivia();
                match self.peek() {
                    Some(c) if c == close => {
                        self.i += 1;
                        return Ok(RV::append(items, tail));
                    }
                    _ => return Err(Stop::Error),
                }
            }
            items.push(self.datum(depth)?);
        }
    }

    fn vector(&mut self, close: u8, depth: usize) -> R<RV> {
        let mut items: Vec<RV> = Vec::new();
        loop {
            self.skip_trivia();
            let b = self.peek().ok_or(Stop::Error)?;
            if b == b')' || b == b']' {
                if b != close {
                    return Err(Stop::Error);
                }
                self.i += 1;
                return Ok(RV::Vector(items));
            }
            if b == b'.' && self.token_end(self.i) == self.i + 1 {
                // a dot inside a vector is not documented syntax
                return Err(Stop::Unspec);
            }
            items.push(self.datum(depth)?);
        }
    }

    fn bytevector(&mut self) -> R<RV> {
        // positioned after "#u8(" / "#vu8("
        let mut out = Vec::new();
        loop {
            self.skip_trivia();
            let b = self.peek().ok_or(Stop::Error)?;
            if b == b')' {
                self.i += 1;
                return Ok(RV::Bytes(out));
            }
            if is_delim(b) {
                return Err(Stop::Error);
            }
            let end = self.token_end(self.i);
            let tok = &self.s[self.i..end];
            if self.s.get(end) == Some(&b'"') {
                return Err(Stop::Unspec);
            }
            if !tok.iter().all(|c| c.is_ascii_digit()) {
                // signs, radix prefixes, fractions: not documented as octets; other tokens: error
                let t = String::from_utf8_lossy(tok).to_string();
                if decimal_literal(&t).is_some() || tok[0] == b'#' || tok[0] == b'+' || tok[0] == b'-' {
                    return Err(Stop::Unspec);
                }
                if tok.iter().any(|c| UNSPEC_INNER.contains(c)) {
                    return Err(Stop::Unspec);
                }
                return Err(Stop::Error);
            }
            let digits = std::str::from_utf8(tok).unwrap().trim_start_matches('0');
            if digits.len() > 3 {
                return Err(Stop::Error);
            }
            let v: u32 = if digits.is_empty() { 0 } else { digits.parse().unwrap() };
            if v > 255 {
                return Err(Stop::Error);
            }
            out.push(v as u8);
            self.i = end;
        }
    }

    fn hash(&mut self, depth: usize) -> R<RV> {
        // at '#'
        let start = self.i;
        let next = self.s.get(start + 1).copied();
        match next {
            None => Err(Stop::Error),
            Some(b'(') => {
                self.i += 2;
                self.vector(b')', depth + 1)
            }
            Some(b'\\') => {
                self.i += 2;
                self.r6rs_char()
            }
            _ => {
                let end = self.token_end(start);
                let tok = &self.s[start..end];
                let follower = self.s.get(end).copied();
                // byte vectors: "#u8" / "#vu8" immediately followed by '('
                if (tok == b"#u8" || tok == b"#vu8") && follower == Some(b'(') {
                    self.i = end + 1;
                    return self.bytevector();
                }
                if tok == b"#u8" || tok == b"#vu8" {
                    // prefix separated from its parenthesis: not documented
                    return if follower.is_none() { Err(Stop::Error) } else { Err(Stop::Unspec) };
                }
                if tok[1..].iter().any(|c| UNSPEC_INNER.contains(c)) || follower == Some(b'"') {
                    return Err(Stop::Unspec);
                }
                let t = match std::str::from_utf8(tok) {
                    Ok(t) => t,
                    Err(_) => return Err(Stop::Error),
                };
                self.i = end;
                match t {
                    "#t" => return Ok(RV::Bool(true)),
                    "#f" => return Ok(RV::Bool(false)),
                    "#nil" => return Ok(RV::Nil),
                    _ => {}
                }
                if let Some(name) = t.strip_prefix("#:") {
                    if self.po.kw & KW_OCTO == 0 {
                        return Err(Stop::Error);
                    }
                    return match self.name_class(name) {
                        IdClass::Yes => Ok(RV::kw(name)),
                        _ => Err(Stop::Unspec),
                    };
                }
                if let Some(name) = t.strip_prefix("#%") {
                    if !self.po.racket {
                        return Err(Stop::Error);
                    }
                    return match identifier_class(name, false) {
                        IdClass::Yes => Ok(RV::sym(t)),
                        _ => Err(Stop::Unspec),
                    };
                }
                for (p, radix) in [("#b", 2u32), ("#o", 8), ("#x", 16)] {
                    if let Some(rest) = t.strip_prefix(p) {
                        return match radix_integer(rest, radix) {
                            Some(lit) => number_value(lit),
                            None => {
                                if rest.is_empty() || rest == "+" || rest == "-" {
                                    Err(Stop::Error)
                                } else {
                                    // e.g. #x1.5, #b102: malformed per the grammar
                                    Err(Stop::Error)
                                }
                            }
                        };
                    }
                }
                if let Some(rest) = t.strip_prefix("#d") {
                    return match decimal_literal(rest) {
                        Some(lit) => number_value(lit),
                        None => Err(Stop::Error),
                    };
                }
                // "#t..." / "#f..." / "#nil..." longer forms, #e, #i, #!, #; ... : not documented
                Err(Stop::Unspec)
            }
        }
    }

    /// Names usable in keyword / #% positions: rule 9, or digit-initial tokens where enabled.
    fn name_class(&self, name: &str) -> IdClass {
        if name.is_empty() {
            return IdClass::Unknown;
        }
        let c = identifier_class(name, false);
        if c == IdClass::Yes {
            return IdClass::Yes;
        }
        IdClass::Unknown
    }

    fn r6rs_char(&mut self) -> R<RV> {
        // positioned after "#\"
        if self.peek().is_none() {
            return Err(Stop::Error);
        }
        let (c, len) = self.scalar_at(self.i)?;
        let after = self.i + len;
        let end = self.token_end(after);
        let tail = &self.s[after..end];
        if tail.is_empty() {
            self.i = after;
            return Ok(RV::Char(c));
        }
        if tail.iter().any(|b| UNSPEC_INNER.contains(b)) || self.s.get(end) == Some(&b'"') {
            return Err(Stop::Unspec);
        }
        if !c.is_ascii() {
            // a non-ASCII scalar glued to further constituents: not documented
            return Err(Stop::Unspec);
        }
        let tail_s = match std::str::from_utf8(tail) {
            Ok(t) => t,
            Err(_) => return Err(Stop::Unspec),
        };
        self.i = end;
        if c == 'x' && tail_s.chars().all(|h| h.is_ascii_hexdigit()) {
            let digits = tail_s.trim_start_matches('0');
            if digits.len() > 6 {
                return Err(Stop::Error);
            }
            let v = if digits.is_empty() { 0 } else { u32::from_str_radix(digits, 16).unwrap() };
            return match char::from_u32(v) {
                Some(ch) => Ok(RV::Char(ch)),
                None => Err(Stop::Error),
            };
        }
        let name = format!("{}{}", c, tail_s);
        for (n, ch) in CHAR_NAMES {
            if *n == name {
                return Ok(RV::Char(*ch));
            }
        }
        Err(Stop::Error)
    }

    fn elisp_char(&mut self) -> R<RV> {
        // at '?'
        self.i += 1;
        if self.peek().is_none() {
            return Err(Stop::Error);
        }
        let (c, len) = self.scalar_at(self.i)?;
        self.i += len;
        let ch = if c == '\\' {
            if self.peek().is_none() {
                return Err(Stop::Error);
            }
            let (e, elen) = self.scalar_at(self.i)?;
            self.i += elen;
            match e {
                'a' => '\x07',
                'b' => '\x08',
                't' => '\t',
                'n' => '\n',
                'v' => '\x0b',
                'f' => '\x0c',
                'r' => '\r',
                'e' => '\x1b',
                's' => ' ',
                'd' => '\x7f',
                '\\' => '\\',
                // control-character syntax: not printed by lexpr and not part of any property
                '^' => return Err(Stop::Unspec),
                'x' => {
                    let st = self.i;
                    while self.peek().map(|b| b.is_ascii_hexdigit()).unwrap_or(false) {
                        self.i += 1;
                    }
                    if self.i == st {
                        return Err(Stop::Unspec);
                    }
                    self.code_point(st, self.i, 16)?
                }
                '0'..='7' => {
                    let st = self.i - 1;
                    while self.peek().map(|b| (b'0'..=b'7').contains(&b)).unwrap_or(false) {
                        self.i += 1;
                    }
                    if self.i - st > 3 {
                        return Err(Stop::Unspec);
                    }
                    self.code_point(st, self.i, 8)?
                }
                'u' | 'U' => {
                    let n = if e == 'u' { 4 } else { 8 };
                    let st = self.i;
                    for _ in 0..n {
                        match self.peek() {
                            Some(b) if b.is_ascii_hexdigit() => self.i += 1,
                            _ => return Err(Stop::Unspec),
                        }
                    }
                    self.code_point(st, self.i, 16)?
                }
                'N' => {
                    if self.s.get(self.i..self.i + 3) != Some(b"{U+") {
                        return Err(Stop::Unspec);
                    }
                    self.i += 3;
                    let st = self.i;
                    while self.peek().map(|b| b.is_ascii_hexdigit()).unwrap_or(false) {
                        self.i += 1;
                    }
                    if self.i == st || self.peek() != Some(b'}') {
                        return Err(Stop::Unspec);
                    }
                    let c = self.code_point(st, self.i, 16)?;
                    self.i += 1;
                    c
                }
                // meta / control / shift modifiers and friends: not documented for lexpr
                'M' | 'C' | 'S' | 'H' | 'A' => return Err(Stop::Unspec),
                other => {
                    if other.is_ascii_alphanumeric() || other.is_ascii_control() || other == ' ' {
                        return Err(Stop::Unspec);
                    }
                    other
                }
            }
        } else {
            // Emacs requires a backslash before ( ) [ ] ; and recommends one before | ' ` # . ,
            // — but it reads ?" and "? " (a space) as those characters, and lexpr prints them so
            if "()[];".contains(c) || c.is_ascii_control() {
                return Err(Stop::Unspec);
            }
            c
        };
        // a character literal must be followed by a delimiter
        match self.peek() {
            None => Ok(RV::Char(ch)),
            Some(b) if is_delim(b) && b != b'"' => Ok(RV::Char(ch)),
            _ => Err(Stop::Unspec),
        }
    }

    fn code_point(&self, st: usize, end: usize, radix: u32) -> R<char> {
        let digits = std::str::from_utf8(&self.s[st..end]).unwrap().trim_start_matches('0');
        if digits.len() > 8 {
            return Err(Stop::Error);
        }
        let v = if digits.is_empty() { 0 } else { u32::from_str_radix(digits, radix).map_err(|_| Stop::Error)? };
        char::from_u32(v).ok_or(Stop::Error)
    }

    fn r6rs_string(&mut self) -> R<RV> {
        let mut out: Vec<u8> = Vec::new();
        loop {
            let b = self.peek().ok_or(Stop::Error)?;
            self.i += 1;
            match b {
                b'"' => break,
                b'\\' => {
                    let e = self.peek().ok_or(Stop::Error)?;
                    self.i += 1;
                    match e {
                        b'a' => out.push(7),
                        b'b' => out.push(8),
                        b't' => out.push(9),
                        b'n' => out.push(10),
                        b'r' => out.push(13),
                        b'v' => out.push(11),
                        b'f' => out.push(12),
                        b'"' => out.push(b'"'),
                        b'\\' => out.push(b'\\'),
                        b'|' => out.push(b'|'),
                        b'x' => {
                            let st = self.i;
                            while self.peek().map(|c| c.is_ascii_hexdigit()).unwrap_or(false) {
                                self.i += 1;
                            }
                            match self.peek() {
                                None => return Err(Stop::Error),
                                Some(b';') => {}
                                // a hex escape not closed by ';': malformed, but the documentation
                                // does not say how
                                Some(_) => return Err(Stop::Unspec),
                            }
                            if self.i == st {
                                return Err(Stop::Unspec);
                            }
                            let c = self.code_point(st, self.i, 16)?;
                            self.i += 1;
                            let mut buf = [0u8; 4];
                            out.extend_from_slice(c.encode_utf8(&mut buf).as_bytes());
                        }
                        // line continuations and unknown escapes: not documented
                        _ => return Err(Stop::Unspec),
                    }
                }
                _ => out.push(b),
            }
        }
        if self.peek().map(|c| !is_delim(c)).unwrap_or(false) || self.peek() == Some(b'"') {
            // a string glued to a following atom or string: token boundary not documented
            return Err(Stop::Unspec);
        }
        match String::from_utf8(out) {
            Ok(s) => Ok(RV::Str(s)),
            Err(_) => Err(Stop::Error),
        }
    }

    fn elisp_string(&mut self) -> R<RV> {
        let mut out: Vec<u8> = Vec::new();
        let mut seen_byte_escape = false;
        let mut seen_multibyte = false;
        loop {
            let b = self.peek().ok_or(Stop::Error)?;
            self.i += 1;
            match b {
                b'"' => break,
                b'\\' => {
                    let e = self.peek().ok_or(Stop::Error)?;
                    self.i += 1;
                    match e {
                        b'"' => out.push(b'"'),
                        b'\\' => out.push(b'\\'),
                        b' ' => {}
                        b'a' => out.push(7),
                        b'b' => out.push(8),
                        b't' => out.push(9),
                        b'n' => out.push(10),
                        b'v' => out.push(11),
                        b'f' => out.push(12),
                        b'r' => out.push(13),
                        b'e' => out.push(27),
                        b's' => out.push(b' '),
                        b'd' => out.push(127),
                        b'^' => return Err(Stop::Unspec),
                        b'x' | b'0'..=b'7' => {
                            let (st, radix) = if e == b'x' { (self.i, 16) } else { (self.i - 1, 8) };
                            if radix == 16 {
                                while self.peek().map(|c| c.is_ascii_hexdigit()).unwrap_or(false) {
                                    self.i += 1;
                                }
                                if self.i == st {
                                    return Err(Stop::Unspec);
                                }
                            } else {
                                while self.peek().map(|c| (b'0'..=b'7').contains(&c)).unwrap_or(false) {
                                    self.i += 1;
                                }
                                if self.i - st > 3 {
                                    return Err(Stop::Unspec);
                                }
                            }
                            let digits = std::str::from_utf8(&self.s[st..self.i]).unwrap().trim_start_matches('0');
                            if digits.len() > 8 {
                                return Err(Stop::Error);
                            }
                            let v = if digits.is_empty() { 0 } else { u32::from_str_radix(digits, radix).map_err(|_| Stop::Error)? };
                            if v <= 255 {
                                out.push(v as u8);
                                seen_byte_escape = true;
                            } else {
                                let c = char::from_u32(v).ok_or(Stop::Error)?;
                                let mut buf = [0u8; 4];
                                out.extend_from_slice(c.encode_utf8(&mut buf).as_bytes());
                                seen_multibyte = true;
                            }
                        }
                        b'u' | b'U' => {
                            let n = if e == b'u' { 4 } else { 8 };
                            let st = self.i;
                            for _ in 0..n {
                                match self.peek() {
                                    Some(c) if c.is_ascii_hexdigit() => self.i += 1,
                                    None => return Err(Stop::Error),
                                    _ => return Err(Stop::Unspec),
                                }
                            }
                            let c = self.code_point(st, self.i, 16)?;
                            let mut buf = [0u8; 4];
                            out.extend_from_slice(c.encode_utf8(&mut buf).as_bytes());
                            seen_multibyte = true;
                        }
                        b'N' => {
                            if self.s.get(self.i..self.i + 3) != Some(b"{U+") {
                                return Err(Stop::Unspec);
                            }
                            self.i += 3;
                            let st = self.i;
                            while self.peek().map(|c| c.is_ascii_hexdigit()).unwrap_or(false) {
                                self.i += 1;
                            }
                            if self.i == st || self.peek() != Some(b'}') {
                                return Err(Stop::Unspec);
                            }
                            let c = self.code_point(st, self.i, 16)?;
                            self.i += 1;
                            let mut buf = [0u8; 4];
                            out.extend_from_slice(c.encode_utf8(&mut buf).as_bytes());
                            seen_multibyte = true;
                        }
                        _ => return Err(Stop::Unspec),
                    }
                }
                _ => {
                    if b >= 0x80 {
                        seen_multibyte = true;
                    }
                    out.push(b);
                }
            }
        }
        if self.peek().map(|c| !is_delim(c)).unwrap_or(false) || self.peek() == Some(b'"') {
            return Err(Stop::Unspec);
        }
        if seen_byte_escape && !seen_multibyte {
            return Ok(RV::Bytes(out));
        }
        match String::from_utf8(out) {
            Ok(s) => Ok(RV::Str(s)),
            Err(_) => Err(Stop::Error),
        }
    }

    fn atom(&mut self) -> R<RV> {
        let start = self.i;
        let end = self.token_end(start);
        if end == start {
            return Err(Stop::Error);
        }
        let tok = &self.s[start..end];
        if self.s.get(end) == Some(&b'"') {
            return Err(Stop::Unspec);
        }
        if tok[1..].iter().any(|c| UNSPEC_INNER.contains(c)) || tok[0] == b'|' {
            return Err(Stop::Unspec);
        }
        let t = match std::str::from_utf8(tok) {
            Ok(t) => t,
            Err(_) => return Err(Stop::Error),
        };
        self.i = end;
        // rule 5
        if let Some(lit) = decimal_literal(t) {
            return match number_value(lit) {
                // a literal too large for a double: with leading-digit symbols enabled the
                // documentation does not say whether it is an error or a symbol
                Err(Stop::Error) if self.po.digit && tok[0].is_ascii_digit() => Err(Stop::Unspec),
                r => r,
            };
        }
        let b0 = tok[0];
        // a sign followed by a digit that is not a literal (+5x, -1a): not documented
        if (b0 == b'+' || b0 == b'-') && tok.len() > 1 && tok[1].is_ascii_digit() {
            return Err(Stop::Unspec);
        }
        // rule 6
        let pre = self.po.kw & KW_PREFIX != 0 && b0 == b':';
        let post = self.po.kw & KW_POSTFIX != 0 && tok[tok.len() - 1] == b':';
        if pre && post {
            return Err(Stop::Unspec);
        }
        if pre || post {
            let name = if pre { &t[1..] } else { &t[..t.len() - 1] };
            if name.is_empty() {
                return Err(Stop::Unspec);
            }
            let digit_name = name.as_bytes()[0].is_ascii_digit();
            if digit_name {
                // digit-initial keyword names: only meaningful with the leading-digit option,
                // and even then not documented for keywords
                return Err(Stop::Unspec);
            }
            return match identifier_class(name, false) {
                IdClass::Yes => {
                    // a name that itself begins or ends with ':' has a second reading
                    Ok(RV::kw(name))
                }
                _ => Err(Stop::Unspec),
            };
        }
        // rule 7
        if t == "nil" {
            return Ok(match self.po.nil {
                0 => RV::sym("nil"),
                1 => RV::Null,
                _ => RV::Nil,
            });
        }
        if t == "t" {
            return Ok(if self.po.t == 0 { RV::sym("t") } else { RV::Bool(true) });
        }
        // rule 8
        if b0.is_ascii_digit() {
            if !self.po.digit {
                return Err(Stop::Error);
            }
            // the rest must be made of ordinary constituents
            let rest_ok = t.chars().all(|c| c.is_ascii_alphanumeric() || "!$%&*/:<=>?@^_~+-.".contains(c) || (!c.is_ascii() && c.is_alphabetic()));
            return if rest_ok { Ok(RV::sym(t)) } else { Err(Stop::Unspec) };
        }
        // rule 10
        if t == "." {
            return Err(Stop::Error);
        }
        // rule 9
        match identifier_class(t, self.po.chr == 1) {
            IdClass::Yes => Ok(RV::sym(t)),
            _ => Err(Stop::Unspec),
        }
    }
}

/// Read exactly one datum (with surrounding trivia), like `from_slice_custom`.
pub fn read_one(input: &[u8], po: &PO) -> RR {
    let mut rd = Rd { s: input, i: 0, po };
    let v = match rd.datum(0) {
        Ok(v) => v,
        Err(Stop::Error) => return RR::Error,
        Err(Stop::Unspec) => return RR::Unspecified,
    };
    rd.skip_trivia();
    if rd.i != input.len() {
        // something follows the datum: an error for the single-datum entry points — unless what
        // follows is itself outside the documented token boundaries
        let mut probe = Rd { s: input, i: rd.i, po };
        return match probe.datum(0) {
            Err(Stop::Unspec) => RR::Unspecified,
            _ => RR::Error,
        };
    }
    RR::Value(v)
}

/// Read a stream of datums until the end; stops at the first Error / Unspecified.
pub fn read_all(input: &[u8], po: &PO) -> (Vec<RV>, Option<RR>) {
    let mut rd = Rd { s: input, i: 0, po };
    let mut out = Vec::new();
    loop {
        rd.skip_trivia();
        if rd.i >= input.len() {
            return (out, None);
        }
        match rd.datum(0) {
            Ok(v) => out.push(v),
            Err(Stop::Error) => return (out, Some(RR::Error)),
            Err(Stop::Unspec) => return (out, Some(RR::Unspecified)),
        }
    }
}

/// Token boundaries of a well-formed text, for trivia-insertion experiments (C11, C12): byte
/// offsets at which trivia may be inserted without changing the token sequence. Returns None if
/// the text is outside the documented grammar.
pub fn token_boundaries(input: &[u8], po: &PO) -> Option<Vec<usize>> {
    if !matches!(read_one(input, po), RR::Value(_)) {
        return None;
    }
    let mut out = vec![0usize];
    let mut i = 0usize;
    let n = input.len();
    let rd = Rd { s: input, i: 0, po };
    while i < n {
        let b = input[i];
        if is_trivia_byte(b) {
            i += 1;
            out.push(i);
            continue;
        }
        if b == b';' {
            while i < n && input[i] != b'\n' {
                i += 1;
            }
            if i < n {
                i += 1;
            }
            out.push(i);
            continue;
        }
        match b {
            b'(' | b')' | b'[' | b']' | b'\'' | b'`' => {
                i += 1;
            }
            b',' => {
                i += 1;
                if i < n && input[i] == b'@' {
                    i += 1;
                }
            }
            b'"' => {
                i += 1;
                while i < n && input[i] != b'"' {
                    if input[i] == b'\\' {
                        i += 1;
                    }
                    i += 1;
                }
                i += 1;
            }
            b'#' if input.get(i + 1) == Some(&b'(') => {
                i += 2;
            }
            b'#' if input.get(i + 1) == Some(&b'\\') => {
                // char: "#\" scalar tail
                let (_, len) = rd.scalar_at(i + 2).ok()?;
                i = rd.token_end(i + 2 + len);
            }
            b'?' if po.chr == 1 => {
                // elisp char: '?' (escape | scalar)
                i += 1;
                if input.get(i) == Some(&b'\\') {
                    i += 1;
                    let (e, len) = rd.scalar_at(i).ok()?;
                    i += len;
                    if e == 'N' {
                        while i < n && input[i] != b'}' {
                            i += 1;
                        }
                        i += 1;
                    } else if e == '^' {
                        i += 1;
                    } else if e == 'x' || e == 'u' || e == 'U' || e.is_ascii_digit() {
                        while i < n && input[i].is_ascii_hexdigit() {
                            i += 1;
                        }
                    }
                } else {
                    let (_, len) = rd.scalar_at(i).ok()?;
                    i += len;
                }
            }
            _ => {
                let end = rd.token_end(i);
                // "#u8(" keeps its parenthesis
                if (&input[i..end] == b"#u8" || &input[i..end] == b"#vu8") && input.get(end) == Some(&b'(') {
                    i = end + 1;
                } else {
                    i = end;
                }
            }
        }
        if i > n {
            return None;
        }
        out.push(i);
    }
    out.sort();
    out.dedup();
    Some(out)
}

/// Is `name` plain in the dialect of (printer keyword spelling, parser options), as a symbol and
/// as a keyword (DESIGN Appendix B)?
pub fn plain_symbol(name: &str, r: &PO) -> bool {
    if identifier_class(name, r.chr == 1) != IdClass::Yes {
        return false;
    }
    if name == "nil" && r.nil != 0 {
        return false;
    }
    if name == "t" && r.t != 0 {
        return false;
    }
    if r.kw & KW_PREFIX != 0 && name.starts_with(':') {
        return false;
    }
    if r.kw & KW_POSTFIX != 0 && name.ends_with(':') {
        return false;
    }
    let c0 = name.chars().next().unwrap();
    if c0.is_ascii_digit() || c0 == '#' {
        return false;
    }
    if name.bytes().any(|b| UNSPEC_INNER.contains(&b)) {
        return false;
    }
    // must not read as a number
    decimal_literal(name).is_none()
}

/// `kw_print`: 0 "#:name", 1 ":name", 2 "name:".
pub fn plain_keyword(name: &str, kw_print: u8, r: &PO) -> bool {
    if identifier_class(name, false) != IdClass::Yes {
        return false;
    }
    if name.bytes().any(|b| UNSPEC_INNER.contains(&b)) {
        return false;
    }
    let c0 = name.chars().next().unwrap();
    if c0.is_ascii_digit() {
        return false;
    }
    match kw_print {
        0 => true,
        1 => {
            // printed ":name": no second reading as "…:" postfix keyword
            !(r.kw & KW_POSTFIX != 0 && name.ends_with(':'))
        }
        _ => {
            // printed "name:"
            if r.kw & KW_PREFIX != 0 && name.starts_with(':') {
                return false;
            }
            // the printed token must not start like another token class
            if r.chr == 1 && name.starts_with('?') {
                return false;
            }
            // "+5:" style: sign followed by digit
            let b = name.as_bytes();
            if (b[0] == b'+' || b[0] == b'-') && b.len() > 1 && b[1].is_ascii_digit() {
                return false;
            }
            true
        }
    }
}

/// Compare the model's reading with the implementation's value. NumLit nodes are judged by the
/// number oracle. Returns Err(reason) on mismatch.
pub fn matches_value(model: &RV, actual: &RV, nofast: bool) -> Result<(), String> {
    match (model, actual) {
        (RV::NumLit(lit), a) => crate::model::num::literal_matches(lit, a, nofast),
        (RV::Cons(_, _), RV::Cons(_, _)) => {
            let (mut m, mut a) = (model, actual);
            loop {
                match (m, a) {
                    (RV::Cons(ma, md), RV::Cons(aa, ad)) => {
                        matches_value(ma, aa, nofast)?;
                        m = md;
                        a = ad;
                    }
                    (x, y) => return matches_value(x, y, nofast),
                }
            }
        }
        (RV::Vector(ms), RV::Vector(az)) => {
            if ms.len() != az.len() {
                return Err(format!("vector length {} vs {}", ms.len(), az.len()));
            }
            for (m, a) in ms.iter().zip(az.iter()) {
                matches_value(m, a, nofast)?;
            }
            Ok(())
        }
        (m, a) => {
            if m == a {
                Ok(())
            } else {
                Err(format!("reference reader: {}, implementation: {}", m, a))
            }
        }
    }
}
