//! NumOracle: the exact mathematical value of numeric literals (own unsigned bignum), and the
//! reading of C05's accuracy clause that the checks use (DESIGN 3.6).

use crate::rv::{NumLit, RV};
use std::cmp::Ordering;

#[derive(Clone, Debug, PartialEq, Eq)]
pub struct Big(Vec<u32>); // little endian, no trailing zero limbs

impl Big {
    pub fn zero() -> Big {
        Big(Vec::new())
    }
    pub fn from_u64(x: u64) -> Big {
        let mut b = Big(vec![x as u32, (x >> 32) as u32]);
        b.trim();
        b
    }
    fn trim(&mut self) {
        while self.0.last() == Some(&0) {
            self.0.pop();
        }
    }
    pub fn is_zero(&self) -> bool {
        self.0.is_empty()
    }
    pub fn mul_small(&mut self, m: u32) {
        let mut carry = 0u64;
        for l in self.0.iter_mut() {
            let v = *l as u64 * m as u64 + carry;
            *l = v as u32;
            carry = v >> 32;
        }
        if carry > 0 {
            self.0.push(carry as u32);
        }
        self.trim();
    }
    pub fn add_small(&mut self, a: u32) {
        let mut carry = a as u64;
        for l in self.0.iter_mut() {
            if carry == 0 {
                break;
            }
            let v = *l as u64 + carry;
            *l = v as u32;
            carry = v >> 32;
        }
        if carry > 0 {
            self.0.push(carry as u32);
        }
    }
    /// digits in the given radix (2..=16)
    pub fn from_digits(digits: &str, radix: u32) -> Big {
        let mut b = Big::zero();
        for c in digits.chars() {
            let d = c.to_digit(radix).expect("digit of radix");
            b.mul_small(radix);
            b.add_small(d);
        }
        b
    }
    pub fn shl(&mut self, bits: usize) {
        if self.is_zero() || bits == 0 {
            return;
        }
        let limbs = bits / 32;
        let rem = bits % 32;
        if rem > 0 {
            let mut carry = 0u32;
            for l in self.0.iter_mut() {
                let v = (*l as u64) << rem | carry as u64;
                *l = v as u32;
                carry = (v >> 32) as u32;
            }
            if carry > 0 {
                self.0.push(carry);
            }
        }
        if limbs > 0 {
            let mut v = vec![0u32; limbs];
            v.extend_from_slice(&self.0);
            self.0 = v;
        }
    }
    pub fn mul_pow10(&mut self, mut k: u64) {
        while k >= 9 {
            self.mul_small(1_000_000_000);
            k -= 9;
        }
        if k > 0 {
            self.mul_small(10u32.pow(k as u32));
        }
    }
    pub fn cmp(&self, other: &Big) -> Ordering {
        if self.0.len() != other.0.len() {
            return self.0.len().cmp(&other.0.len());
        }
        for i in (0..self.0.len()).rev() {
            if self.0[i] != other.0[i] {
                return self.0[i].cmp(&other.0[i]);
            }
        }
        Ordering::Equal
    }
    /// |self - other|
    pub fn abs_diff(&self, other: &Big) -> Big {
        let (a, b) = if self.cmp(other) == Ordering::Less { (other, self) } else { (self, other) };
        let mut out = a.0.clone();
        let mut borrow = 0i64;
        for i in 0..out.len() {
            let mut v = out[i] as i64 - borrow - *b.0.get(i).unwrap_or(&0) as i64;
            if v < 0 {
                v += 1 << 32;
                borrow = 1;
            } else {
                borrow = 0;
            }
            out[i] = v as u32;
        }
        let mut r = Big(out);
        r.trim();
        r
    }
    pub fn bits(&self) -> usize {
        match self.0.last() {
            None => 0,
            Some(l) => (self.0.len() - 1) * 32 + (32 - l.leading_zeros() as usize),
        }
    }
    pub fn to_u128(&self) -> Option<u128> {
        if self.0.len() > 4 {
            return None;
        }
        let mut v = 0u128;
        for (i, l) in self.0.iter().enumerate() {
            v |= (*l as u128) << (32 * i);
        }
        Some(v)
    }
    /// self / d, returning the remainder
    pub fn div_small(&mut self, d: u32) -> u32 {
        let mut rem = 0u64;
        for l in self.0.iter_mut().rev() {
            let cur = (rem << 32) | *l as u64;
            *l = (cur / d as u64) as u32;
            rem = cur % d as u64;
        }
        self.trim();
        rem as u32
    }
    pub fn to_string_radix(&self, radix: u32, upper: bool) -> String {
        if self.is_zero() {
            return "0".into();
        }
        let mut b = self.clone();
        let mut out = Vec::new();
        while !b.is_zero() {
            let r = b.div_small(radix);
            let c = std::char::from_digit(r, radix).unwrap();
            out.push(if upper { c.to_ascii_uppercase() } else { c });
        }
        out.iter().rev().collect()
    }
    pub fn pow10(k: u64) -> Big {
        let mut b = Big::from_u64(1);
        b.mul_pow10(k);
        b
    }
    pub fn sub_small(&mut self, a: u32) {
        let one = Big::from_u64(a as u64);
        *self = self.abs_diff(&one);
    }
    pub fn pow2(k: usize) -> Big {
        let mut b = Big::from_u64(1);
        b.shl(k);
        b
    }
}

/// Decompose a finite non-zero double as m * 2^q with m an integer < 2^53.
fn decompose(f: f64) -> (u64, i32) {
    let bits = f.abs().to_bits();
    let exp = ((bits >> 52) & 0x7ff) as i32;
    let frac = bits & ((1u64 << 52) - 1);
    if exp == 0 {
        (frac, -1074)
    } else {
        (frac | (1u64 << 52), exp - 1075)
    }
}

/// The exact value of a literal as D * 10^e10 (radix 10 with fraction/exponent) or D (integers
/// of any radix).
pub struct Exact {
    pub neg: bool,
    pub d: Big,
    pub e10: i64,
    pub is_integer_literal: bool,
    pub sig_digits: usize,
}

pub fn exact_of(lit: &NumLit) -> Exact {
    let mut digits = lit.int_digits.clone();
    let mut e10: i64 = 0;
    if let Some(f) = &lit.frac_digits {
        digits.push_str(f);
        e10 -= f.len() as i64;
    }
    if let Some(e) = lit.exp {
        e10 = e10.saturating_add(e);
    }
    let d = Big::from_digits(&digits, lit.radix);
    let stripped = digits.trim_start_matches('0');
    Exact { neg: lit.neg, d, e10, is_integer_literal: lit.frac_digits.is_none() && lit.exp.is_none(), sig_digits: stripped.len() }
}

#[derive(Clone, Debug, PartialEq)]
pub enum Expect {
    /// must be exactly this integer
    Int(i128),
    /// must be a float; judged by `float_ok`
    Float,
    /// true value >= 2^1024: must be rejected
    OutOfRange,
    /// true value in (f64::MAX, 2^1024): f64::MAX or an error, never inf/NaN
    Band,
}

/// Compare D*10^e10 with 2^k. Returns ordering of the literal's magnitude relative to 2^k.
fn cmp_pow2(ex: &Exact, k: usize) -> Ordering {
    if ex.d.is_zero() {
        return Ordering::Less;
    }
    // quick bounds through decimal digit counts
    let approx_log10 = ex.d.bits() as f64 * 0.30103 + ex.e10 as f64;
    let target = k as f64 * 0.30103;
    if approx_log10 > target + 2.0 {
        return Ordering::Greater;
    }
    if approx_log10 < target - 2.0 {
        return Ordering::Less;
    }
    let mut lhs = ex.d.clone();
    let mut rhs = Big::pow2(k);
    if ex.e10 >= 0 {
        lhs.mul_pow10(ex.e10 as u64);
    } else {
        rhs.mul_pow10((-ex.e10) as u64);
    }
    lhs.cmp(&rhs)
}

/// f64::MAX = (2^53 - 1) * 2^971
fn cmp_f64_max(ex: &Exact) -> Ordering {
    if ex.d.is_zero() {
        return Ordering::Less;
    }
    let approx_log10 = ex.d.bits() as f64 * 0.30103 + ex.e10 as f64;
    if approx_log10 > 311.0 {
        return Ordering::Greater;
    }
    if approx_log10 < 305.0 {
        return Ordering::Less;
    }
    let mut lhs = ex.d.clone();
    let mut rhs = Big::from_u64((1u64 << 53) - 1);
    rhs.shl(971);
    if ex.e10 >= 0 {
        lhs.mul_pow10(ex.e10 as u64);
    } else {
        rhs.mul_pow10((-ex.e10) as u64);
    }
    lhs.cmp(&rhs)
}

pub fn expect(lit: &NumLit) -> Expect {
    let ex = exact_of(lit);
    if ex.is_integer_literal {
        if let Some(v) = ex.d.to_u128() {
            if !ex.neg && v <= u64::MAX as u128 {
                return Expect::Int(v as i128);
            }
            if ex.neg && v <= 1u128 << 63 {
                return Expect::Int(-(v as i128));
            }
        }
    }
    if cmp_pow2(&ex, 1024) != Ordering::Less {
        return Expect::OutOfRange;
    }
    if cmp_f64_max(&ex) == Ordering::Greater {
        return Expect::Band;
    }
    Expect::Float
}

/// The correctly rounded double of the literal's magnitude, through std's parser (trusted base).
pub fn correctly_rounded(lit: &NumLit) -> f64 {
    let ex = exact_of(lit);
    if lit.radix == 10 {
        let mut digits = lit.int_digits.clone();
        if let Some(f) = &lit.frac_digits {
            digits.push_str(f);
        }
        let e = ex.e10.clamp(-100_000, 100_000);
        format!("{}e{}", digits, e).parse::<f64>().unwrap()
    } else {
        // exact integer in another radix: round D to 53 bits, ties to even
        let bits = ex.d.bits();
        if bits <= 64 {
            return ex.d.to_u128().unwrap() as u64 as f64;
        }
        // take the top 64 bits plus a sticky bit
        let shift = bits - 64;
        let mut top: u64 = 0;
        let mut sticky = false;
        for i in 0..bits {
            let bit = (ex.d.0[i / 32] >> (i % 32)) & 1;
            if i >= shift {
                top |= (bit as u64) << (i - shift);
            } else if bit == 1 {
                sticky = true;
            }
        }
        // top has its MSB set; round to 53 bits
        let keep = top >> 11;
        let rem = top & 0x7ff;
        let half = 0x400;
        let mut m = keep;
        if rem > half || (rem == half && (sticky || keep & 1 == 1)) {
            m += 1;
        }
        (m as f64) * 2f64.powi((shift + 11) as i32)
    }
}

/// Is |f - x| <= 2^-50 * |x| (exact arithmetic), x = D * 10^e10 > 0, f > 0 finite.
fn within_rel_2_50(ex: &Exact, f: f64) -> bool {
    let (m, q) = decompose(f);
    let mut x = ex.d.clone();
    let mut fb = Big::from_u64(m);
    if ex.e10 >= 0 {
        x.mul_pow10(ex.e10 as u64);
    } else {
        fb.mul_pow10((-ex.e10) as u64);
    }
    if q >= 0 {
        fb.shl(q as usize);
    } else {
        x.shl((-q) as usize);
    }
    let mut diff = fb.abs_diff(&x);
    diff.shl(50);
    diff.cmp(&x) != Ordering::Greater
}

fn ulp_distance(a: f64, b: f64) -> u64 {
    // both finite, same sign assumed non-negative
    let (x, y) = (a.to_bits() as i64, b.to_bits() as i64);
    (x - y).unsigned_abs()
}

/// Does the reading of C05's accuracy clause demand the correctly rounded result?
pub fn demands_exact(lit: &NumLit, nofast: bool) -> bool {
    let ex = exact_of(lit);
    if ex.d.is_zero() {
        return true;
    }
    if ex.is_integer_literal {
        // an out-of-range integer literal only has to approximate its value
        return false;
    }
    let fits53 = ex.d.bits() <= 53;
    let written = lit.exp.unwrap_or(0);
    if fits53 && ex.e10.abs() <= 22 && written.abs() <= 22 {
        return true;
    }
    if nofast && ex.sig_digits <= 19 && ex.d.bits() <= 64 {
        return true;
    }
    false
}

/// Judge a float result for a literal whose `expect` is Float or Band.
pub fn float_ok(lit: &NumLit, f: f64, nofast: bool) -> Result<(), String> {
    if !f.is_finite() {
        return Err(format!("non-finite result {:?}", f));
    }
    let ex = exact_of(lit);
    if ex.d.is_zero() {
        let want = if lit.neg { -0.0f64 } else { 0.0 };
        return if f == 0.0 && (f.is_sign_negative() == want.is_sign_negative()) { Ok(()) } else { Err(format!("zero literal read as {:?}", f)) };
    }
    if f != 0.0 && (f < 0.0) != lit.neg {
        return Err(format!("wrong sign: {:?}", f));
    }
    let cr = correctly_rounded(lit);
    let fa = f.abs();
    if demands_exact(lit, nofast) {
        return if fa.to_bits() == cr.to_bits() { Ok(()) } else { Err(format!("not correctly rounded: got {:?}, correctly rounded magnitude is {:?}", f, cr)) };
    }
    if cr.is_infinite() {
        // band below 2^1024 (expect() has excluded >= 2^1024): only f64::MAX is acceptable
        return if fa == f64::MAX { Ok(()) } else { Err(format!("got {:?} for a value just above f64::MAX", f)) };
    }
    if cr < f64::MIN_POSITIVE {
        // subnormal range: relative accuracy is unsatisfiable; allow two subnormal spacings
        return if ulp_distance(fa, cr) <= 2 { Ok(()) } else { Err(format!("subnormal result {:?} is more than two spacings away from {:?}", f, cr)) };
    }
    if f == 0.0 {
        return Err(format!("non-zero literal of normal magnitude read as zero (correctly rounded: {:?})", cr));
    }
    let d = ulp_distance(fa, cr);
    if d <= 3 {
        return Ok(());
    }
    if d > 9 {
        return Err(format!("{} ulps away from the correctly rounded {:?}: got {:?}", d, cr, f));
    }
    if within_rel_2_50(&ex, fa) {
        Ok(())
    } else {
        Err(format!("relative error exceeds 2^-50: got {:?}, correctly rounded {:?}", f, cr))
    }
}

/// Full judgement of a number produced for a literal.
pub fn literal_matches(lit: &NumLit, actual: &RV, nofast: bool) -> Result<(), String> {
    match expect(lit) {
        Expect::Int(v) => match actual {
            RV::Int(a) if *a == v => Ok(()),
            other => Err(format!("expected the integer {}, got {}", v, other)),
        },
        Expect::Float | Expect::Band => match actual {
            RV::Float(f) => float_ok(lit, *f, nofast),
            other => Err(format!("expected a float, got {}", other)),
        },
        Expect::OutOfRange => Err(format!("literal exceeds the range of a double and must be rejected, got {}", actual)),
    }
}

/// C01's float clause: does reading back `printed` (the shortest form of `orig`) have to give
/// `orig` bit for bit? Always in the non-fast build; in the default build when the shortest form has
/// at most 15 significant digits and |scientific exponent| <= 22 (and the literal-level reading of
/// C05 agrees); otherwise C05 accuracy.
pub fn roundtrip_float_ok(orig: f64, lit: &NumLit, got: f64, nofast: bool) -> Result<(), String> {
    if nofast {
        return if got.to_bits() == orig.to_bits() { Ok(()) } else { Err(format!("non-fast build must be bit-exact: printed {:?}, read {:?}", orig, got)) };
    }
    let ex = exact_of(lit);
    let sci_exp = ex.e10 + ex.sig_digits as i64 - 1;
    if ex.sig_digits <= 15 && sci_exp.abs() <= 22 && demands_exact(lit, false) {
        return if got.to_bits() == orig.to_bits() { Ok(()) } else { Err(format!("bit-exact region: printed {:?}, read {:?}", orig, got)) };
    }
    float_ok(lit, got, false)
}

#[cfg(test)]
mod tests {
    use super::*;
    #[test]
    fn big_basics() {
        let b = Big::from_digits("18446744073709551616", 10);
        assert_eq!(b.bits(), 65);
        assert_eq!(b.cmp(&Big::pow2(64)), Ordering::Equal);
    }
}
