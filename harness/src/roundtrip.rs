//! Shared comparison helpers for the round-trip properties (C01, C02, C12, C13).

use crate::model::num::{correctly_rounded, expect, roundtrip_float_ok, Expect};
use crate::model::reader::decimal_literal;
use crate::rv::RV;

pub const NOFAST: bool = cfg!(feature = "nofast");

/// Literal the printer emits for a float (ryu's shortest form), parsed by the literal grammar.
pub fn float_literal(f: f64) -> Option<crate::rv::NumLit> {
    let mut b = ryu_like(f);
    if b.is_empty() {
        return None;
    }
    if b.starts_with('+') {
        b.remove(0);
    }
    decimal_literal(&b)
}

fn ryu_like(f: f64) -> String {
    // the printed form is obtained from the implementation's printer itself
    lexpr::to_string(&lexpr::Value::from(f)).unwrap_or_default()
}

/// `got` (re-read) against `orig` (what was printed): structural equality, floats per C01's clause.
pub fn cmp_roundtrip(orig: &RV, got: &RV) -> Result<(), String> {
    match (orig, got) {
        (RV::Float(a), RV::Float(b)) => {
            if a.to_bits() == b.to_bits() {
                return Ok(());
            }
            match float_literal(*a) {
                Some(lit) => roundtrip_float_ok(*a, &lit, *b, NOFAST),
                None => Err(format!("float {:?} re-read as {:?}; its printed form is not a decimal literal", a, b)),
            }
        }
        (RV::Cons(_, _), RV::Cons(_, _)) => {
            let (mut o, mut g) = (orig, got);
            loop {
                match (o, g) {
                    (RV::Cons(oa, od), RV::Cons(ga, gd)) => {
                        cmp_roundtrip(oa, ga)?;
                        o = od;
                        g = gd;
                    }
                    (x, y) => return cmp_roundtrip(x, y),
                }
            }
        }
        (RV::Vector(os), RV::Vector(gs)) => {
            if os.len() != gs.len() {
                return Err(format!("vector of {} elements re-read with {}", os.len(), gs.len()));
            }
            for (o, g) in os.iter().zip(gs.iter()) {
                cmp_roundtrip(o, g)?;
            }
            Ok(())
        }
        (o, g) => {
            if o == g {
                Ok(())
            } else {
                Err(format!("printed {}, re-read {}", crate::util::trunc(&o.to_string(), 200), crate::util::trunc(&g.to_string(), 200)))
            }
        }
    }
}

/// The reference reader's result (with literal nodes) against the original value.
pub fn matches_original(model: &RV, orig: &RV) -> Result<(), String> {
    match (model, orig) {
        (RV::NumLit(lit), RV::Int(i)) => match expect(lit) {
            Expect::Int(v) if v == *i => Ok(()),
            other => Err(format!("literal {} denotes {:?}, original integer {}", model, other, i)),
        },
        (RV::NumLit(lit), RV::Float(f)) => {
            if lit.frac_digits.is_none() && lit.exp.is_none() {
                return Err(format!("float {:?} printed as the integer literal {}", f, model));
            }
            let cr = correctly_rounded(lit);
            if cr.to_bits() == f.abs().to_bits() && lit.neg == f.is_sign_negative() {
                Ok(())
            } else {
                Err(format!("literal {} denotes {:?}, original float {:?}", model, if lit.neg { -cr } else { cr }, f))
            }
        }
        (RV::Cons(_, _), RV::Cons(_, _)) => {
            let (mut m, mut o) = (model, orig);
            loop {
                match (m, o) {
                    (RV::Cons(ma, md), RV::Cons(oa, od)) => {
                        matches_original(ma, oa)?;
                        m = md;
                        o = od;
                    }
                    (x, y) => return matches_original(x, y),
                }
            }
        }
        (RV::Vector(ms), RV::Vector(os)) => {
            if ms.len() != os.len() {
                return Err("vector length differs".into());
            }
            for (m, o) in ms.iter().zip(os.iter()) {
                matches_original(m, o)?;
            }
            Ok(())
        }
        (m, o) => {
            if m == o {
                Ok(())
            } else {
                Err(format!("reference reader reads {}, original {}", crate::util::trunc(&m.to_string(), 200), crate::util::trunc(&o.to_string(), 200)))
            }
        }
    }
}
