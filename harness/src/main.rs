//! `mc` — bounded-exhaustive model checker for the lexpr-rs properties C01..C20.
//!
//!   mc <Cxx> --tier quick|thorough [--only sub1,sub2] [--emit-json file]
//!   mc replay <file>
//!   mc child <op> <args...>          (E4: operations that may abort the process)
//!
//! Exit status: 0 property held on everything explored (known findings are reported, not
//! counted); 1 at least one violation; 2 machinery failure (never a verdict).

#![allow(clippy::all)]
#![allow(dead_code)]

mod domains;
mod par;
mod report;
mod rv;
mod util;
mod outcome;
mod roundtrip;
mod corpus;
#[cfg(feature = "full")]
mod serde_fam;
mod model {
    pub mod fold;
    pub mod list;
    pub mod num;
    pub mod pos;
    pub mod reader;
    pub mod tokens;
}
mod engine {
    pub mod child;
    pub mod choice;
    pub mod history;
}
mod props;

use report::{Ctx, Tier};

fn usage() -> ! {
    eprintln!("usage: mc <C01..C20> --tier quick|thorough [--only subs] | mc replay <file> | mc child <op> ...");
    std::process::exit(2)
}

/// SIGABRT: the code under test aborted the process (see report::aborted). Runs on the aborting
/// thread (on its alternate signal stack), so the thread-local worker index identifies the case.
extern "C" fn on_abort(_sig: i32) {
    // give the handler room to work: lift the address-space limit that may be the cause
    unsafe {
        let mut lim = libc::rlimit { rlim_cur: 0, rlim_max: 0 };
        if libc::getrlimit(libc::RLIMIT_AS, &mut lim) == 0 {
            lim.rlim_cur = lim.rlim_max;
            libc::setrlimit(libc::RLIMIT_AS, &lim);
        }
    }
    report::aborted(par::current_rank_of_this_thread());
}

fn main() {
    unsafe {
        let mut sa: libc::sigaction = std::mem::zeroed();
        sa.sa_sigaction = on_abort as usize;
        sa.sa_flags = libc::SA_ONSTACK;
        libc::sigemptyset(&mut sa.sa_mask);
        libc::sigaction(libc::SIGABRT, &sa, std::ptr::null_mut());
        // Soft address-space limit: code under test that allocates without bound (a list parser
        // that makes no progress) then fails to allocate and aborts — which the handler turns into
        // a verdict — instead of being killed by the kernel together with everything else.
        let gib: u64 = std::env::var("MC_AS_LIMIT_GIB").ok().and_then(|s| s.parse().ok()).unwrap_or(40);
        let mut lim = libc::rlimit { rlim_cur: 0, rlim_max: 0 };
        if libc::getrlimit(libc::RLIMIT_AS, &mut lim) == 0 {
            lim.rlim_cur = (gib << 30).min(lim.rlim_max);
            libc::setrlimit(libc::RLIMIT_AS, &lim);
        }
    }
    // Quiet panic messages from the code under test: every call is wrapped in catch_unwind and
    // the payload is recorded; the default hook would flood stderr.
    std::panic::set_hook(Box::new(|info| {
        if std::env::var("MC_SHOW_PANICS").is_ok() {
            eprintln!("panic: {}", info);
        }
        util::LAST_PANIC.with(|p| {
            *p.borrow_mut() = Some(format!("{}", info));
        });
    }));

    let args: Vec<String> = std::env::args().collect();
    if args.len() < 2 {
        usage();
    }
    let verif_dir = std::env::var("VERIF_DIR").unwrap_or_else(|_| "/verif".to_string());
    let repo = std::env::var("VERIF_REPO").unwrap_or_else(|_| "/repo".to_string());
    let seed: u64 = std::env::var("VERIF_SEED").ok().and_then(|s| s.parse().ok()).unwrap_or(0);
    match args[1].as_str() {
        "child" => {
            let code = engine::child::child_main(&args[2..]);
            std::process::exit(code);
        }
        "replay" => {
            if args.len() < 3 {
                usage();
            }
            let text = std::fs::read_to_string(&args[2]).unwrap_or_else(|e| {
                eprintln!("MACHINERY: cannot read {}: {}", args[2], e);
                std::process::exit(2)
            });
            let j: serde_json::Value = serde_json::from_str(&text).unwrap_or_else(|e| {
                eprintln!("MACHINERY: cannot parse {}: {}", args[2], e);
                std::process::exit(2)
            });
            let prop = j["property"].as_str().unwrap_or("").to_string();
            let ctx = Ctx {
                prop: prop.clone(),
                tier: Tier::Quick,
                seed,
                verif_dir,
                repo,
                hooks: cfg!(feature = "hooks"),
                nofast_bin: std::env::var("MC_NOFAST_BIN").ok(),
                only: None,
                threads: par::threads(),
            };
            let code = props::replay(&ctx, &j, &args[2]);
            std::process::exit(code);
        }
        p if p.starts_with('C') => {
            let mut tier = match std::env::var("VERIF_TIER").ok().as_deref() {
                Some("thorough") => Tier::Thorough,
                _ => Tier::Quick,
            };
            let mut only = std::env::var("MC_ONLY").ok();
            let mut emit: Option<String> = None;
            let mut i = 2;
            while i < args.len() {
                match args[i].as_str() {
                    "--tier" => {
                        i += 1;
                        tier = match args.get(i).map(|s| s.as_str()) {
                            Some("quick") => Tier::Quick,
                            Some("thorough") => Tier::Thorough,
                            _ => usage(),
                        };
                    }
                    "--only" => {
                        i += 1;
                        only = args.get(i).cloned();
                    }
                    "--emit-json" => {
                        i += 1;
                        emit = args.get(i).cloned();
                    }
                    _ => usage(),
                }
                i += 1;
            }
            let ctx = Ctx {
                prop: p.to_string(),
                tier,
                seed,
                verif_dir: verif_dir.clone(),
                repo,
                hooks: cfg!(feature = "hooks"),
                nofast_bin: std::env::var("MC_NOFAST_BIN").ok(),
                only,
                threads: par::threads(),
            };
            report::load_known(&verif_dir, p);
            let rep = match props::run(&ctx) {
                Some(r) => r,
                None => {
                    eprintln!("MACHINERY: unknown property or not available in this build: {}", p);
                    std::process::exit(2)
                }
            };
            if let Some(path) = emit {
                // child mode (no-fast-float build): hand the raw report to the parent
                std::fs::write(&path, serde_json::to_string(&rep.to_child_json()).unwrap()).expect("emit json");
                std::process::exit(0);
            }
            let code = rep.finish(&ctx);
            std::process::exit(code);
        }
        _ => usage(),
    }
}
