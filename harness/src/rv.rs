//! `RV`: the harness's own, boring value tree. Reference models produce and compare `RV`s;
//! values of the implementation are converted with `RV::from_value` (kind by kind, through
//! the public enum) so that model-side comparisons never run the implementation's `==`.

use lexpr::{Cons, Number, Value};
use std::fmt;
use std::hash::{Hash, Hasher};

#[derive(Clone, Debug)]
pub struct NumLit {
    pub neg: bool,
    pub radix: u32,
    /// digits of the integer part (ASCII, may have leading zeros, never empty)
    pub int_digits: String,
    /// digits after the '.', if any
    pub frac_digits: Option<String>,
    /// exponent (sign applied), if any; saturated to +-10^15
    pub exp: Option<i64>,
}

#[derive(Clone, Debug)]
pub enum RV {
    Nil,
    Null,
    Bool(bool),
    /// exact integer in [-2^63, 2^64-1]
    Int(i128),
    Float(f64),
    /// only produced by the reference reader: a numeric literal, judged by `model::num`
    NumLit(NumLit),
    Char(char),
    Str(String),
    Sym(String),
    Kw(String),
    Bytes(Vec<u8>),
    Cons(Box<RV>, Box<RV>),
    Vector(Vec<RV>),
}

impl RV {
    pub fn sym(s: &str) -> RV {
        RV::Sym(s.to_string())
    }
    pub fn kw(s: &str) -> RV {
        RV::Kw(s.to_string())
    }
    pub fn str(s: &str) -> RV {
        RV::Str(s.to_string())
    }
    pub fn cons(a: RV, b: RV) -> RV {
        RV::Cons(Box::new(a), Box::new(b))
    }
    pub fn list(xs: Vec<RV>) -> RV {
        RV::append(xs, RV::Null)
    }
    pub fn append(xs: Vec<RV>, tail: RV) -> RV {
        let mut acc = tail;
        for x in xs.into_iter().rev() {
            acc = RV::cons(x, acc);
        }
        acc
    }

    pub fn from_number(n: &Number) -> RV {
        if let Some(u) = n.as_u64() {
            RV::Int(u as i128)
        } else if let Some(i) = n.as_i64() {
            RV::Int(i as i128)
        } else {
            RV::Float(n.as_f64().unwrap())
        }
    }

    /// Structural conversion, iterative along the cdr spine.
    pub fn from_value(v: &Value) -> RV {
        match v {
            Value::Nil => RV::Nil,
            Value::Null => RV::Null,
            Value::Bool(b) => RV::Bool(*b),
            Value::Number(n) => RV::from_number(n),
            Value::Char(c) => RV::Char(*c),
            Value::String(s) => RV::Str(s.to_string()),
            Value::Symbol(s) => RV::Sym(s.to_string()),
            Value::Keyword(s) => RV::Kw(s.to_string()),
            Value::Bytes(b) => RV::Bytes(b.to_vec()),
            Value::Vector(xs) => RV::Vector(xs.iter().map(RV::from_value).collect()),
            Value::Cons(c) => {
                let mut cars = Vec::new();
                let mut cur: &Cons = c;
                let tail;
                loop {
                    cars.push(RV::from_value(cur.car()));
                    match cur.cdr() {
                        Value::Cons(next) => cur = next,
                        other => {
                            tail = RV::from_value(other);
                            break;
                        }
                    }
                }
                RV::append(cars, tail)
            }
        }
    }

    /// Build the implementation's value from the model value, using only enum constructors
    /// and `Cons::new` (never `Value::list`/`append`, which are themselves under test).
    pub fn to_value(&self) -> Value {
        match self {
            RV::Nil => Value::Nil,
            RV::Null => Value::Null,
            RV::Bool(b) => Value::Bool(*b),
            RV::Int(i) => {
                if *i >= 0 {
                    Value::Number(Number::from(*i as u64))
                } else {
                    Value::Number(Number::from(*i as i64))
                }
            }
            RV::Float(f) => Value::Number(Number::from(*f)),
            RV::NumLit(_) => panic!("NumLit has no implementation value"),
            RV::Char(c) => Value::Char(*c),
            RV::Str(s) => Value::String(s.clone().into_boxed_str()),
            RV::Sym(s) => Value::Symbol(s.clone().into_boxed_str()),
            RV::Kw(s) => Value::Keyword(s.clone().into_boxed_str()),
            RV::Bytes(b) => Value::Bytes(b.clone().into_boxed_slice()),
            RV::Vector(xs) => Value::Vector(xs.iter().map(|x| x.to_value()).collect::<Vec<_>>().into_boxed_slice()),
            RV::Cons(_, _) => {
                // iterative along the spine
                let mut cars = Vec::new();
                let mut cur = self;
                while let RV::Cons(a, d) = cur {
                    cars.push(a.to_value());
                    cur = d;
                }
                let mut acc = cur.to_value();
                for car in cars.into_iter().rev() {
                    acc = Value::Cons(Cons::new(car, acc));
                }
                acc
            }
        }
    }

    pub fn is_atom(&self) -> bool {
        !matches!(self, RV::Cons(_, _) | RV::Vector(_))
    }

    pub fn nodes(&self) -> usize {
        match self {
            RV::Cons(a, d) => 1 + a.nodes() + d.nodes(),
            RV::Vector(xs) => 1 + xs.iter().map(|x| x.nodes()).sum::<usize>(),
            _ => 1,
        }
    }

    pub fn contains_float(&self) -> bool {
        match self {
            RV::Float(_) => true,
            RV::Cons(a, d) => a.contains_float() || d.contains_float(),
            RV::Vector(xs) => xs.iter().any(|x| x.contains_float()),
            _ => false,
        }
    }

    pub fn any(&self, f: &dyn Fn(&RV) -> bool) -> bool {
        if f(self) {
            return true;
        }
        match self {
            RV::Cons(a, d) => a.any(f) || d.any(f),
            RV::Vector(xs) => xs.iter().any(|x| x.any(f)),
            _ => false,
        }
    }

    pub fn map(&self, f: &dyn Fn(&RV) -> Option<RV>) -> RV {
        if let Some(r) = f(self) {
            return r;
        }
        match self {
            RV::Cons(a, d) => RV::cons(a.map(f), d.map(f)),
            RV::Vector(xs) => RV::Vector(xs.iter().map(|x| x.map(f)).collect()),
            other => other.clone(),
        }
    }
}

/// Strict structural equality: floats bitwise, no NumLit.
impl PartialEq for RV {
    fn eq(&self, other: &RV) -> bool {
        use RV::*;
        match (self, other) {
            (Nil, Nil) | (Null, Null) => true,
            (Bool(a), Bool(b)) => a == b,
            (Int(a), Int(b)) => a == b,
            (Float(a), Float(b)) => a.to_bits() == b.to_bits(),
            (Char(a), Char(b)) => a == b,
            (Str(a), Str(b)) | (Sym(a), Sym(b)) | (Kw(a), Kw(b)) => a == b,
            (Bytes(a), Bytes(b)) => a == b,
            (Cons(a, d), Cons(a2, d2)) => {
                // iterate along the spine
                let (mut a, mut d, mut a2, mut d2) = (a, d, a2, d2);
                loop {
                    if **a != **a2 {
                        return false;
                    }
                    match (&**d, &**d2) {
                        (Cons(na, nd), Cons(na2, nd2)) => {
                            a = na;
                            d = nd;
                            a2 = na2;
                            d2 = nd2;
                        }
                        (x, y) => return x == y,
                    }
                }
            }
            (Vector(a), Vector(b)) => a == b,
            _ => false,
        }
    }
}
impl Eq for RV {}

impl Hash for RV {
    fn hash<H: Hasher>(&self, h: &mut H) {
        use RV::*;
        std::mem::discriminant(self).hash(h);
        match self {
            Nil | Null => {}
            Bool(b) => b.hash(h),
            Int(i) => i.hash(h),
            Float(f) => f.to_bits().hash(h),
            NumLit(n) => {
                n.neg.hash(h);
                n.radix.hash(h);
                n.int_digits.hash(h);
                n.frac_digits.hash(h);
                n.exp.hash(h);
            }
            Char(c) => c.hash(h),
            Str(s) | Sym(s) | Kw(s) => s.hash(h),
            Bytes(b) => b.hash(h),
            Cons(a, d) => {
                a.hash(h);
                d.hash(h);
            }
            Vector(xs) => {
                xs.len().hash(h);
                for x in xs {
                    x.hash(h);
                }
            }
        }
    }
}

/// Unambiguous rendering used in witnesses, samples and replay files.
impl fmt::Display for RV {
    fn fmt(&self, f: &mut fmt::Formatter<'_>) -> fmt::Result {
        use RV::*;
        match self {
            Nil => write!(f, "#nil"),
            Null => write!(f, "()"),
            Bool(true) => write!(f, "#t"),
            Bool(false) => write!(f, "#f"),
            Int(i) => write!(f, "{}", i),
            Float(x) => write!(f, "{:?}f", x),
            NumLit(n) => write!(
                f,
                "lit[r{} {}{}{}{}]",
                n.radix,
                if n.neg { "-" } else { "" },
                n.int_digits,
                n.frac_digits.as_ref().map(|d| format!(".{}", d)).unwrap_or_default(),
                n.exp.map(|e| format!("e{}", e)).unwrap_or_default()
            ),
            Char(c) => write!(f, "#\\{}", c.escape_default()),
            Str(s) => write!(f, "{:?}", s),
            Sym(s) => write!(f, "S{:?}", s),
            Kw(s) => write!(f, "K{:?}", s),
            Bytes(b) => write!(f, "#u8{:?}", b),
            Vector(xs) => {
                write!(f, "#(")?;
                for (i, x) in xs.iter().enumerate() {
                    if i > 0 {
                        write!(f, " ")?;
                    }
                    write!(f, "{}", x)?;
                }
                write!(f, ")")
            }
            Cons(_, _) => {
                write!(f, "(")?;
                let mut cur = self;
                let mut first = true;
                let mut n = 0;
                while let Cons(a, d) = cur {
                    if !first {
                        write!(f, " ")?;
                    }
                    first = false;
                    n += 1;
                    if n > 40 {
                        write!(f, "...")?;
                        return write!(f, ")");
                    }
                    write!(f, "{}", a)?;
                    cur = d;
                }
                if *cur != Null {
                    write!(f, " . {}", cur)?;
                }
                write!(f, ")")
            }
        }
    }
}

/// Show bytes for humans: printable ASCII as is, everything else as \xNN.
pub fn show_bytes(b: &[u8]) -> String {
    let mut s = String::new();
    for &c in b {
        match c {
            b'\\' => s.push_str("\\\\"),
            0x20..=0x7e => s.push(c as char),
            b'\n' => s.push_str("\\n"),
            _ => s.push_str(&format!("\\x{:02X}", c)),
        }
    }
    s
}

pub fn hex(b: &[u8]) -> String {
    b.iter().map(|c| format!("{:02x}", c)).collect()
}

pub fn unhex(s: &str) -> Vec<u8> {
    (0..s.len() / 2).map(|i| u8::from_str_radix(&s[2 * i..2 * i + 2], 16).unwrap()).collect()
}
