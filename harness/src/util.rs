//! Small helpers shared by all checks.

use std::cell::RefCell;
use std::panic::{catch_unwind, AssertUnwindSafe};

thread_local! {
    pub static LAST_PANIC: RefCell<Option<String>> = RefCell::new(None);
}

/// Run code under test; a panic becomes `Err(message)`.
pub fn guard<T>(f: impl FnOnce() -> T) -> Result<T, String> {
    match catch_unwind(AssertUnwindSafe(f)) {
        Ok(v) => Ok(v),
        Err(_) => {
            let msg = LAST_PANIC.with(|p| p.borrow_mut().take()).unwrap_or_else(|| "panic".to_string());
            Err(msg)
        }
    }
}

pub fn trunc(s: &str, n: usize) -> String {
    if s.len() <= n {
        s.to_string()
    } else {
        let mut e = n;
        while !s.is_char_boundary(e) {
            e -= 1;
        }
        format!("{}…[{} bytes]", &s[..e], s.len())
    }
}
