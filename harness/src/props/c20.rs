//! C20 — accessors, conversions and comparisons are coherent.

use crate::domains::{actx, f64_lattice, n64, str_domain};
use crate::par::par_ranks;
use crate::report::{Acc, Ctx, Report, Sub};
use crate::rv::RV;
use crate::util::guard;
use lexpr::{Cons, Number, Value};
use serde_json::{json, Value as J};
use std::borrow::Cow;

fn fail(acc: &mut Acc, sub: &str, kind: &str, rank: u64, witness: String, detail: String, case: J) {
    acc.violation(sub, kind, kind, rank, witness, detail, || case);
}

/// The eleven kinds; exactly one must hold. Returns the kind name per the model.
fn model_kind(v: &RV) -> &'static str {
    match v {
        RV::Nil => "nil",
        RV::Null => "null",
        RV::Bool(_) => "boolean",
        RV::Int(_) | RV::Float(_) | RV::NumLit(_) => "number",
        RV::Char(_) => "char",
        RV::Str(_) => "string",
        RV::Sym(_) => "symbol",
        RV::Kw(_) => "keyword",
        RV::Bytes(_) => "bytes",
        RV::Cons(_, _) => "cons",
        RV::Vector(_) => "vector",
    }
}

fn check_kinds(acc: &mut Acc, rank: u64, m: &RV) {
    let v = m.to_value();
    let case = json!({"value": m.to_string()});
    let w = format!("value={}", m);
    let preds: [(&str, bool); 11] = [
        ("nil", v.is_nil()),
        ("null", v.is_null()),
        ("boolean", v.is_boolean()),
        ("number", v.is_number()),
        ("char", v.is_char()),
        ("string", v.is_string()),
        ("symbol", v.is_symbol()),
        ("keyword", v.is_keyword()),
        ("bytes", v.is_bytes()),
        ("cons", v.is_cons()),
        ("vector", v.is_vector()),
    ];
    let holding: Vec<&str> = preds.iter().filter(|p| p.1).map(|p| p.0).collect();
    if holding.len() != 1 || holding[0] != model_kind(m) {
        fail(acc, "kinds", "exactly-one-kind", rank, w.clone(), format!("predicates holding: {:?}, expected [{}]", holding, model_kind(m)), case.clone());
    }
    let pairs: [(&str, bool, bool); 14] = [
        ("nil", v.is_nil(), v.as_nil().is_some()),
        ("null", v.is_null(), v.as_null().is_some()),
        ("boolean", v.is_boolean(), v.as_bool().is_some()),
        ("number", v.is_number(), v.as_number().is_some()),
        ("i64", v.is_i64(), v.as_i64().is_some()),
        ("u64", v.is_u64(), v.as_u64().is_some()),
        ("char", v.is_char(), v.as_char().is_some()),
        ("string", v.is_string(), v.as_str().is_some()),
        ("symbol", v.is_symbol(), v.as_symbol().is_some()),
        ("keyword", v.is_keyword(), v.as_keyword().is_some()),
        ("bytes", v.is_bytes(), v.as_bytes().is_some()),
        ("cons", v.is_cons(), v.as_cons().is_some()),
        ("pair", v.is_cons(), v.as_pair().is_some()),
        ("vector", v.is_vector(), v.as_slice().is_some()),
    ];
    for (n, is, as_) in pairs {
        if is != as_ {
            fail(acc, "kinds", "is-as-disagree", rank, w.clone(), format!("is_{}() = {} but as_{}().is_some() = {}", n, is, n, as_), case.clone());
        }
    }
    if v.is_f64() && v.as_f64().is_none() {
        fail(acc, "kinds", "is-as-disagree", rank, w.clone(), "is_f64() but as_f64() is None".into(), case.clone());
    }
    if v.is_number() != v.as_f64().is_some() {
        fail(acc, "kinds", "as_f64-number", rank, w.clone(), "as_f64() is Some iff the value is a number".into(), case.clone());
    }
    let expect_name = match m {
        RV::Str(s) | RV::Sym(s) | RV::Kw(s) => Some(s.as_str()),
        _ => None,
    };
    if v.as_name() != expect_name {
        fail(acc, "kinds", "as_name", rank, w.clone(), format!("as_name() = {:?}, expected {:?}", v.as_name(), expect_name), case.clone());
    }
    // mutable accessors agree too
    let mut v2 = v.clone();
    if v2.as_cons_mut().is_some() != v.is_cons() || v2.as_slice_mut().is_some() != v.is_vector() {
        fail(acc, "kinds", "mut-accessors", rank, w.clone(), "as_cons_mut / as_slice_mut disagree with the predicates".into(), case.clone());
    }
    // payloads
    match m {
        RV::Bool(b) => {
            if v.as_bool() != Some(*b) {
                fail(acc, "kinds", "payload", rank, w, "as_bool".into(), case);
            }
        }
        RV::Char(c) => {
            if v.as_char() != Some(*c) {
                fail(acc, "kinds", "payload", rank, w, "as_char".into(), case);
            }
        }
        RV::Str(s) => {
            if v.as_str() != Some(s.as_str()) {
                fail(acc, "kinds", "payload", rank, w, "as_str".into(), case);
            }
        }
        RV::Sym(s) => {
            if v.as_symbol() != Some(s.as_str()) {
                fail(acc, "kinds", "payload", rank, w, "as_symbol".into(), case);
            }
        }
        RV::Kw(s) => {
            if v.as_keyword() != Some(s.as_str()) {
                fail(acc, "kinds", "payload", rank, w, "as_keyword".into(), case);
            }
        }
        RV::Bytes(b) => {
            if v.as_bytes() != Some(b.as_slice()) {
                fail(acc, "kinds", "payload", rank, w, "as_bytes".into(), case);
            }
        }
        RV::Cons(a, d) => {
            let ok = v.as_pair().map(|(x, y)| RV::from_value(x) == **a && RV::from_value(y) == **d).unwrap_or(false);
            if !ok {
                fail(acc, "kinds", "payload", rank, w, "as_pair".into(), case);
            }
        }
        RV::Vector(xs) => {
            let ok = v.as_slice().map(|s| s.iter().map(RV::from_value).collect::<Vec<_>>() == *xs).unwrap_or(false);
            if !ok {
                fail(acc, "kinds", "payload", rank, w, "as_slice".into(), case);
            }
        }
        _ => {}
    }
}

/// Integer conversion coherence for x of a given width.
fn check_int(acc: &mut Acc, rank: u64, ty: &str, x: i128, v: Value, n: Number) {
    let case = json!({"type": ty, "x": x.to_string()});
    let w = format!("{}::{}", ty, x);
    let fits_i64 = x >= i64::MIN as i128 && x <= i64::MAX as i128;
    let fits_u64 = x >= 0 && x <= u64::MAX as i128;
    let exp_i = if fits_i64 { Some(x as i64) } else { None };
    let exp_u = if fits_u64 { Some(x as u64) } else { None };
    let exp_f = if x >= 0 { x as u64 as f64 } else { x as i64 as f64 };
    let checks = [
        ("Value::as_i64", v.as_i64() == exp_i),
        ("Value::as_u64", v.as_u64() == exp_u),
        ("Value::as_f64", v.as_f64().map(|f| f.to_bits()) == Some(exp_f.to_bits())),
        ("Value::is_i64", v.is_i64() == fits_i64),
        ("Value::is_u64", v.is_u64() == fits_u64),
        ("Value::is_f64", !v.is_f64()),
        ("Value::is_number", v.is_number()),
        ("Number::as_i64", n.as_i64() == exp_i),
        ("Number::as_u64", n.as_u64() == exp_u),
        ("Number::as_f64", n.as_f64().map(|f| f.to_bits()) == Some(exp_f.to_bits())),
        ("Number::is_i64", n.is_i64() == fits_i64),
        ("Number::is_u64", n.is_u64() == fits_u64),
        ("Number::is_f64", !n.is_f64()),
        ("as_number", v.as_number() == Some(&n)),
        ("From<Number>", Value::from(n.clone()) == v),
        ("same-integer-same-value", v == if x >= 0 { Value::from(x as u64) } else { Value::from(x as i64) }),
        ("Display", n.to_string() == x.to_string()),
    ];
    for (name, ok) in checks {
        if !ok {
            fail(acc, "int-conversions", name, rank, w.clone(), format!("{} incoherent for {} (as_i64={:?} as_u64={:?} as_f64={:?})", name, w, v.as_i64(), v.as_u64(), v.as_f64()), case.clone());
        }
    }
}

fn int_case(acc: &mut Acc, rank: u64, ty: &str, x: i128) {
    macro_rules! go {
        ($t:ty) => {{
            let p = x as $t;
            check_int(acc, rank, ty, x, Value::from(p), Number::from(p));
        }};
    }
    match ty {
        "i8" => go!(i8),
        "u8" => go!(u8),
        "i16" => go!(i16),
        "u16" => go!(u16),
        "i32" => go!(i32),
        "u32" => go!(u32),
        "i64" => go!(i64),
        "u64" => go!(u64),
        _ => {}
    }
}

fn ty_range(ty: &str) -> (i128, i128) {
    match ty {
        "i8" => (i8::MIN as i128, i8::MAX as i128),
        "u8" => (0, u8::MAX as i128),
        "i16" => (i16::MIN as i128, i16::MAX as i128),
        "u16" => (0, u16::MAX as i128),
        "i32" => (i32::MIN as i128, i32::MAX as i128),
        "u32" => (0, u32::MAX as i128),
        "i64" => (i64::MIN as i128, i64::MAX as i128),
        _ => (0, u64::MAX as i128),
    }
}

fn check_f64(acc: &mut Acc, rank: u64, x: f64, via32: Option<f32>) {
    let (v, n) = match via32 {
        Some(f) => (Value::from(f), Number::from(f)),
        None => (Value::from(x), Number::from(x)),
    };
    let checks = [
        ("as_f64-bits", v.as_f64().map(|f| f.to_bits()) == Some(x.to_bits())),
        ("Number::as_f64-bits", n.as_f64().map(|f| f.to_bits()) == Some(x.to_bits())),
        ("float-not-integer", v.as_i64().is_none() && v.as_u64().is_none() && !v.is_i64() && !v.is_u64() && n.as_i64().is_none() && n.as_u64().is_none() && !n.is_i64() && !n.is_u64()),
        ("is_f64", v.is_f64() && n.is_f64() && v.is_number()),
        ("from_f64", Number::from_f64(x).is_some() == x.is_finite()),
        ("from_f64-payload", Number::from_f64(x).map(|n| n.as_f64().map(|f| f.to_bits())) == if x.is_finite() { Some(Some(x.to_bits())) } else { None }),
    ];
    for (name, ok) in checks {
        if !ok {
            let (w, case) = match via32 {
                Some(f) => (format!("f32 bits {:#010x}", f.to_bits()), json!({"f32_bits": f.to_bits()})),
                None => (format!("f64 bits {:#018x}", x.to_bits()), json!({"f64_bits": x.to_bits().to_string()})),
            };
            fail(acc, "float-conversions", name, rank, w, format!("{} incoherent", name), case);
        }
    }
}

// ------------------------------------------------------------------ comparisons

#[derive(Clone, Debug)]
enum Prim {
    I(&'static str, i128),
    F32(f32),
    F64(f64),
    B(bool),
    S(String),
}

fn prims() -> Vec<Prim> {
    let mut v = Vec::new();
    let lattice = n64();
    for ty in ["i8", "u8", "i16", "u16", "i32", "u32", "i64", "u64"] {
        let (lo, hi) = ty_range(ty);
        let mut xs: Vec<i128> = lattice.iter().copied().filter(|x| *x >= lo && *x <= hi).collect();
        if xs.len() > 70 {
            // keep the extremes and the neighbourhood of 0 and of every width boundary
            let keep: Vec<i128> = xs
                .iter()
                .copied()
                .filter(|x| {
                    let a = x.abs();
                    a <= 2 || [7, 8, 15, 16, 31, 32, 63, 64].iter().any(|k| ((1i128 << k) - a).abs() <= 1) || *x == lo || *x == hi
                })
                .collect();
            xs = keep;
        }
        for x in xs {
            v.push(Prim::I(ty, x));
        }
    }
    for f in [0.0f32, -0.0, 1.0, -1.0, 1.5, 0.1, 255.0, 256.0, 16777216.0, 16777217.0, f32::MAX, f32::MIN_POSITIVE, f32::INFINITY, f32::NEG_INFINITY, f32::NAN, 9.223372e18, 1.8446744e19] {
        v.push(Prim::F32(f));
    }
    for f in [0.0f64, -0.0, 1.0, -1.0, 1.5, 0.1, 5.0, -7.0, 255.0, 9007199254740992.0, 9007199254740993.0, 9223372036854775807.0, 9223372036854775808.0, 18446744073709551615.0, 1e21, f64::MAX, f64::MIN_POSITIVE, f64::INFINITY, f64::NEG_INFINITY, f64::NAN, 0.1f32 as f64] {
        v.push(Prim::F64(f));
    }
    v.push(Prim::B(true));
    v.push(Prim::B(false));
    for s in ["", "a", "k", "s", "nil", "t", "λ", "a b", "#t", "5"] {
        v.push(Prim::S(s.to_string()));
    }
    v
}

fn cmp_values() -> Vec<RV> {
    let mut v = actx();
    for x in n64() {
        v.push(RV::Int(x));
    }
    let mut fl = Vec::new();
    crate::domains::specials_f64(&mut fl);
    for (i, f) in fl.iter().enumerate() {
        if i % 29 == 0 || f.abs() < 1e3 && f.fract() == 0.0 {
            v.push(RV::Float(*f));
        }
    }
    for f in [5.0, -7.0, 255.0, 0.1f32 as f64, 9223372036854775808.0, 18446744073709551616.0, f64::INFINITY, f64::NEG_INFINITY, f64::NAN, 16777217.0] {
        v.push(RV::Float(f));
    }
    for s in ["", "a", "k", "s", "nil", "t", "λ", "a b", "#t", "5"] {
        v.push(RV::str(s));
        v.push(RV::sym(s));
        v.push(RV::kw(s));
    }
    v.push(RV::list(vec![RV::Int(1)]));
    v.push(RV::Vector(vec![RV::Int(1)]));
    v
}

fn check_cmp(acc: &mut Acc, rank: u64, m: &RV, p: &Prim) {
    let mut v = m.to_value();
    let w = format!("value={} prim={:?}", m, p);
    let case = json!({"value": m.to_string(), "prim": format!("{:?}", p)});
    let mut report = |acc: &mut Acc, what: &str, got: (bool, bool, bool, bool), expect: bool| {
        if got != (expect, expect, expect, expect) {
            fail(acc, "comparisons", what, rank, w.clone(), format!("(v==p, p==v, &v==p, &mut v==p) = {:?}, reference comparison = {}", got, expect), case.clone());
        }
    };
    macro_rules! cmp {
        ($p:expr) => {{
            let p = $p;
            let a = v == p;
            let b = p == v;
            let c = &v == p;
            let d = &mut v == p;
            (a, b, c, d)
        }};
    }
    match p {
        Prim::I(ty, x) => {
            let signed = ty.starts_with('i');
            let expect = if signed { v.as_i64() == Some(*x as i64) } else { v.as_u64() == Some(*x as u64) };
            let got = match *ty {
                "i8" => cmp!(*x as i8),
                "u8" => cmp!(*x as u8),
                "i16" => cmp!(*x as i16),
                "u16" => cmp!(*x as u16),
                "i32" => cmp!(*x as i32),
                "u32" => cmp!(*x as u32),
                "i64" => cmp!(*x as i64),
                _ => cmp!(*x as u64),
            };
            report(acc, "int", got, expect);
        }
        Prim::F32(f) => {
            let expect = v.as_f64().map_or(false, |x| x == *f as f64);
            let got = cmp!(*f);
            report(acc, "f32", got, expect);
        }
        Prim::F64(f) => {
            let expect = v.as_f64().map_or(false, |x| x == *f);
            let got = cmp!(*f);
            report(acc, "f64", got, expect);
        }
        Prim::B(b) => {
            let expect = v.as_bool() == Some(*b);
            let got = cmp!(*b);
            report(acc, "bool", got, expect);
        }
        Prim::S(s) => {
            let expect = v.as_str() == Some(s.as_str());
            let st: &str = s.as_str();
            let a = (v == *st, *st == v, v == st, st == v);
            report(acc, "str", a, expect);
            let b = (v == *s, *s == v, v == s.clone(), s.clone() == v);
            report(acc, "String", b, expect);
        }
    }
}

fn check_from_impls(acc: &mut Acc, rank: u64, s: &str) {
    let w = format!("string={:?}", s);
    let case = json!({"string": s});
    let vs: Vec<(&str, Value)> = vec![
        ("From<&str>", Value::from(s)),
        ("From<String>", Value::from(s.to_string())),
        ("From<Box<str>>", Value::from(s.to_string().into_boxed_str())),
        ("From<Cow::Borrowed>", Value::from(Cow::Borrowed(s))),
        ("From<Cow::Owned>", Value::from(Cow::<str>::Owned(s.to_string()))),
        ("Value::string", Value::string(s)),
    ];
    for (n, v) in &vs {
        if v.as_str() != Some(s) || !v.is_string() || v.as_name() != Some(s) {
            fail(acc, "payload", n, rank, w.clone(), format!("{} lost the string payload", n), case.clone());
        }
    }
    let sy = Value::symbol(s);
    let kw = Value::keyword(s);
    if sy.as_symbol() != Some(s) || kw.as_keyword() != Some(s) || sy.as_str().is_some() || kw.as_str().is_some() {
        fail(acc, "payload", "symbol/keyword", rank, w.clone(), "constructor lost the name".into(), case.clone());
    }
    let b = s.as_bytes();
    for (n, v) in [("From<&[u8]>", Value::from(b)), ("From<Vec<u8>>", Value::from(b.to_vec())), ("From<Box<[u8]>>", Value::from(b.to_vec().into_boxed_slice())), ("Value::bytes", Value::bytes(b.to_vec()))] {
        if v.as_bytes() != Some(b) || !v.is_bytes() {
            fail(acc, "payload", n, rank, w.clone(), format!("{} lost the bytes", n), case.clone());
        }
    }
    for c in s.chars() {
        if Value::from(c).as_char() != Some(c) {
            fail(acc, "payload", "From<char>", rank, w.clone(), "char payload".into(), case.clone());
        }
    }
    // containers
    let a = Value::from(s);
    let d = Value::symbol(s);
    let pair = Value::from((a.clone(), d.clone()));
    let cons = Value::from(Cons::new(a.clone(), d.clone()));
    let pair_ok = |v: &Value| v.as_pair().map(|(x, y)| x == &a && y == &d).unwrap_or(false);
    if !pair_ok(&pair) || !pair_ok(&cons) || pair != cons {
        fail(acc, "payload", "From<pair/Cons>", rank, w.clone(), "pair payload".into(), case.clone());
    }
    let elts = vec![a.clone(), d.clone(), Value::from(true)];
    let v1 = Value::from(elts.clone());
    let v2 = Value::from(elts.clone().into_boxed_slice());
    let v3 = Value::vector(elts.clone());
    if v1.as_slice() != Some(&elts[..]) || v1 != v2 || v1 != v3 {
        fail(acc, "payload", "From<Vec<Value>>", rank, w.clone(), "vector payload".into(), case.clone());
    }
    for bb in [true, false] {
        if Value::from(bb).as_bool() != Some(bb) {
            fail(acc, "payload", "From<bool>", rank, w.clone(), "bool payload".into(), case.clone());
        }
    }
}

pub fn replay(sub: &str, case: &J, acc: &mut Acc) {
    // Replay re-runs the recorded case by scanning the (small) domain for the rendered witness.
    match sub {
        "int-conversions" => {
            let ty = case["type"].as_str().unwrap_or("").to_string();
            let x: i128 = case["x"].as_str().unwrap_or("0").parse().unwrap_or(0);
            let tys = ["i8", "u8", "i16", "u16", "i32", "u32", "i64", "u64"];
            if let Some(t) = tys.iter().find(|t| **t == ty) {
                int_case(acc, 0, t, x);
            }
        }
        "float-conversions" => {
            if let Some(b) = case["f32_bits"].as_u64() {
                let f = f32::from_bits(b as u32);
                check_f64(acc, 0, f as f64, Some(f));
            } else if let Some(s) = case["f64_bits"].as_str() {
                let f = f64::from_bits(s.parse().unwrap_or(0));
                check_f64(acc, 0, f, None);
            }
        }
        "kinds" => {
            let want = case["value"].as_str().unwrap_or("");
            for m in kinds_domain() {
                if m.to_string() == want {
                    check_kinds(acc, 0, &m);
                    break;
                }
            }
        }
        "comparisons" => {
            let want = case["value"].as_str().unwrap_or("");
            let wantp = case["prim"].as_str().unwrap_or("");
            for m in cmp_values() {
                if m.to_string() == want {
                    for p in prims() {
                        if format!("{:?}", p) == wantp {
                            check_cmp(acc, 0, &m, &p);
                        }
                    }
                }
            }
        }
        "payload" => {
            check_from_impls(acc, 0, case["string"].as_str().unwrap_or(""));
        }
        _ => {}
    }
}

fn kinds_domain() -> Vec<RV> {
    let mut v = cmp_values();
    let atoms = crate::domains::a12();
    for s in crate::domains::shapes(2, 2) {
        for a in &atoms {
            for b in &atoms {
                v.push(s.build(&mut vec![a.clone(), b.clone()].into_iter()));
            }
        }
    }
    v
}

pub fn run(ctx: &Ctx) -> Report {
    let mut rep = Report::new(ctx, "exploration");
    rep.assume("the Rust primitive payload is the reference; `as` casts and std float equality are trusted");

    if ctx.want("kinds") {
        let dom = kinds_domain();
        let sub = Sub::new("kinds", "every value of the comparison value set plus all two-leaf shapes over 12 atoms: exactly one of the 11 kind predicates, every is_x/as_x pair, as_name, payload accessors; non-trivial = every case (each exercises all predicates)", &format!("{} values", dom.len()));
        let accs = par_ranks(dom.len() as u64, |rank, acc| {
            let m = &dom[rank as usize];
            acc.evals += 1;
            acc.nontrivial += 1;
            acc.outcome(&model_kind(m));
            acc.sample(rank, || m.to_string());
            if let Err(p) = guard(|| check_kinds(acc, rank, m)) {
                fail(acc, "kinds", "panic", rank, format!("value={}", m), p, json!({"value": m.to_string()}));
            }
        });
        rep.absorb(sub, accs);
    }
    if ctx.want("int-conversions") {
        // complete sweeps of the 8- and 16-bit types, boundary lattice for 32/64-bit
        let mut cases: Vec<(&'static str, i128)> = Vec::new();
        for ty in ["i8", "u8", "i16", "u16"] {
            let (lo, hi) = ty_range(ty);
            for x in lo..=hi {
                cases.push((ty, x));
            }
        }
        let lattice = n64();
        for ty in ["i32", "u32", "i64", "u64"] {
            let (lo, hi) = ty_range(ty);
            for &x in lattice.iter().filter(|x| **x >= lo && **x <= hi) {
                cases.push((ty, x));
            }
        }
        let sub = Sub::new("int-conversions", "From<T> for Value and Number for all eight integer widths: every i8/u8/i16/u16 value and the N64 boundary lattice clipped to i32/u32/i64/u64; as_i64/as_u64/as_f64/is_* compared with the Rust payload; non-trivial = non-zero value", &format!("{} (type, value) pairs", cases.len()));
        let accs = par_ranks(cases.len() as u64, |rank, acc| {
            let (ty, x) = cases[rank as usize];
            acc.evals += 1;
            if x != 0 {
                acc.nontrivial += 1;
            }
            acc.outcome(&(ty, x.signum(), x.abs() > i64::MAX as i128));
            acc.sample(rank, || format!("{}::{}", ty, x));
            if let Err(p) = guard(|| int_case(acc, rank, ty, x)) {
                fail(acc, "int-conversions", "panic", rank, format!("{}::{}", ty, x), p, json!({"type": ty, "x": x.to_string()}));
            }
        });
        rep.absorb(sub, accs);
    }
    if ctx.want("float-conversions") {
        // f32: complete in thorough; in quick every 65536th bit pattern plus all exponent boundaries
        let step: u64 = if ctx.tier.thorough() { 1 } else { 257 };
        let n32 = (1u64 << 32) / step + 1;
        let sub = Sub::new(
            "float-conversions-f32",
            "From<f32>: as_f64 is the exact widening (bitwise), never an integer, is_f64; thorough: all 2^32 bit patterns, quick: every 257th pattern (coprime stride, hits every exponent) plus the boundaries; non-trivial = finite non-zero",
            &format!("{} f32 bit patterns (stride {})", n32, step),
        );
        let accs = par_ranks(n32, |rank, acc| {
            let bits = (rank * step).min(u32::MAX as u64) as u32;
            let f = f32::from_bits(bits);
            acc.evals += 1;
            if f.is_finite() && f != 0.0 {
                acc.nontrivial += 1;
            }
            if rank % 1024 == 0 {
                acc.outcome(&(bits >> 23));
            }
            acc.sample(rank, || format!("f32 bits {:#010x} = {:?}", bits, f));
            check_f64(acc, rank, f as f64, Some(f));
        });
        rep.absorb(sub, accs);
        let mut dom = f64_lattice(if ctx.tier.thorough() { 9999 } else { 99 }, 1);
        for x in [f64::INFINITY, f64::NEG_INFINITY, f64::NAN, -f64::NAN] {
            dom.push(x);
        }
        for b in [0u32, 1, 0x7f7fffff, 0x7f800000, 0x7f800001, 0x7fc00000, 0x80000000, 0xff800000, 0xffc00000, 0x00800000, 0x007fffff, 0x3f800000] {
            dom.push(f32::from_bits(b) as f64);
        }
        let sub = Sub::new("float-conversions-f64", "From<f64> over the F64 lattice (d x 10^e, powers of two and neighbours, extremes) plus +-inf and NaN: as_f64 bitwise unchanged, never an integer, from_f64 is Some iff finite; non-trivial = finite non-zero", &format!("{} doubles", dom.len()));
        let accs = par_ranks(dom.len() as u64, |rank, acc| {
            let x = dom[rank as usize];
            acc.evals += 1;
            if x.is_finite() && x != 0.0 {
                acc.nontrivial += 1;
            }
            if rank % 64 == 0 {
                acc.outcome(&(x.to_bits() >> 52));
            }
            acc.sample(rank, || format!("{:?}", x));
            check_f64(acc, rank, x, None);
        });
        rep.absorb(sub, accs);
    }
    if ctx.want("payload") {
        let mut strs = str_domain(if ctx.tier.thorough() { 3 } else { 2 });
        strs.push("x".repeat(10_000));
        let sub = Sub::new("payload", "every From impl for strings, byte slices, chars, bools, pairs, Cons, vectors: the accessor returns exactly what was put in; strings of length <= 2 (thorough 3) over the 23-char trouble alphabet plus one of 10^4 chars; non-trivial = non-empty string", &format!("{} strings x 20 conversions", strs.len()));
        let accs = par_ranks(strs.len() as u64, |rank, acc| {
            let s = &strs[rank as usize];
            acc.evals += 1;
            if !s.is_empty() {
                acc.nontrivial += 1;
            }
            acc.outcome(&s.len());
            acc.sample(rank, || format!("{:?}", crate::util::trunc(s, 40)));
            if let Err(p) = guard(|| check_from_impls(acc, rank, s)) {
                fail(acc, "payload", "panic", rank, format!("string={:?}", s), p, json!({"string": s}));
            }
        });
        rep.absorb(sub, accs);
    }
    if ctx.want("comparisons") {
        let vals = cmp_values();
        let ps = prims();
        let total = (vals.len() * ps.len()) as u64;
        let sub = Sub::new(
            "comparisons",
            "every value of a set with one value per kind, the N64 integer lattice and float boundaries x every primitive of a set covering the boundaries of all 8 integer types, f32, f64, bool, &str, String; v==p, p==v, &v==p, &mut v==p must all equal the reference comparison through as_i64 (signed), as_u64 (unsigned), as_f64, as_bool, as_str; non-trivial = the reference comparison is true or the value is a number compared with a number",
            &format!("{} values x {} primitives = {} pairs", vals.len(), ps.len(), total),
        );
        let np = ps.len() as u64;
        let accs = par_ranks(total, |rank, acc| {
            let m = &vals[(rank / np) as usize];
            let p = &ps[(rank % np) as usize];
            acc.evals += 1;
            let numnum = matches!(m, RV::Int(_) | RV::Float(_)) && matches!(p, Prim::I(_, _) | Prim::F32(_) | Prim::F64(_));
            if numnum {
                acc.nontrivial += 1;
            }
            acc.outcome(&(model_kind(m), std::mem::discriminant(p)));
            acc.sample(rank, || format!("{} vs {:?}", m, p));
            if let Err(pn) = guard(|| check_cmp(acc, rank, m, p)) {
                fail(acc, "comparisons", "panic", rank, format!("value={} prim={:?}", m, p), pn, json!({"value": m.to_string(), "prim": format!("{:?}", p)}));
            }
        });
        rep.absorb(sub, accs);
    }
    rep
}
