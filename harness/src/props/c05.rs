//! C05 — numeric literals denote their exact mathematical value (both feature builds).

use crate::domains::{f64_lattice, n64};
use crate::model::num::{expect, literal_matches, Big, Expect};
use crate::model::reader::decimal_literal;
use crate::outcome::{parse_slice, Outcome};
use crate::par::{count_upto, par_ranks, unrank_string};
use crate::report::{Acc, Ctx, Report, Sub};
use crate::roundtrip::NOFAST;
use crate::rv::{NumLit, RV};
use crate::util::{guard, trunc};
use lexpr::parse::Options;
use lexpr::Value;
use serde_json::{json, Value as J};

fn lit_class(lit: &NumLit) -> String {
    format!(
        "r{}{}{}{}",
        lit.radix,
        if lit.frac_digits.is_some() { "+frac" } else { "" },
        if lit.exp.is_some() { "+exp" } else { "" },
        if lit.int_digits.len() + lit.frac_digits.as_ref().map(|f| f.len()).unwrap_or(0) > 19 { "+long" } else { "" }
    )
}

/// A literal text with its known structure.
pub fn check_literal(acc: &mut Acc, sub: &str, rank: u64, text: &str, lit: &NumLit) {
    acc.evals += 1;
    let case = || json!({"text": text});
    let w = || format!("literal={:?}", trunc(text, 120));
    let exp = expect(lit);
    let out = parse_slice(text.as_bytes(), Options::default());
    // the three sources agree (C06) — here only from_str is added as a second entry point
    let out2 = crate::outcome::parse_str(text, Options::default());
    if out.sans_loc() != out2.sans_loc() {
        acc.violation(sub, "entry-points-differ", "entry-points-differ", rank, w(), format!("from_slice: {} ; from_str: {}", out.short(), out2.short()), case);
    }
    let cls = |k: &str| format!("{}:{}", k, lit_class(lit));
    acc.outcome(&(std::mem::discriminant(&exp), out.is_ok()));
    match (&exp, &out) {
        (_, Outcome::Panic(p)) => acc.violation(sub, "panic", &cls("panic"), rank, w(), p.clone(), case),
        (Expect::OutOfRange, Outcome::Ok(v)) => acc.violation(sub, "too-large-not-rejected", &cls("too-large-not-rejected"), rank, w(), format!("a magnitude beyond the range of a double must be rejected, got {}", v), case),
        (Expect::OutOfRange, Outcome::Err(_)) => {
            acc.nontrivial += 1;
        }
        (Expect::Band, Outcome::Err(_)) => {}
        (Expect::Band, Outcome::Ok(v)) | (Expect::Float, Outcome::Ok(v)) | (Expect::Int(_), Outcome::Ok(v)) => {
            acc.nontrivial += 1;
            if let Err(e) = literal_matches(lit, v, NOFAST) {
                let kind = match v {
                    RV::Float(f) if !f.is_finite() => "non-finite-result",
                    RV::Int(_) | RV::Float(_) => "wrong-value",
                    _ => "not-a-number",
                };
                acc.violation(sub, kind, &cls(kind), rank, w(), e, case);
            }
        }
        (_, Outcome::Err(e)) => acc.violation(sub, "literal-rejected", &cls("literal-rejected"), rank, w(), format!("a well-formed literal was rejected: {}", Outcome::Err(e.clone()).short()), case),
    }
}

/// A text that is NOT a literal of the grammar: it must not be read as a number.
fn check_non_literal(acc: &mut Acc, sub: &str, rank: u64, text: &str) {
    acc.evals += 1;
    let out = parse_slice(text.as_bytes(), Options::default());
    match &out {
        Outcome::Ok(RV::Int(_)) | Outcome::Ok(RV::Float(_)) => {
            acc.violation(sub, "non-literal-read-as-number", "non-literal-read-as-number", rank, format!("text={:?}", text), format!("not a numeric literal of the grammar, but read as {}", out.short()), || json!({"text": text}));
        }
        Outcome::Panic(p) => acc.violation(sub, "panic", "panic", rank, format!("text={:?}", text), p.clone(), || json!({"text": text})),
        _ => {}
    }
    acc.outcome(&out.coarse());
}

/// Extended magnitude lattice: N64 plus 2^k, 2^k +- 1 for k <= 300 and powers of ten up to 10^90.
fn magnitudes() -> Vec<Big> {
    let mut v: Vec<Big> = Vec::new();
    for x in n64() {
        if x >= 0 {
            v.push(Big::from_digits(&x.to_string(), 10));
        }
    }
    for k in (65..=300).step_by(1) {
        let p = Big::pow2(k);
        let mut a = p.clone();
        a.add_small(1);
        let mut b = p.clone();
        b.sub_small(1);
        v.push(p);
        if k % 5 == 0 || k < 72 {
            v.push(a);
            v.push(b);
        }
    }
    for k in 20..=90u64 {
        let p = Big::pow10(k);
        let mut a = p.clone();
        a.add_small(1);
        let mut b = p.clone();
        b.sub_small(1);
        v.push(p);
        if k % 3 == 0 {
            v.push(a);
            v.push(b);
        }
    }
    // near the top of the double range
    for k in [1020usize, 1023, 1024, 1025, 1030] {
        let p = Big::pow2(k);
        let mut b = p.clone();
        b.sub_small(1);
        v.push(p);
        v.push(b);
    }
    v
}

pub struct L1Case {
    pub text: String,
    pub lit: NumLit,
}

pub fn l1_cases() -> Vec<L1Case> {
    let mut out = Vec::new();
    for m in magnitudes() {
        for (prefix, radix, upper) in [("", 10u32, false), ("#d", 10, false), ("#b", 2, false), ("#o", 8, false), ("#x", 16, false), ("#x", 16, true)] {
            let digits = m.to_string_radix(radix, upper);
            if digits.len() > 1400 {
                continue;
            }
            for sign in ["", "+", "-"] {
                for zeros in [0usize, 1, 3] {
                    if zeros > 0 && digits.len() > 80 {
                        continue;
                    }
                    let d = format!("{}{}", "0".repeat(zeros), digits);
                    out.push(L1Case { text: format!("{}{}{}", prefix, sign, d), lit: NumLit { neg: sign == "-", radix, int_digits: d.to_lowercase(), frac_digits: None, exp: None } });
                }
            }
        }
    }
    // every digit value of every radix before and after the point where the 64-bit accumulator
    // overflows (the scanner continues in a second loop with its own digit and marker tests; in
    // radix 16 the digit 'e' must not be taken for an exponent marker there)
    for (prefix, radix) in [("", 10u32), ("#d", 10), ("#b", 2), ("#o", 8), ("#x", 16)] {
        let digit = |v: u32, upper: bool| -> char {
            let c = std::char::from_digit(v, radix).unwrap();
            if upper { c.to_ascii_uppercase() } else { c }
        };
        for upper in [false, true] {
            if upper && radix != 16 {
                continue;
            }
            for len in [16usize, 17, 20, 22, 30, 64, 66, 70] {
                for v in 0..radix {
                    for sign in ["", "-"] {
                        // 1 d d d ... d   and   1 0 0 ... 0 d   and a rotating string starting at d
                        let a: String = std::iter::once('1').chain(std::iter::repeat(digit(v, upper)).take(len)).collect();
                        let b: String = std::iter::once('1').chain(std::iter::repeat('0').take(len - 1)).chain(std::iter::once(digit(v, upper))).collect();
                        let c: String = std::iter::once('1').chain((0..len as u32).map(|i| digit((v + i) % radix, upper))).collect();
                        for d in [a, b, c] {
                            out.push(L1Case { text: format!("{}{}{}", prefix, sign, d), lit: NumLit { neg: sign == "-", radix, int_digits: d.to_lowercase(), frac_digits: None, exp: None } });
                        }
                    }
                }
            }
        }
    }
    out
}

fn exps() -> Vec<i64> {
    let mut v: Vec<i64> = (0..=30).collect();
    v.extend(300..=330);
    v.extend([22, 23, 37, 38, 39, 100, 307, 308, 309, 310, 400, 4000, 2147483646, 2147483647, 2147483648, 1_000_000_000_000]);
    let neg: Vec<i64> = v.iter().map(|x| -x).collect();
    v.extend(neg);
    v.sort();
    v.dedup();
    v
}

pub fn l4_cases() -> Vec<L1Case> {
    let ks: Vec<usize> = (1..=40).chain([100, 400]).collect();
    let mut mant: Vec<(String, Option<String>)> = Vec::new();
    for &k in &ks {
        mant.push((format!("1{}", "0".repeat(k)), None));
        mant.push(("9".repeat(k), None));
        mant.push(("0".into(), Some(format!("{}1", "0".repeat(k)))));
        mant.push((format!("18446744073709551615{}", "7".repeat(k)), None));
        mant.push(("9007199254740993".into(), Some("0".repeat(k))));
        mant.push(("1".into(), Some("5".repeat(k))));
        mant.push((format!("{}", "123456789".repeat(k / 9 + 1)), Some("5".into())));
    }
    // every digit value in every region of a long fraction / integer part: the scanners switch to a
    // "skip the remaining digits" loop once the 64-bit accumulator is full, and that loop has its
    // own digit test
    let rot = |k: usize, from: usize| -> String { (0..k).map(|i| char::from(b'0' + ((i + from) % 10) as u8)).collect() };
    for &k in &ks {
        for d in 0..=9u8 {
            let ds: String = std::iter::repeat(char::from(b'0' + d)).take(k).collect();
            mant.push(("0".into(), Some(ds.clone())));
            if d > 0 {
                mant.push((ds, Some("5".into())));
            }
        }
        mant.push(("1".into(), Some(rot(k, 1))));
        mant.push((rot(k, 1), Some(rot(k, 7))));
    }
    for p in [1usize, 17, 18, 19, 20, 21, 22, 25, 40, 100, 399] {
        for d in ['1', '5', '9'] {
            mant.push(("3".into(), Some(format!("{}{}", "0".repeat(p - 1), d))));
            mant.push(("3".into(), Some(format!("{}{}1", "1".repeat(p - 1), d))));
            mant.push((format!("{}{}1", "1".repeat(p - 1), d), None));
            mant.push((format!("{}{}", "1".repeat(p - 1), d), Some("25".into())));
        }
    }
    mant.push(("0".into(), Some("0".into())));
    mant.push(("0".into(), None));
    mant.push(("17976931348623157".into(), None));
    mant.push(("17976931348623158".into(), None));
    mant.push(("17976931348623159".into(), None));
    mant.push(("4".into(), Some("9406564584124654".into())));
    mant.push(("2".into(), Some("2250738585072014".into())));
    let mut out = Vec::new();
    for (int, frac) in mant {
        let mut variants: Vec<Option<i64>> = vec![None];
        variants.extend(exps().into_iter().map(Some));
        for e in variants {
            if frac.is_none() && e.is_none() {
                // plain long integers are L1's business, but keep them as integers
            }
            for sign in ["", "-"] {
                let mut text = format!("{}{}", sign, int);
                if let Some(f) = &frac {
                    text.push('.');
                    text.push_str(f);
                }
                let mut expv = None;
                if let Some(e) = e {
                    text.push_str(&format!("e{}", e));
                    expv = Some(e.clamp(-1_000_000_000_000_000, 1_000_000_000_000_000));
                }
                out.push(L1Case { text, lit: NumLit { neg: sign == "-", radix: 10, int_digits: int.clone(), frac_digits: frac.clone(), exp: expv } });
            }
        }
    }
    out
}

const L2_ALPHA: &[&[u8]] = &[b"0", b"1", b"5", b"9", b".", b"e", b"E", b"+", b"-"];

fn check_l3(acc: &mut Acc, sub: &str, rank: u64, x: f64) {
    // ryu's shortest form (as the printer emits it) and spelling variants of the same literal
    let s = match guard(|| lexpr::to_string(&Value::from(x))) {
        Ok(Ok(s)) => s,
        _ => return,
    };
    let lit0 = match decimal_literal(&s) {
        Some(l) => l,
        None => {
            acc.evals += 1;
            acc.violation(sub, "printed-number-not-a-literal", "printed-number-not-a-literal", rank, format!("float bits {:#x}", x.to_bits()), format!("printed as {:?}, which is not in the literal grammar", s), || json!({"f64_bits": x.to_bits().to_string()}));
            return;
        }
    };
    // the printed form denotes x: read by std's correctly rounded parser (trusted base) it is x
    // again, bit for bit ("every number the printer emits ... reads back as the same number"
    // needs the printed text to be that number in the first place)
    if s.parse::<f64>().ok().map(f64::to_bits) != Some(x.to_bits()) {
        acc.violation(sub, "printed-float-denotes-another-number", "printed-float-denotes-another-number", rank, format!("float bits {:#x} ({:e})", x.to_bits(), x), format!("printed as {:?}, which denotes {:?}", s, s.parse::<f64>().ok()), || json!({"f64_bits": x.to_bits().to_string()}));
    }
    let mut variants: Vec<String> = vec![s.clone()];
    if !s.starts_with('-') {
        variants.push(format!("+{}", s));
    }
    if s.contains('e') {
        variants.push(s.replace('e', "E"));
        if !s.contains('.') {
            variants.push(s.replace('e', ".0e"));
        }
        variants.push(s.replace('e', "e+").replace("e+-", "e-"));
    } else if s.contains('.') {
        variants.push(format!("{}000", s));
        variants.push(format!("{}e0", s));
    }
    variants.push(format!("#d{}", s));
    for v in variants {
        let body = v.strip_prefix("#d").unwrap_or(&v);
        if let Some(lit) = decimal_literal(body) {
            check_literal(acc, sub, rank, &v, &lit);
        }
    }
    // the shortest form itself must read back as exactly x under correct rounding (ryu's contract);
    // the implementation is held to the statement's accuracy clause only (done above).
    let _ = lit0;
}

pub fn replay(sub: &str, case: &J, acc: &mut Acc) {
    if let Some(t) = case["octet_text"].as_str() {
        // re-derive the expectation from the text: the element is the token before the last ')' or " 2)"
        let inner = t.trim_start_matches("#vu8(").trim_start_matches("#u8(").trim_start_matches("1 ").trim_end_matches(')').trim_end_matches(" 2");
        let (radix, rest) = match &inner.get(..2) {
            Some("#b") | Some("#B") => (2, &inner[2..]),
            Some("#o") => (8, &inner[2..]),
            Some("#x") | Some("#X") => (16, &inner[2..]),
            Some("#d") => (10, &inner[2..]),
            _ => (10, inner),
        };
        let neg = rest.starts_with('-');
        let v = u64::from_str_radix(rest.trim_start_matches(|c| c == '+' || c == '-'), radix).unwrap_or(999);
        match guard(|| lexpr::from_str(t)) {
            Ok(Ok(val)) => {
                let got = val.as_bytes().map(|b| b.to_vec()).unwrap_or_default();
                let elem = if t.contains("(1 ") { got.get(1).copied() } else { got.first().copied() };
                if v > 255 || (neg && v != 0) || elem != Some(v as u8) {
                    acc.violation(sub, "octet-differs-from-literal", "octet-differs-from-literal", 0, format!("text={:?}", t), format!("read as {}", RV::from_value(&val)), || case.clone());
                }
            }
            Err(p) => acc.violation(sub, "panic", "panic", 0, format!("text={:?}", t), p, || case.clone()),
            _ => {}
        }
        return;
    }
    if let Some(t) = case["text"].as_str() {
        let body = t;
        // recover the structure from the text
        let (radix, rest) = if let Some(r) = body.strip_prefix("#b") {
            (2, r)
        } else if let Some(r) = body.strip_prefix("#o") {
            (8, r)
        } else if let Some(r) = body.strip_prefix("#x") {
            (16, r)
        } else if let Some(r) = body.strip_prefix("#d") {
            (10, r)
        } else {
            (10, body)
        };
        if radix == 10 {
            match decimal_literal(rest) {
                Some(lit) => check_literal(acc, sub, 0, t, &lit),
                None => check_non_literal(acc, sub, 0, t),
            }
        } else {
            let neg = rest.starts_with('-');
            let d = rest.trim_start_matches(|c| c == '+' || c == '-').to_lowercase();
            check_literal(acc, sub, 0, t, &NumLit { neg, radix, int_digits: d, frac_digits: None, exp: None });
        }
    } else if let Some(b) = case["f64_bits"].as_str() {
        check_l3(acc, sub, 0, f64::from_bits(b.parse().unwrap_or(0)));
    }
}

pub fn run(ctx: &Ctx) -> Report {
    let mut rep = Report::new(ctx, "exploration");
    rep.assume("exact values by the harness's own bignum; correctly rounded references by std's f64 parser; accuracy clause read as in DESIGN 3.6 (bit-exact only where the parser-visible D*10^E has D < 2^53 and |E| <= 22 and the written exponent is <= 22 in magnitude; in the non-fast build also for <= 19 significant digits; elsewhere relative error 2^-50, two subnormal spacings in the subnormal range)");
    let thorough = ctx.tier.thorough();
    let sfx = |s: &str| if NOFAST { format!("{}-nofast", s) } else { s.to_string() };
    let build = if NOFAST { " (build without fast-float-parsing)" } else { "" };

    if ctx.want("L1-integers") {
        let name = sfx("L1-integers");
        let cases = l1_cases();
        let sub = Sub::new(&name, &format!("integer literals: radix prefix in {{none, #d, #b, #o, #x lower, #x upper}} x sign in {{none, +, -}} x leading zeros in {{0, 1, 3}} x magnitude in the N64 lattice extended by 2^k (+-1) up to 2^300, powers of ten up to 10^90 and the neighbourhood of 2^1024{}: exact integer inside [-2^63, 2^64-1], a float within 2^-50 outside, an error at or above 2^1024; non-trivial = accepted or correctly rejected", build), &format!("{} literals", cases.len()));
        let accs = par_ranks(cases.len() as u64, |rank, acc| {
            let c = &cases[rank as usize];
            acc.sample(rank, || trunc(&c.text, 60));
            check_literal(acc, &name, rank, &c.text, &c.lit);
        });
        rep.absorb(sub, accs);
    }
    if ctx.want("L2-decimal-grammar") {
        let name = sfx("L2-decimal-grammar");
        let k = if thorough { 9 } else { 8 };
        let n = count_upto(9, k);
        let sub = Sub::new(&name, &format!("every string of length <= {} over the alphabet 0 1 5 9 . e E + -: members of [sign]digits[.digits][(e|E)[sign]digits] must read as that number, all other strings must not read as a number{}; non-trivial = member of the grammar", k, build), &format!("{} strings", n));
        let accs = par_ranks(n, |rank, acc| {
            let mut buf = Vec::new();
            let mut idx = Vec::new();
            unrank_string(rank, L2_ALPHA, &mut buf, &mut idx);
            let s = std::str::from_utf8(&buf).unwrap();
            acc.sample(rank, || s.to_string());
            match decimal_literal(s) {
                Some(lit) => check_literal(acc, &name, rank, s, &lit),
                None => check_non_literal(acc, &name, rank, s),
            }
        });
        rep.absorb(sub, accs);
    }
    if ctx.want("L3-shortest-forms") {
        let name = sfx("L3-shortest-forms");
        let dom = f64_lattice(if thorough { 9999 } else { 999 }, 1);
        let sub = Sub::new(&name, &format!("the printer's shortest form of every double of the F64 lattice and its spelling variants (explicit +, upper-case E, .0 inserted before the exponent, explicit e+, trailing zeros, e0, #d prefix){}; non-trivial = every literal", build), &format!("{} doubles x up to 6 spellings", dom.len()));
        let accs = par_ranks(dom.len() as u64, |rank, acc| {
            acc.sample(rank, || format!("{:?}", dom[rank as usize]));
            check_l3(acc, &name, rank, dom[rank as usize]);
        });
        rep.absorb(sub, accs);
    }
    if thorough && ctx.want("L3-f32-image") {
        let name = sfx("L3-f32-image");
        let sub = Sub::new(&name, "shortest form of the f64 image of every finite f32", "2^32 bit patterns");
        let accs = par_ranks(1u64 << 32, |rank, acc| {
            let f = f32::from_bits(rank as u32);
            if !f.is_finite() {
                return;
            }
            let x = f as f64;
            let s = lexpr::to_string(&Value::from(x)).unwrap_or_default();
            if let Some(lit) = decimal_literal(&s) {
                check_literal(acc, &name, rank, &s, &lit);
            }
        });
        rep.absorb(sub, accs);
    }
    if ctx.want("L4-long-forms") {
        let name = sfx("L4-long-forms");
        let cases = l4_cases();
        let sub = Sub::new(&name, &format!("long forms: 1 followed by k zeros, k nines, 0.0…01, u64::MAX followed by k digits, 2^53+1 with k fractional zeros (halfway cases), 1.55…5, every digit repeated k times as fraction and as integer part, rotating digit strings, a digit 1/5/9 at positions 1, 17..22, 25, 40, 100, 399 of a long fraction / integer; k in 1..=40, 100, 400; each without exponent and with every exponent in +-{{0..30, 300..330, 400, 4000, 2^31-1, 2^31, 10^12}}; both signs{}; non-trivial = accepted or correctly rejected", build), &format!("{} literals", cases.len()));
        let accs = par_ranks(cases.len() as u64, |rank, acc| {
            let c = &cases[rank as usize];
            acc.sample(rank, || trunc(&c.text, 60));
            check_literal(acc, &name, rank, &c.text, &c.lit);
        });
        rep.absorb(sub, accs);
    }
    if ctx.want("L5-printer") {
        let name = sfx("L5-printer");
        let ints = n64();
        let sub = Sub::new(&name, "printer side: to_string of every N64 integer is a literal of the grammar denoting exactly that integer (floats are covered by L3, which starts from the printed form)", &format!("{} integers", ints.len()));
        let accs = par_ranks(ints.len() as u64, |rank, acc| {
            let x = ints[rank as usize];
            acc.evals += 1;
            acc.nontrivial += 1;
            acc.outcome(&(x.signum(), x.unsigned_abs().leading_zeros()));
            acc.sample(rank, || x.to_string());
            let s = lexpr::to_string(&RV::Int(x).to_value()).unwrap_or_default();
            match decimal_literal(&s) {
                Some(lit) if expect(&lit) == Expect::Int(x) => check_literal(acc, &name, rank, &s, &lit),
                _ => acc.violation(&name, "printed-integer-wrong", "printed-integer-wrong", rank, format!("int={}", x), format!("printed as {:?}", s), || json!({"text": s})),
            }
        });
        rep.absorb(sub, accs);
    }
    if ctx.want("L6-octets") {
        // the same integer literals in the one other place where the grammar has numbers: the
        // elements of a byte vector. Whether signs and radix prefixes are octets is not
        // documented, so the oracle is: rejected, or exactly the octet the literal denotes
        // (mutant: `#b` read with radix 3 by the octet reader only)
        let name = sfx("L6-octets");
        let prefixes = ["", "#d", "#b", "#o", "#x", "#X", "#B"];
        let signs = ["", "+", "-"];
        let total = (prefixes.len() * signs.len() * 3 * 301) as u64;
        let sub = Sub::new(&name, "integer literals 0..=300 in every radix spelling x sign x 0..2 leading zeros as the element of a byte vector, #u8(<lit>) and #u8(1 <lit> 2) and #vu8(<lit>): the text is rejected or the octet is exactly the value of the literal (never for a value above 255 or a negative one); non-trivial = accepted", &format!("{} literals x 3 frames", total));
        let accs = par_ranks(total, |rank, acc| {
            let r = rank as usize;
            let v = r % 301;
            let zeros = (r / 301) % 3;
            let sign = signs[(r / 301 / 3) % 3];
            let prefix = prefixes[r / 301 / 9];
            let radix = match prefix {
                "#b" | "#B" => 2,
                "#o" => 8,
                "#x" | "#X" => 16,
                _ => 10,
            };
            let digits = match radix {
                2 => format!("{:b}", v),
                8 => format!("{:o}", v),
                16 => format!("{:x}", v),
                _ => format!("{}", v),
            };
            let lit = format!("{}{}{}{}", prefix, sign, "0".repeat(zeros), digits);
            acc.sample(rank, || lit.clone());
            for (fi, frame) in [("#u8(", ")"), ("#u8(1 ", " 2)"), ("#vu8(", ")")].iter().enumerate() {
                let text = format!("{}{}{}", frame.0, lit, frame.1);
                acc.evals += 1;
                let r = guard(|| lexpr::from_str(&text));
                let case = || json!({"octet_text": text});
                match r {
                    Err(p) => acc.violation(&name, "panic", "panic", rank, format!("text={:?}", text), p, case),
                    Ok(Err(_)) => acc.outcome(&(0u8, fi)),
                    Ok(Ok(val)) => {
                        acc.nontrivial += 1;
                        acc.outcome(&(1u8, fi));
                        let want: Vec<u8> = if fi == 1 { vec![1, v as u8, 2] } else { vec![v as u8] };
                        let ok = v <= 255 && (sign != "-" || v == 0) && val.as_bytes() == Some(&want[..]);
                        if !ok {
                            acc.violation(&name, "octet-differs-from-literal", &format!("octet-differs-from-literal:{}", prefix), rank, format!("text={:?}", text), format!("read as {}, the literal denotes {}{}", RV::from_value(&val), sign, v), case);
                        }
                    }
                }
            }
        });
        rep.absorb(sub, accs);
    }
    if !NOFAST {
        crate::props::run_nofast_child(ctx, &mut rep);
    }
    rep
}
