//! C18 — deserializing any S-expression value is total and self-consistent.

use crate::par::par_ranks;
use crate::props::c04::budget;
use crate::report::{Acc, Ctx, Report, Sub};
use crate::rv::RV;
use crate::serde_fam::{family, DeOutcome, Runner};
use serde_json::{json, Value as J};

fn atoms16() -> Vec<RV> {
    vec![
        RV::Nil,
        RV::Null,
        RV::Bool(true),
        RV::Int(5),
        RV::Int(-3),
        RV::Int(u64::MAX as i128),
        RV::Float(1.5),
        RV::Char('c'),
        RV::str("s"),
        RV::str("Unit"),
        RV::sym("a"),
        RV::sym("Unit"),
        RV::sym("NtVec"),
        RV::sym("x"),
        RV::kw("k"),
        RV::Bytes(vec![1]),
    ]
}

/// Every value tree with at most 3 leaves (depth <= 3) built from cons cells and vectors over the
/// 16 atoms and the empty vector.
fn small_trees() -> Vec<RV> {
    let mut leaf = atoms16();
    leaf.push(RV::Vector(vec![]));
    let mut t: Vec<Vec<RV>> = vec![vec![], leaf.clone()];
    // two leaves
    let mut t2 = Vec::new();
    for a in &leaf {
        t2.push(RV::Vector(vec![a.clone()])); // counts as one leaf wrapped; kept with the 2-leaf class
        for b in &leaf {
            t2.push(RV::cons(a.clone(), b.clone()));
            t2.push(RV::Vector(vec![a.clone(), b.clone()]));
        }
    }
    t.push(t2);
    // three leaves over the 16 atoms (without the empty vector, to keep the count near 2*10^4)
    let at = atoms16();
    let mut t3 = Vec::new();
    for a in &at {
        for b in &at {
            t3.push(RV::Vector(vec![RV::cons(a.clone(), b.clone())]));
            t3.push(RV::list(vec![RV::cons(a.clone(), b.clone())]));
            for c in &at {
                t3.push(RV::cons(a.clone(), RV::cons(b.clone(), c.clone())));
                t3.push(RV::cons(RV::cons(a.clone(), b.clone()), c.clone()));
                t3.push(RV::Vector(vec![a.clone(), b.clone(), c.clone()]));
            }
        }
    }
    t.push(t3);
    t.push(compact_forms());
    t.into_iter().flatten().collect()
}

/// Wider, flat encodings that some standard-library types accept as their non-human-readable
/// form (an address as a tuple of octets, a duration as a pair), alone and wrapped the way a
/// variant or a tuple would hold them, plus the variant names of those types as atoms
/// (seed C18-g3: serializer and deserializer disagreeing on which representation is in use).
fn compact_forms() -> Vec<RV> {
    let mut v = Vec::new();
    let ints = |n: usize| -> Vec<RV> { (0..n).map(|i| RV::Int([127, 0, 0, 1, 10, 7, 255, 8][i % 8])).collect() };
    for n in [2usize, 4, 6, 8, 16] {
        v.push(RV::Vector(ints(n)));
        v.push(RV::list(ints(n)));
        for tag in ["V4", "V6", "Ok", "Included"] {
            v.push(RV::cons(RV::sym(tag), RV::Vector(ints(n))));
            v.push(RV::cons(RV::sym(tag), RV::list(ints(n))));
        }
        v.push(RV::Vector(vec![RV::Vector(ints(n)), RV::Int(8080)]));
        v.push(RV::list(vec![RV::Vector(ints(n)), RV::Int(8080)]));
        v.push(RV::list(vec![RV::list(ints(n)), RV::Int(8080)]));
        v.push(RV::Bytes((0..n).map(|i| i as u8).collect()));
    }
    for name in ["V4", "V6", "Ok", "Err", "Unbounded", "Included", "Excluded", "secs", "start"] {
        v.push(RV::sym(name));
        v.push(RV::str(name));
        v.push(RV::cons(RV::sym(name), RV::Int(5)));
        v.push(RV::list(vec![RV::sym(name), RV::Int(5)]));
        v.push(RV::cons(RV::sym(name), RV::str("10.0.0.7")));
    }
    for text in ["127.0.0.1", "::1", "10.0.0.7:8080", "1.2.3", "256.0.0.1", ""] {
        v.push(RV::str(text));
        v.push(RV::sym(text));
    }
    v
}

/// Long atoms of every text-carrying kind with multi-byte characters at every alignment: error
/// messages quote the offending value, and anything that cuts text at a byte offset must cut on a
/// character boundary (seed C18-c); long byte vectors and huge / tiny numbers for the same reason.
fn long_atoms() -> Vec<RV> {
    let mut texts: Vec<String> = Vec::new();
    for (unit, width) in [("é", 2usize), ("€", 3), ("😀", 4)] {
        for pad in 0..width {
            texts.push(format!("{}{}", "a".repeat(pad), unit.repeat(300)));
        }
    }
    texts.push("x".repeat(5000));
    let mut v = Vec::new();
    for t in &texts {
        v.push(RV::Str(t.clone()));
        v.push(RV::Sym(t.clone()));
        v.push(RV::Kw(t.clone()));
    }
    v.push(RV::Bytes((0..5000).map(|i| (i * 13) as u8).collect()));
    v.push(RV::Float(1.7976931348623157e308));
    v.push(RV::Float(-5e-324));
    v.push(RV::Int(u64::MAX as i128));
    v.push(RV::Int(i64::MIN as i128));
    v.push(RV::Char('\u{10FFFF}'));
    // integers that are (not) code points, floats beyond the i64 / f32 range
    for x in [0xD7FFi128, 0xD800, 0xDFFF, 0xE000, 0x10FFFF, 0x110000, 1 << 32, 1 << 63] {
        v.push(RV::Int(x));
    }
    for f in [1e19, -1e19, 1e20, 3.5e38, -3.5e38, 1e300, 9.223372036854775807e18] {
        v.push(RV::Float(f));
    }
    v
}

/// A long atom in every position a visitor can meet it.
fn long_atom_contexts(a: &RV) -> Vec<RV> {
    let k = RV::sym("f");
    vec![
        a.clone(),
        RV::list(vec![a.clone()]),
        RV::Vector(vec![a.clone()]),
        RV::list(vec![a.clone(), a.clone()]),
        RV::cons(RV::sym("N"), a.clone()),
        RV::cons(a.clone(), RV::Int(1)),
        RV::list(vec![RV::cons(k.clone(), a.clone())]),
        RV::list(vec![RV::cons(a.clone(), RV::Int(1))]),
        RV::list(vec![RV::sym("S"), RV::cons(k.clone(), a.clone())]),
        RV::list(vec![RV::cons(RV::sym("f"), a.clone()), RV::cons(RV::sym("g"), a.clone())]),
        RV::list(vec![RV::Int(7), a.clone()]),
        RV::append(vec![RV::Int(7)], a.clone()),
    ]
}

/// Single mutations of a valid encoding.
fn mutants(e: &RV) -> Vec<RV> {
    // enumerate node paths
    fn paths(v: &RV, cur: &mut Vec<u8>, out: &mut Vec<Vec<u8>>) {
        out.push(cur.clone());
        match v {
            RV::Cons(a, d) => {
                cur.push(0);
                paths(a, cur, out);
                cur.pop();
                cur.push(1);
                paths(d, cur, out);
                cur.pop();
            }
            RV::Vector(xs) => {
                for (i, x) in xs.iter().enumerate().take(6) {
                    cur.push(2 + i as u8);
                    paths(x, cur, out);
                    cur.pop();
                }
            }
            _ => {}
        }
    }
    fn replace(v: &RV, path: &[u8], f: &dyn Fn(&RV) -> Option<RV>) -> Option<RV> {
        if path.is_empty() {
            return f(v);
        }
        match (v, path[0]) {
            (RV::Cons(a, d), 0) => Some(RV::cons(replace(a, &path[1..], f)?, (**d).clone())),
            (RV::Cons(a, d), 1) => Some(RV::cons((**a).clone(), replace(d, &path[1..], f)?)),
            (RV::Vector(xs), k) => {
                let i = (k - 2) as usize;
                let mut ys = xs.clone();
                ys[i] = replace(&xs[i], &path[1..], f)?;
                Some(RV::Vector(ys))
            }
            _ => None,
        }
    }
    let mut ps = Vec::new();
    paths(e, &mut Vec::new(), &mut ps);
    if ps.len() > 40 {
        ps.truncate(40);
    }
    let atoms = atoms16();
    let mut out = Vec::new();
    for p in &ps {
        for a in &atoms {
            if let Some(m) = replace(e, p, &|_| Some(a.clone())) {
                out.push(m);
            }
        }
        // structural mutations of the node itself
        let ops: Vec<Box<dyn Fn(&RV) -> Option<RV>>> = vec![
            // list -> vector / vector -> list
            Box::new(|v| match v {
                RV::Cons(_, _) => {
                    let (xs, t) = crate::model::list::decompose(v);
                    if t == RV::Null { Some(RV::Vector(xs)) } else { None }
                }
                RV::Vector(xs) => Some(RV::list(xs.clone())),
                _ => None,
            }),
            // drop the first element
            Box::new(|v| match v {
                RV::Cons(_, d) => Some((**d).clone()),
                RV::Vector(xs) if !xs.is_empty() => Some(RV::Vector(xs[1..].to_vec())),
                _ => None,
            }),
            // duplicate the first element
            Box::new(|v| match v {
                RV::Cons(a, _) => Some(RV::cons((**a).clone(), v.clone())),
                RV::Vector(xs) if !xs.is_empty() => {
                    let mut ys = vec![xs[0].clone()];
                    ys.extend(xs.iter().cloned());
                    Some(RV::Vector(ys))
                }
                _ => None,
            }),
            // improper terminator
            Box::new(|v| match v {
                RV::Cons(_, _) => {
                    let (xs, t) = crate::model::list::decompose(v);
                    if t == RV::Null { Some(RV::append(xs, RV::Int(9))) } else { None }
                }
                RV::Null => Some(RV::Int(9)),
                _ => None,
            }),
            // de-pair an alist entry: (k . v) -> k
            Box::new(|v| match v {
                RV::Cons(a, _) if a.is_atom() => Some((**a).clone()),
                _ => None,
            }),
            // names: symbol -> string / keyword / unknown
            Box::new(|v| match v {
                RV::Sym(s) => Some(RV::Str(s.clone())),
                RV::Str(s) => Some(RV::Sym(s.clone())),
                _ => None,
            }),
            Box::new(|v| match v {
                RV::Sym(s) => Some(RV::Kw(s.clone())),
                _ => None,
            }),
            Box::new(|v| match v {
                RV::Sym(_) => Some(RV::sym("nosuch")),
                _ => None,
            }),
            // wrap / unwrap one list level
            Box::new(|v| Some(RV::list(vec![v.clone()]))),
            Box::new(|v| match v {
                RV::Cons(a, d) if **d == RV::Null => Some((**a).clone()),
                _ => None,
            }),
        ];
        for op in &ops {
            if let Some(m) = replace(e, p, &|v| op(v)) {
                out.push(m);
            }
        }
    }
    out
}

fn judge(acc: &mut Acc, sub: &str, rank: u64, r: &dyn Runner, v: &RV, case: &dyn Fn() -> J) {
    acc.evals += 1;
    let val = v.to_value();
    let w = || format!("type={} value={}", r.name(), crate::util::trunc(&v.to_string(), 160));
    match r.deserialize(&val) {
        DeOutcome::ErrData => acc.outcome(&0u8),
        DeOutcome::OkNormalised(_) => {
            acc.nontrivial += 1;
            acc.outcome(&1u8);
            acc.count("accepted-and-normalised");
        }
        DeOutcome::OkNotNormalised(d) => acc.violation(sub, "accepted-but-not-normalised", &format!("accepted-but-not-normalised:{}", r.name()), rank, w(), d, case),
        DeOutcome::ErrOther(d) => acc.violation(sub, "error-not-data-category", &format!("error-not-data-category:{}", r.name()), rank, w(), d, case),
        DeOutcome::Panic(p) => acc.violation(sub, "panic", &format!("panic:{}", r.name()), rank, w(), p, case),
    }
}

pub fn replay(sub: &str, case: &J, acc: &mut Acc) {
    let fam = family();
    let t = case["type"].as_u64().unwrap_or(0) as usize;
    if t >= fam.len() {
        return;
    }
    let want = case["value"].as_str().unwrap_or("");
    let thorough = case["thorough"].as_bool().unwrap_or(false);
    if sub == "long-atoms" {
        let mut vals: Vec<RV> = Vec::new();
        for a in long_atoms() {
            vals.extend(long_atom_contexts(&a));
        }
        if let Some(v) = vals.get(case["long_atom_index"].as_u64().unwrap_or(0) as usize) {
            judge(acc, sub, 0, &*fam[t], v, &|| case.clone());
        }
        return;
    }
    if sub == "small-trees" {
        if let Some(v) = small_trees().iter().find(|v| v.to_string() == want) {
            judge(acc, sub, 0, &*fam[t], v, &|| case.clone());
        }
    } else {
        let b = budget(thorough);
        let src = case["src_type"].as_u64().unwrap_or(t as u64) as usize;
        let i = case["i"].as_u64().unwrap_or(0) as usize;
        if src < fam.len() && i < fam[src].count(&b) {
            if let Some(e) = fam[src].encoding(&b, i) {
                for m in mutants(&e) {
                    if m.to_string() == want {
                        judge(acc, sub, 0, &*fam[t], &m, &|| case.clone());
                        return;
                    }
                }
            }
        }
        eprintln!("replay: mutant not found");
    }
}

pub fn run(ctx: &Ctx) -> Report {
    let mut rep = Report::new(ctx, "exploration");
    rep.assume("self-consistency: whenever from_value returns x, from_value(to_value(x)) returns the same x (floats bitwise)");
    let thorough = ctx.tier.thorough();
    let fam = family();
    let nt = fam.len() as u64;

    if ctx.want("small-trees") {
        let trees = small_trees();
        let sub = Sub::new("small-trees", "every value tree with at most 3 leaves built from cons cells and vectors over 16 atoms (one per kind, strings and symbols equal to variant / field names, a negative, a huge and a fractional number), plus flat sequences of 2..16 small integers alone / tagged / paired with a port number and textual addresses, x every type of the family: no panic; an error is a Data-category error; an accepted value re-serializes to something that reads back as the same Rust value; non-trivial = accepted", &format!("{} values x {} types", trees.len(), nt));
        let accs = par_ranks(trees.len() as u64 * nt, |rank, acc| {
            let v = &trees[(rank / nt) as usize];
            let t = (rank % nt) as usize;
            acc.sample(rank, || format!("{} as {}", v, fam[t].name()));
            judge(acc, "small-trees", rank, &*fam[t], v, &|| json!({"type": t, "value": v.to_string()}));
        });
        rep.absorb(sub, accs);
    }
    if ctx.want("long-atoms") {
        let mut vals: Vec<RV> = Vec::new();
        for a in long_atoms() {
            vals.extend(long_atom_contexts(&a));
        }
        let sub = Sub::new("long-atoms", "long strings, symbols and keywords made of 2-, 3- and 4-byte characters at every byte alignment (and 5000 ASCII characters), a 5000-octet byte vector, extreme numbers and U+10FFFF, each alone and as list / vector element, newtype-variant payload, map key, map value, struct-variant field, struct field, tuple element and dotted tail x every type of the family: same oracle (no panic, Data-category error or self-consistent value); non-trivial = accepted", &format!("{} values x {} types", vals.len(), nt));
        let accs = par_ranks(vals.len() as u64 * nt, |rank, acc| {
            let vi = (rank / nt) as usize;
            let t = (rank % nt) as usize;
            acc.sample(rank, || format!("{} as {}", crate::util::trunc(&vals[vi].to_string(), 40), fam[t].name()));
            judge(acc, "long-atoms", rank, &*fam[t], &vals[vi], &|| json!({"type": t, "long_atom_index": vi}));
        });
        rep.absorb(sub, accs);
    }
    if ctx.want("mutated-encodings") {
        let b = budget(thorough);
        // (source type, inhabitant): the encoding is mutated and read as the source type (thorough: as every type)
        let mut cases: Vec<(usize, usize)> = Vec::new();
        for (t, r) in fam.iter().enumerate() {
            let n = r.count(&b);
            let stride = if thorough { (n / 1500).max(1) } else { (n / 150).max(1) };
            for i in (0..n).step_by(stride) {
                cases.push((t, i));
            }
        }
        let sub = Sub::new("mutated-encodings", "every valid encoding of the family's inhabitants with one mutation applied — any node replaced by each of the 16 atoms; list <-> vector; first element dropped or duplicated; improper terminator; alist entry de-paired; symbol <-> string, symbol -> keyword, unknown variant / field name; one list level added or removed — read back as its own type, and for every 8th encoding (thorough: every 4th, of ten times as many encodings) as every type of the family: same oracle", &format!("{} encodings", cases.len()));
        let accs = par_ranks(cases.len() as u64, |rank, acc| {
            let (t, i) = cases[rank as usize];
            let e = match fam[t].encoding(&b, i) {
                Some(e) => e,
                None => return,
            };
            acc.sample(rank, || format!("{}: {}", fam[t].name(), crate::util::trunc(&e.to_string(), 80)));
            for m in mutants(&e) {
                crate::par::heartbeat();
                if rank % (if thorough { 4 } else { 8 }) == 0 {
                    for (t2, r2) in fam.iter().enumerate() {
                        judge(acc, "mutated-encodings", rank, &**r2, &m, &|| json!({"type": t2, "src_type": t, "i": i, "value": m.to_string(), "thorough": thorough}));
                    }
                } else {
                    judge(acc, "mutated-encodings", rank, &*fam[t], &m, &|| json!({"type": t, "src_type": t, "i": i, "value": m.to_string(), "thorough": thorough}));
                }
            }
        });
        rep.absorb(sub, accs);
    }
    rep
}
