//! C14 — serialization produces the documented shapes; accepted / rejected alternatives.

use crate::par::par_ranks;
use crate::props::c04::budget;
use crate::report::{Acc, Ctx, Report, Sub};
use crate::serde_fam::family;
use serde_json::{json, Value as J};

pub fn replay(_sub: &str, case: &J, acc: &mut Acc) {
    let fam = family();
    let b = budget(case["thorough"].as_bool().unwrap_or(false));
    let t = case["type"].as_u64().unwrap_or(0) as usize;
    let i = case["i"].as_u64().unwrap_or(0) as usize;
    if t >= fam.len() || i >= fam[t].count(&b) {
        eprintln!("replay: case not in the domain any more");
        return;
    }
    let (fails, _) = fam[t].shapes(&b, i);
    for (kind, detail) in fails {
        acc.violation("shapes", &kind, &kind, 0, format!("type={} value={}", fam[t].name(), fam[t].describe(&b, i)), detail, || case.clone());
    }
}

pub fn run(ctx: &Ctx) -> Report {
    let mut rep = Report::new(ctx, "exploration");
    rep.assume("the shape function is written from the serde-lexpr crate documentation: seq/set -> proper list, tuple/tuple struct/array -> vector, map/struct -> alist of (key . value) with field names as symbols, None -> (), Some(x) -> (x), unit/unit struct -> (), newtype struct -> content, unit variant -> symbol, newtype variant -> (name . payload), tuple variant -> (name item...), struct variant -> (name (field . value)...), bytes -> byte vector, char -> character, integers -> the integer of the same value");
    rep.assume("alternative encodings keep the elements and change one sequence/tuple position: list <-> vector (must be accepted and read as the same value), a non-null terminator of each atom kind, each atom kind in place of the sequence (must be rejected with a Data error); over-long encodings are outside the quantifier");
    let thorough = ctx.tier.thorough();
    let fam = family();
    let b = budget(thorough);
    let mut cases: Vec<(usize, usize)> = Vec::new();
    for (t, r) in fam.iter().enumerate() {
        for i in 0..r.count(&b) {
            cases.push((t, i));
        }
    }
    let sub = Sub::new("shapes", "every inhabitant of every type of the family: to_value(x) equals the documented shape; every single-position alternative encoding (list<->vector one at a time and all at once; improper variants with 9 terminator kinds; 9 wrong kinds) is accepted / rejected as documented; non-trivial = the value has at least one sequence or tuple position", &format!("{} types, {} values", fam.len(), cases.len()));
    let accs = par_ranks(cases.len() as u64, |rank, acc| {
        let (t, i) = cases[rank as usize];
        let (fails, evals) = fam[t].shapes(&b, i);
        acc.evals += 1 + evals;
        if evals > 0 {
            acc.nontrivial += 1;
        }
        acc.outcome(&(t, evals.min(40)));
        acc.sample(rank, || format!("{}: {}", fam[t].name(), fam[t].describe(&b, i)));
        for (kind, detail) in fails {
            acc.violation("shapes", &kind, &format!("{}:{}", kind, fam[t].name()), rank, format!("type={} value={}", fam[t].name(), fam[t].describe(&b, i)), detail, || json!({"type": t, "i": i, "thorough": thorough}));
        }
    });
    rep.absorb(sub, accs);
    rep
}
