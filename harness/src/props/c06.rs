//! C06 — str / slice / stream agree; read errors surface.

use crate::corpus::corpus_all;
use crate::domains::{bytes_upto3, po15, PO, N_B3, SIGMA};
use crate::engine::choice::{explore, ChunkReader, CtlReader, FaultReader, Payload, Shared};
use crate::outcome::{drive, err_info, norm, parse_slice, show_items, Cat, Item, Outcome, Style, STYLES};
use crate::par::{count_upto, par_ranks, unrank_string};
use crate::report::{Acc, Ctx, Report, Sub};
use crate::rv::{hex, show_bytes, unhex};
use crate::util::guard;
use lexpr::parse::{Error, Options, Parser};
use lexpr::Value;
use serde_json::{json, Value as J};
use std::collections::HashMap;
use std::io::BufReader;

type R = Result<Result<Value, Error>, String>;

fn same(a: &R, b: &R) -> bool {
    match (a, b) {
        (Ok(Ok(x)), Ok(Ok(y))) => x == y,
        (Ok(Err(x)), Ok(Err(y))) => {
            let (ex, ey) = (err_info(x), err_info(y));
            ex.cat == ey.cat && ex.msg == ey.msg
        }
        _ => false,
    }
}

fn is_panic(a: &R) -> bool {
    a.is_err()
}

/// Equality clause for one (input, options): str (if UTF-8) vs slice vs reader (1 byte per read)
/// vs reader (whole buffer).
fn check_sources(acc: &mut Acc, sub: &'static str, rank: u64, input: &[u8], po: &PO) {
    let o = po.to_lexpr();
    let rs: R = guard(|| lexpr::from_slice_custom(input, o));
    let r1: R = guard(|| lexpr::from_reader_custom(ChunkReader { data: input, pos: 0, chunk: 1 }, o));
    let rw: R = guard(|| lexpr::from_reader_custom(input, o));
    let rstr: Option<R> = std::str::from_utf8(input).ok().map(|s| guard(|| lexpr::from_str_custom(s, o)));
    acc.evals += 1;
    if matches!(rs, Ok(Ok(_))) {
        acc.nontrivial += 1;
    }
    let mut bad = !same(&rs, &r1) || !same(&rs, &rw);
    if let Some(r) = &rstr {
        bad |= !same(&rs, r);
    }
    if is_panic(&rs) {
        // totality belongs to C03; a panic on all sources alike is not a disagreement
        bad = !(is_panic(&r1) && is_panic(&rw));
    }
    if bad {
        let w = format!("input={:?} opts=[{}]", show_bytes(input), po.describe());
        let detail = format!(
            "slice: {} ; reader(1 byte/read): {} ; reader(whole): {} ; str: {}",
            norm(rs).short(),
            norm(r1).short(),
            norm(rw).short(),
            rstr.map(|r| norm(r).short()).unwrap_or_else(|| "(not UTF-8)".into())
        );
        let h = hex(input);
        let pi = po.index();
        acc.violation(sub, "sources-disagree", "sources-disagree", rank, w, detail, || json!({"input_hex": h, "po": pi}));
    } else if let Ok(Ok(v)) = &rs {
        acc.outcome(&std::mem::discriminant(v));
    } else if let Ok(Err(e)) = &rs {
        acc.outcome(&e.to_string().len());
    }
}

/// Long strings / symbols crossing the 128-byte scratch capacity.
fn long_inputs() -> Vec<Vec<u8>> {
    let mut v = Vec::new();
    for k in [0usize, 1, 126, 127, 128, 129, 130, 255, 256, 257, 1000] {
        for fill in ["a", "λ", "\\n", "\\x41;", "\\\\"] {
            let body: String = fill.repeat(k);
            v.push(format!("\"{}\"", body).into_bytes());
            v.push(format!("\"x{}\"", body).into_bytes());
            v.push(format!("\"{}\\x3bb;{}\"", body, body).into_bytes());
        }
        for fill in ["a", "λ", "-"] {
            let body: String = fill.repeat(k);
            v.push(format!("s{}", body).into_bytes());
            v.push(format!("(s{} . #:k{})", body, body).into_bytes());
            v.push(format!("λ{}", body).into_bytes());
            v.push(format!("#:{}", body).into_bytes());
        }
        v.push(format!("#\\x{}", "0".repeat(k)).into_bytes());
        v.push(format!("{}", "1".repeat(k + 1)).into_bytes());
        v.push(format!("1.{}e{}", "5".repeat(k + 1), "0".repeat(k)).into_bytes());
    }
    v
}

// ---------------------------------------------------------------------------------------------
// chunking schedules (E2)

fn check_chunking(acc: &mut Acc, rank: u64, input: &[u8], po: &PO, bound: usize) {
    let o = po.to_lexpr();
    let reference = parse_slice(input, o).sans_loc();
    if matches!(reference, Outcome::Panic(_)) {
        return;
    }
    // the location-bearing reference for readers: 1 byte per read
    let ref_reader = norm(guard(|| lexpr::from_reader_custom(ChunkReader { data: input, pos: 0, chunk: 1 }, o)));
    for cap in [0usize, 1, 2, 3, 8] {
        let mut first = true;
        let st = explore(bound, 100_000, |ex: &Shared| {
            let out = if cap == 0 {
                norm(guard(|| lexpr::from_reader_custom(CtlReader::new(ex, input), o)))
            } else {
                norm(guard(|| lexpr::from_reader_custom(BufReader::with_capacity(cap, CtlReader::new(ex, input)), o)))
            };
            let sched = ex.borrow().choices.clone();
            acc.evals += 1;
            acc.states += 1;
            acc.transitions += sched.len() as u64;
            if sched.iter().any(|c| *c != 0) {
                acc.nontrivial += 1;
            }
            acc.outcome(&out.coarse());
            if out.sans_loc() != reference || out != ref_reader {
                let w = format!("input={:?} opts=[{}] bufreader_capacity={} schedule={:?}", show_bytes(input), po.describe(), cap, sched);
                let (h, pi) = (hex(input), po.index());
                acc.violation(
                    "chunking",
                    "schedule-changes-result",
                    "schedule-changes-result",
                    rank,
                    w,
                    format!("slice result {} ; 1-byte reader {} ; this schedule {}", reference.short(), ref_reader.short(), out.short()),
                    || json!({"input_hex": h, "po": pi, "cap": cap, "schedule": sched}),
                );
            }
            if first {
                first = false;
                // replay the same schedule: observations must be identical (harness owns all nondeterminism)
                let ex2: Shared = std::rc::Rc::new(std::cell::RefCell::new(crate::engine::choice::Explorer::with_prefix(sched.clone(), ex.borrow().menus.clone())));
                let out2 = if cap == 0 {
                    norm(guard(|| lexpr::from_reader_custom(CtlReader::new(&ex2, input), o)))
                } else {
                    norm(guard(|| lexpr::from_reader_custom(BufReader::with_capacity(cap, CtlReader::new(&ex2, input)), o)))
                };
                if out2 != out {
                    eprintln!("MACHINERY: replaying a read schedule gave a different result");
                    std::process::exit(2);
                }
            }
        });
        if st.capped {
            acc.count("schedule-cap-hit");
        }
    }
}

// ---------------------------------------------------------------------------------------------
// faults

/// Outcomes of parsing prefix p extended by nothing and by each single byte (cached per thread).
struct DetCache {
    single: HashMap<(Vec<u8>, u64), Option<Outcome>>,
    loops: HashMap<(Vec<u8>, u64, u8), Option<Vec<Item>>>,
}

fn determined_single(cache: &mut DetCache, p: &[u8], po: &PO) -> Option<Outcome> {
    let key = (p.to_vec(), po.index());
    if let Some(v) = cache.single.get(&key) {
        return v.clone();
    }
    let o = po.to_lexpr();
    let base = parse_slice(p, o).sans_loc();
    let mut buf = p.to_vec();
    buf.push(0);
    let mut det = Some(base.clone());
    for b in 0..=255u8 {
        *buf.last_mut().unwrap() = b;
        if parse_slice(&buf, o).sans_loc() != base {
            det = None;
            break;
        }
    }
    if cache.single.len() > 200_000 {
        cache.single.clear();
    }
    cache.single.insert(key, det.clone());
    det
}

fn loop_slice(input: &[u8], o: Options, style: Style, cap: usize) -> Vec<Item> {
    let mut p = Parser::from_slice_custom(input, o);
    drive(&mut p, style, cap, true).into_iter().map(|i| i.sans_loc()).collect()
}

fn determined_loop(cache: &mut DetCache, p: &[u8], po: &PO, style: Style, cap: usize) -> Option<Vec<Item>> {
    let key = (p.to_vec(), po.index(), style as u8);
    if let Some(v) = cache.loops.get(&key) {
        return v.clone();
    }
    let o = po.to_lexpr();
    let base = loop_slice(p, o, style, cap);
    let mut buf = p.to_vec();
    buf.push(0);
    let mut det = Some(base.clone());
    for b in 0..=255u8 {
        *buf.last_mut().unwrap() = b;
        if loop_slice(&buf, o, style, cap) != base {
            det = None;
            break;
        }
    }
    if cache.loops.len() > 200_000 {
        cache.loops.clear();
    }
    cache.loops.insert(key, det.clone());
    det
}

fn io_identity_ok(e: &Error, payload: u64) -> bool {
    let info = err_info(e);
    info.cat == Cat::Io && info.payload == Some(payload)
}

/// One (input, options): a hard error at every offset, sticky and transient, through the
/// single-shot API and the five iteration styles.
fn check_faults(acc: &mut Acc, cache: &mut DetCache, rank: u64, input: &[u8], po: &PO, only: Option<(usize, bool, &str)>) {
    let o = po.to_lexpr();
    let full = parse_slice(input, o).sans_loc();
    if matches!(full, Outcome::Panic(_)) {
        return;
    }
    let cap = 2 * input.len() + 4;
    for k in 0..=input.len() {
        for sticky in [true, false] {
            let payload = (rank << 16) ^ ((k as u64) << 1) ^ sticky as u64;
            // --- single shot
            if only.map(|(ok, os, api)| ok == k && os == sticky && api == "from_reader_custom").unwrap_or(true) {
                let r: R = guard(|| lexpr::from_reader_custom(FaultReader { data: input, pos: 0, chunk: 1, fail_at: k, sticky, fired: 0, payload }, o));
                acc.evals += 1;
                let was_ok = matches!(r, Ok(Ok(_)));
                let got_full = norm(r);
                let got = got_full.sans_loc();
                let mut verdict: Option<String> = None;
                match &got_full {
                    Outcome::Panic(p) => verdict = Some(format!("panic: {}", p)),
                    Outcome::Err(e) if e.cat == Cat::Io && e.payload == Some(payload) => {
                        acc.nontrivial += 1;
                        acc.count("io-error-surfaced");
                        // conversion to io::Error hands back the injected error itself
                        let e2 = guard(|| lexpr::from_reader_custom(FaultReader { data: input, pos: 0, chunk: 1, fail_at: k, sticky, fired: 0, payload }, o));
                        if let Ok(Err(e2)) = e2 {
                            let ioe: std::io::Error = e2.into();
                            let ok = ioe.get_ref().and_then(|x| x.downcast_ref::<Payload>()).map(|p| p.0) == Some(payload);
                            if !ok {
                                verdict = Some("io::Error::from(err) does not carry the injected error".into());
                            }
                        }
                    }
                    Outcome::Err(e) if e.cat == Cat::Io => verdict = Some(format!("Io error without the injected payload: {}", got.short())),
                    _ => match determined_single(cache, &input[..k], po) {
                        Some(d) if d == full && d == got => acc.count("determined-by-prefix"),
                        Some(d) if d == full => verdict = Some(format!("outcome determined by the delivered prefix is {}, got {}", d.short(), got.short())),
                        _ => verdict = Some(format!("the delivered prefix does not determine the outcome, yet the read error was not reported: got {}", got.short())),
                    },
                }
                acc.outcome(&(verdict.is_some(), was_ok));
                if let Some(d) = verdict {
                    let kind = if d.starts_with("panic") {
                        "panic"
                    } else if was_ok {
                        "fault-swallowed-ok"
                    } else {
                        "fault-swallowed-err"
                    };
                    let (h, pi) = (hex(input), po.index());
                    acc.violation(
                        "faults",
                        kind,
                        &format!("{}:from_reader_custom", kind),
                        rank,
                        format!("api=from_reader_custom input={:?} opts=[{}] fail_at={} sticky={}", show_bytes(input), po.describe(), k, sticky),
                        d,
                        || json!({"input_hex": h, "po": pi, "k": k, "sticky": sticky, "api": "from_reader_custom"}),
                    );
                }
            }
            // --- iteration styles
            for style in STYLES {
                let api = format!("{:?}", style);
                if let Some((ok, os, oapi)) = only {
                    if ok != k || os != sticky || oapi != api {
                        continue;
                    }
                }
                let mut p = Parser::from_reader_custom(FaultReader { data: input, pos: 0, chunk: 1, fail_at: k, sticky, fired: 0, payload }, o);
                let items = drive(&mut p, style, cap, true);
                acc.evals += 1;
                let mut verdict: Option<String> = None;
                let last = items.last().cloned().unwrap_or(Item::End);
                let sans: Vec<Item> = items.iter().map(|i| i.sans_loc()).collect();
                let reference = loop_slice(input, o, style, cap);
                match &last {
                    Item::Panic(p) => verdict = Some(format!("panic: {}", p)),
                    Item::Err(e) if e.cat == Cat::Io => {
                        acc.nontrivial += 1;
                        if e.payload != Some(payload) {
                            verdict = Some("Io error item without the injected payload".into());
                        } else if sans.len() - 1 > reference.len() || sans[..sans.len() - 1] != reference[..sans.len() - 1] {
                            verdict = Some(format!("items before the Io error differ from the fault-free run: {} vs {}", show_items(&sans), show_items(&reference)));
                        }
                    }
                    _ => {
                        // no Io error was reported: the whole sequence must be determined by the prefix
                        if sans != reference {
                            verdict = Some(format!("no Io error reported and items differ from the fault-free run: {} vs {}", show_items(&sans), show_items(&reference)));
                        } else {
                            match determined_loop(cache, &input[..k], po, style, cap) {
                                Some(d) if d == sans => acc.count("determined-by-prefix"),
                                _ => verdict = Some(format!("the delivered prefix does not determine the item sequence, yet the read error was not reported: {}", show_items(&sans))),
                            }
                        }
                    }
                }
                if let Some(d) = verdict {
                    let kind = if d.starts_with("panic") { "panic" } else { "fault-swallowed-loop" };
                    let (h, pi) = (hex(input), po.index());
                    acc.violation(
                        "faults",
                        kind,
                        &format!("{}:{}", kind, api),
                        rank,
                        format!("api={} input={:?} opts=[{}] fail_at={} sticky={}", api, show_bytes(input), po.describe(), k, sticky),
                        d,
                        || json!({"input_hex": h, "po": pi, "k": k, "sticky": sticky, "api": api}),
                    );
                }
            }
        }
    }
}

pub fn replay(sub: &str, case: &J, acc: &mut Acc) {
    let input = unhex(case["input_hex"].as_str().unwrap_or(""));
    let po = PO::from_index(case["po"].as_u64().unwrap_or(0));
    match sub {
        "sources-equal-B3" | "sources-equal-T" | "sources-equal-corpus" | "sources-equal-long" => check_sources(acc, "sources-equal", 0, &input, &po),
        "chunking" => check_chunking(acc, 0, &input, &po, 3),
        "faults" => {
            let mut cache = DetCache { single: HashMap::new(), loops: HashMap::new() };
            let k = case["k"].as_u64().unwrap_or(0) as usize;
            let sticky = case["sticky"].as_bool().unwrap_or(true);
            let api = case["api"].as_str().unwrap_or("").to_string();
            check_faults(acc, &mut cache, 0, &input, &po, Some((k, sticky, &api)));
        }
        _ => {}
    }
}

pub fn run(ctx: &Ctx) -> Report {
    let mut rep = Report::new(ctx, "fault_enumeration");
    rep.assume("std::io::Bytes and BufReader are trusted; the slice parser's result is the reference for the equality clause (a pure differential, no expected values)");
    rep.assume("'the delivered bytes determine the outcome' is decided semantically: parsing the delivered prefix followed by nothing and by each of the 256 possible next bytes, and the full input, all give one outcome");
    let thorough = ctx.tier.thorough();
    let pos = po15();
    let two = [PO::default_(), PO::elisp()];

    if ctx.want("sources-equal-B3") {
        let total = N_B3 * 2;
        let sub = Sub::new("sources-equal-B3", "all byte strings of length <= 3 x {default, elisp}: from_str (when UTF-8), from_slice, from_reader with 1 byte per read, from_reader whole-buffer: same value or same error category and message; non-trivial = parses successfully", &format!("{} (input, options) cells", total));
        let accs = par_ranks(total, |rank, acc| {
            let mut buf = Vec::with_capacity(3);
            bytes_upto3(rank / 2, &mut buf);
            let po = &two[(rank % 2) as usize];
            acc.sample(rank, || format!("{:?} [{}]", show_bytes(&buf), po.describe()));
            check_sources(acc, "sources-equal-B3", rank, &buf, po);
        });
        rep.absorb(sub, accs);
    }
    if ctx.want("sources-equal-T") {
        let k = if thorough { 5 } else { 4 };
        let n = count_upto(SIGMA.len() as u64, k);
        let npo = pos.len() as u64;
        let total = n * npo;
        let sub = Sub::new("sources-equal-T", "all strings of length <= k over the 40-symbol token alphabet x the 15 corner option sets, same four-way comparison; non-trivial = parses successfully", &format!("k = {}: {} inputs x {} option sets = {} cells", k, n, npo, total));
        let accs = par_ranks(total, |rank, acc| {
            let mut buf = Vec::new();
            let mut idx = Vec::new();
            unrank_string(rank / npo, SIGMA, &mut buf, &mut idx);
            let po = &pos[(rank % npo) as usize];
            acc.sample(rank, || format!("{:?} [{}]", show_bytes(&buf), po.describe()));
            check_sources(acc, "sources-equal-T", rank, &buf, po);
        });
        rep.absorb(sub, accs);
    }
    let corpus = corpus_all(thorough);
    if ctx.want("sources-equal-corpus") {
        let mut inputs = corpus.clone();
        inputs.extend(long_inputs());
        let npo = if thorough { crate::domains::N_PO } else { pos.len() as u64 };
        let total = inputs.len() as u64 * npo;
        let sub = Sub::new("sources-equal-corpus", "grammar corpus G (printer output of the value domains in both dialects, alternative spellings of every token kind, malformed pool) and long strings / symbols / digit runs crossing the 128-byte scratch capacity x option sets (15 corner sets; thorough: all 1536)", &format!("{} texts x {} option sets", inputs.len(), npo));
        let accs = par_ranks(total, |rank, acc| {
            let input = &inputs[(rank / npo) as usize];
            let po = if thorough { PO::from_index(rank % npo) } else { pos[(rank % npo) as usize] };
            acc.sample(rank, || format!("{:?} [{}]", crate::util::trunc(&show_bytes(input), 60), po.describe()));
            check_sources(acc, "sources-equal-corpus", rank, input, &po);
        });
        rep.absorb(sub, accs);
    }
    if ctx.want("chunking") {
        // inputs: T<=3 (quick: T<=2 plus the corpus texts up to 12 bytes) x {default, elisp}
        let k = if thorough { 3 } else { 2 };
        let n = count_upto(SIGMA.len() as u64, k);
        let small: Vec<Vec<u8>> = corpus.iter().filter(|t| t.len() <= if thorough { 24 } else { 12 }).cloned().collect();
        let total = (n + small.len() as u64) * 2;
        let bound = 2;
        let mut sub = Sub::new(
            "chunking",
            "E2 choice tree over the source's answers: each read delivers everything that fits (default), or returns Interrupted, or delivers 1 byte; explored for the raw reader and through BufReader capacities 1, 2, 3, 8; every schedule within the deviation bound must give the slice result (and the same location as the 1-byte reader); first schedule of each case replayed for determinism; non-trivial = at least one deviation",
            &format!("deviation bound {} completed; inputs: all strings <= {} over the token alphabet plus {} corpus texts, x {{default, elisp}}; cap 100000 schedules per (input, capacity)", bound, k, small.len()),
        );
        let accs = par_ranks(total, |rank, acc| {
            let i = rank / 2;
            let po = &two[(rank % 2) as usize];
            let mut buf = Vec::new();
            let mut idx = Vec::new();
            let input: &[u8] = if i < n {
                unrank_string(i, SIGMA, &mut buf, &mut idx);
                &buf
            } else {
                &small[(i - n) as usize]
            };
            acc.sample(rank, || format!("{:?} [{}]", show_bytes(input), po.describe()));
            check_chunking(acc, rank, input, po, bound);
        });
        let capped: u64 = accs.iter().map(|a| a.counters.get("schedule-cap-hit").copied().unwrap_or(0)).sum();
        if capped > 0 {
            sub.cap(format!("{} (input, capacity) pairs hit the schedule cap", capped));
        }
        rep.absorb(sub, accs);
    }
    if ctx.want("faults") {
        let k = if thorough { 4 } else { 3 };
        let n = count_upto(SIGMA.len() as u64, k);
        let texts: Vec<Vec<u8>> = corpus.iter().filter(|t| t.len() <= if thorough { 64 } else { 24 }).cloned().collect();
        let opts: Vec<PO> = vec![PO::default_(), PO::elisp()];
        let total = (n + texts.len() as u64) * 2;
        let sub = Sub::new(
            "faults",
            "a hard read error (unique payload) injected at every byte offset 0..=len of every input, sticky and transient, through from_reader_custom and the five iteration styles; the result must be an Io-category error carrying exactly that payload (also through io::Error::from), or — only if the delivered prefix determines the outcome — exactly that outcome; non-trivial = the Io error surfaced",
            &format!("inputs: all strings <= {} over the token alphabet ({}) plus {} corpus texts, x {{default, elisp}}, x (len+1) offsets x 2 fault models x 6 APIs", k, n, texts.len()),
        );
        let accs = par_ranks(total, |rank, acc| {
            thread_local! {
                static CACHE: std::cell::RefCell<DetCache> = std::cell::RefCell::new(DetCache { single: HashMap::new(), loops: HashMap::new() });
            }
            let i = rank / 2;
            let po = &opts[(rank % 2) as usize];
            let mut buf = Vec::new();
            let mut idx = Vec::new();
            let input: &[u8] = if i < n {
                unrank_string(i, SIGMA, &mut buf, &mut idx);
                &buf
            } else {
                &texts[(i - n) as usize]
            };
            acc.sample(rank, || format!("{:?} [{}]", show_bytes(input), po.describe()));
            CACHE.with(|c| check_faults(acc, &mut c.borrow_mut(), rank, input, po, None));
        });
        rep.absorb(sub, accs);
    }
    rep
}
