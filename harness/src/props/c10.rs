//! C10 — the location-tracking (datum) API agrees with the plain value API.

use crate::corpus::corpus_all;
use crate::domains::{po15, PO, N_PO, SIGMA};
use crate::engine::choice::ChunkReader;
use crate::engine::history::{replay as hist_replay, Op, Src};
use crate::outcome::{drive, show_items, Item, Style};
use crate::par::{count_upto, par_ranks, unrank_string};
use crate::report::{Acc, Ctx, Report, Sub};
use crate::rv::{hex, show_bytes, unhex, RV};
use crate::util::{guard, trunc};
use lexpr::datum::{Datum, Ref};
use lexpr::parse::Parser;
use lexpr::Value;
use serde_json::{json, Value as J};

const SRC_NAMES: [&str; 3] = ["str", "slice", "reader"];

fn loops(input: &[u8], po: &PO, src: usize, style: Style) -> Option<Vec<Item>> {
    let o = po.to_lexpr();
    let cap = 2 * input.len() + 4;
    Some(match src {
        0 => {
            let s = std::str::from_utf8(input).ok()?;
            let mut p = Parser::from_str_custom(s, o);
            drive(&mut p, style, cap, false)
        }
        1 => {
            let mut p = Parser::from_slice_custom(input, o);
            drive(&mut p, style, cap, false)
        }
        _ => {
            let mut p = Parser::from_reader_custom(ChunkReader { data: input, pos: 0, chunk: 1 }, o);
            drive(&mut p, style, cap, false)
        }
    })
}

/// Item-for-item agreement of the value loop and the datum loop (values, the error with its
/// location, the end of input), for each source.
fn check_loops(acc: &mut Acc, sub: &str, rank: u64, input: &[u8], po: &PO) {
    check_loops_src(acc, sub, rank, input, po, true)
}

fn check_loops_src(acc: &mut Acc, sub: &str, rank: u64, input: &[u8], po: &PO, all_sources: bool) {
    acc.evals += 1;
    for src in 0..3 {
        if !all_sources && src != 1 {
            continue;
        }
        let v = match loops(input, po, src, Style::NextValue) {
            Some(v) => v,
            None => continue,
        };
        let d = loops(input, po, src, Style::NextDatum).unwrap();
        let di = loops(input, po, src, Style::DatumIter).unwrap();
        if v.iter().any(|i| matches!(i, Item::Panic(_))) {
            continue; // C03
        }
        if src == 1 && v.len() > 1 {
            acc.nontrivial += 1;
        }
        acc.outcome(&(v.len().min(4), matches!(v.last(), Some(Item::End))));
        for (name, other) in [("next_datum", &d), ("datum_iter", &di)] {
            if *other != v {
                let (h, pi) = (hex(input), po.index());
                let idx = v.iter().zip(other.iter()).position(|(a, b)| a != b).unwrap_or(v.len().min(other.len()));
                let kind = match (v.get(idx), other.get(idx)) {
                    (Some(Item::Val(_)), Some(Item::Val(_))) => "values-differ",
                    (Some(Item::Err(_)), Some(Item::Err(_))) => "errors-differ",
                    (Some(Item::End), _) | (_, Some(Item::End)) => "end-differs",
                    _ => "items-differ",
                };
                acc.violation(sub, kind, &format!("{}:{}", kind, SRC_NAMES[src]), rank, format!("source={} api={} input={:?} opts=[{}]", SRC_NAMES[src], name, trunc(&show_bytes(input), 120), po.describe()), format!("item {}: value API: {} ; datum API: {}", idx, show_items(&v), show_items(other)), || json!({"input_hex": h, "po": pi}));
            }
        }
    }
}

struct W<'a> {
    fails: &'a mut Vec<(String, String)>,
    /// how many owned copies of sub-datums may still be walked (bounds the work per case)
    owned_walks: usize,
}

/// Walk a datum reference and the plain value in lockstep with every accessor.
fn walk(w: &mut W, r: Ref, v: &Value, path: String, depth: usize) {
    if depth > 64 {
        return;
    }
    if r.value() != v || RV::from_value(r.value()) != RV::from_value(v) {
        w.fails.push(("value".into(), format!("{}: Ref::value() is {}, the value is {}", path, RV::from_value(r.value()), RV::from_value(v))));
        return;
    }
    // Deref / AsRef expose the same value
    let via_deref: &Value = &r;
    let via_asref: &Value = r.as_ref();
    if via_deref != v || via_asref != v {
        w.fails.push(("deref".into(), format!("{}: Deref/AsRef disagree with value()", path)));
    }
    // owned copy
    let owned = Datum::from(r);
    if owned.value() != v || owned.span() != r.span() {
        w.fails.push(("Datum::from(Ref)".into(), format!("{}: the owned copy differs", path)));
    }
    // the owned copy (Datum::from(Ref), which clones the span tree) exposes the same structure
    if w.owned_walks > 0 && !path.contains('~') {
        w.owned_walks -= 1;
        walk(w, owned.as_ref(), v, format!("{}~owned", path), depth + 1);
    }
    let back: Value = owned.clone().into();
    if back != *v {
        w.fails.push(("Value::from(Datum)".into(), format!("{}: conversion to a value gives {}", path, RV::from_value(&back))));
    }
    // vectors
    match (r.vector_iter(), v.as_slice()) {
        (Some(it), Some(sl)) => {
            let kids: Vec<Ref> = it.collect();
            if kids.len() != sl.len() {
                w.fails.push(("vector_iter".into(), format!("{}: {} elements vs as_slice {}", path, kids.len(), sl.len())));
            } else {
                for (i, (k, x)) in kids.into_iter().zip(sl.iter()).enumerate() {
                    walk(w, k, x, format!("{}/v{}", path, i), depth + 1);
                }
            }
        }
        (None, None) => {}
        (a, b) => w.fails.push(("vector_iter".into(), format!("{}: vector_iter is {}, as_slice is {}", path, if a.is_some() { "Some" } else { "None" }, if b.is_some() { "Some" } else { "None" }))),
    }
    // pairs
    match (r.as_pair(), v.as_pair()) {
        (Some((ra, rd)), Some((va, vd))) => {
            if ra.value() != va || rd.value() != vd {
                w.fails.push(("as_pair".into(), format!("{}: as_pair fields differ", path)));
            }
        }
        (None, None) => {}
        _ => w.fails.push(("as_pair".into(), format!("{}: as_pair presence differs", path))),
    }
    // lists: same protocol step by step
    match (r.list_iter(), v.list_iter()) {
        (Some(mut ri), Some(mut vi)) => {
            let mut i = 0usize;
            loop {
                if ri.is_empty() != vi.is_empty() {
                    w.fails.push(("list_iter".into(), format!("{}: is_empty() differs before item {}", path, i)));
                    break;
                }
                let rp = ri.peek().map(|x| RV::from_value(x.value()));
                let vp = vi.peek().map(RV::from_value);
                if rp != vp {
                    w.fails.push(("list_iter".into(), format!("{}: peek() differs before item {}: {:?} vs {:?}", path, i, rp.map(|x| x.to_string()), vp.map(|x| x.to_string()))));
                    break;
                }
                let done = ri.is_empty();
                let rn = ri.next();
                let vn = vi.next();
                match (rn, vn) {
                    (Some(a), Some(b)) => walk(w, a, b, format!("{}/{}", path, i), depth + 1),
                    (None, None) => {}
                    (a, b) => {
                        w.fails.push(("list_iter".into(), format!("{}: next() #{}: datum {:?}, value {:?}", path, i, a.map(|x| RV::from_value(x.value()).to_string()), b.map(|x| RV::from_value(x).to_string()))));
                        break;
                    }
                }
                if done {
                    break;
                }
                i += 1;
                if i > 200_000 {
                    break;
                }
            }
        }
        (None, None) => {}
        (a, b) => w.fails.push(("list_iter".into(), format!("{}: list_iter is {}, Value::list_iter is {}", path, if a.is_some() { "Some" } else { "None" }, if b.is_some() { "Some" } else { "None" }))),
    }
}

fn check_accessors(acc: &mut Acc, sub: &str, rank: u64, input: &[u8], po: &PO) {
    let o = po.to_lexpr();
    acc.evals += 1;
    let d = match guard(|| lexpr::datum::from_slice_custom(input, o)) {
        Ok(Ok(d)) => d,
        _ => return,
    };
    let v = match guard(|| lexpr::from_slice_custom(input, o)) {
        Ok(Ok(v)) => v,
        _ => {
            let (h, pi) = (hex(input), po.index());
            acc.violation(sub, "datum-accepts-value-rejects", "datum-accepts-value-rejects", rank, format!("input={:?} opts=[{}]", show_bytes(input), po.describe()), "datum::from_slice_custom accepts, from_slice_custom does not".into(), || json!({"input_hex": h, "po": pi}));
            return;
        }
    };
    acc.nontrivial += 1;
    let mut fails = Vec::new();
    let r = guard(|| {
        let mut w = W { fails: &mut fails, owned_walks: 24 };
        walk(&mut w, d.as_ref(), &v, "root".into(), 0);
        // a clone of the whole datum exposes the same structure and equals the original
        let c = d.clone();
        w.owned_walks = 0;
        walk(&mut w, c.as_ref(), &v, "root~clone".into(), 0);

        // the Datum-level conveniences equal the Ref-level ones
        if d.list_iter().is_some() != d.as_ref().list_iter().is_some() || d.vector_iter().is_some() != d.as_ref().vector_iter().is_some() {
            w.fails.push(("Datum::list_iter".into(), "Datum-level and Ref-level iterators differ in presence".into()));
        }
        let owned: Value = d.clone().into();
        if owned != v {
            w.fails.push(("Value::from(Datum)".into(), "top-level conversion differs".into()));
        }
    });
    if let Err(p) = r {
        fails.push(("panic".into(), p));
    }
    acc.outcome(&RV::from_value(&v).nodes().min(8));
    let mut seen = std::collections::HashSet::new();
    for (kind, detail) in fails {
        if !seen.insert(kind.clone()) {
            continue;
        }
        let (h, pi) = (hex(input), po.index());
        acc.violation(sub, &kind, &kind, rank, format!("input={:?} opts=[{}]", trunc(&show_bytes(input), 120), po.describe()), detail, || json!({"input_hex": h, "po": pi}));
    }
}

/// E3-style: every history over {next_value, next_datum} of length <= depth gives, item for item,
/// what the all-next_value history gives (spans aside).
fn check_mixed_histories(acc: &mut Acc, rank: u64, input: &[u8], po: &PO, src: Src, depth: usize) {
    let o = po.to_lexpr();
    let all_v: Vec<Op> = vec![Op::NextValue; depth];
    let (base, _, _) = hist_replay(input, o, src, &all_v, false);
    let base: Vec<_> = base.iter().map(|r| r.value_view()).collect();
    for mask in 1u32..(1 << depth) {
        let hist: Vec<Op> = (0..depth).map(|i| if mask >> i & 1 == 1 { Op::NextDatum } else { Op::NextValue }).collect();
        let (res, _, _) = hist_replay(input, o, src, &hist, false);
        acc.evals += 1;
        acc.transitions += depth as u64;
        acc.states += 1;
        let res: Vec<_> = res.iter().map(|r| r.value_view()).collect();
        if res != base {
            let idx = res.iter().zip(base.iter()).position(|(a, b)| a != b).unwrap_or(0);
            let (h, pi) = (hex(input), po.index());
            acc.violation("mixed-histories", "history-dependent-result", "history-dependent-result", rank, format!("input={:?} opts=[{}] source={:?} history={:?}", show_bytes(input), po.describe(), src, hist), format!("call {}: {} ; with next_value only: {}", idx, res[idx].short(), base[idx].short()), || json!({"input_hex": h, "po": pi, "src": format!("{:?}", src), "depth": depth}));
            break;
        }
    }
    acc.nontrivial += 1;
    acc.outcome(&base.iter().filter(|r| !r.is_err()).count());
}

fn check_entry_points(acc: &mut Acc, rank: u64, input: &[u8], pcs: &[PO]) {
    use crate::outcome::{norm, Outcome};
    use crate::util::guard;
    let dn = |r: Result<Result<lexpr::Datum, lexpr::parse::Error>, String>| -> Outcome { norm(r.map(|x| x.map(|d| d.value().clone()))) };
    let text = std::str::from_utf8(input).ok();
    let mut pairs: Vec<(String, Outcome, Outcome)> = Vec::new();
    pairs.push(("from_slice".into(), dn(guard(|| lexpr::datum::from_slice(input))), norm(guard(|| lexpr::parse::from_slice(input)))));
    pairs.push(("from_slice_elisp".into(), dn(guard(|| lexpr::datum::from_slice_elisp(input))), norm(guard(|| lexpr::parse::from_slice_elisp(input)))));
    pairs.push(("from_reader".into(), dn(guard(|| lexpr::datum::from_reader(input))), norm(guard(|| lexpr::parse::from_reader(input)))));
    pairs.push(("from_reader_elisp".into(), dn(guard(|| lexpr::datum::from_reader_elisp(input))), norm(guard(|| lexpr::parse::from_reader_elisp(input)))));
    if let Some(t) = text {
        pairs.push(("from_str".into(), dn(guard(|| lexpr::datum::from_str(t))), norm(guard(|| lexpr::parse::from_str(t)))));
        pairs.push(("from_str_elisp".into(), dn(guard(|| lexpr::datum::from_str_elisp(t))), norm(guard(|| lexpr::parse::from_str_elisp(t)))));
    }
    for po in pcs {
        pairs.push((format!("from_slice_custom[{}]", po.index()), dn(guard(|| lexpr::datum::from_slice_custom(input, po.to_lexpr()))), norm(guard(|| lexpr::parse::from_slice_custom(input, po.to_lexpr())))));
        pairs.push((format!("from_reader_custom[{}]", po.index()), dn(guard(|| lexpr::datum::from_reader_custom(input, po.to_lexpr()))), norm(guard(|| lexpr::parse::from_reader_custom(input, po.to_lexpr())))));
        if let Some(t) = text {
            pairs.push((format!("from_str_custom[{}]", po.index()), dn(guard(|| lexpr::datum::from_str_custom(t, po.to_lexpr()))), norm(guard(|| lexpr::parse::from_str_custom(t, po.to_lexpr())))));
        }
    }
    for (name, d, v) in pairs {
        acc.evals += 1;
        acc.nontrivial += 1;
        acc.outcome(&(d.is_ok(), v.is_ok()));
        if matches!(d, Outcome::Panic(_)) || matches!(v, Outcome::Panic(_)) {
            continue; // totality is C03's business
        }
        if d != v {
            let base = name.split('[').next().unwrap_or("").to_string();
            let h = hex(input);
            acc.violation("entry-points", "entry-points-disagree", &format!("entry-points-disagree:{}", base), rank, format!("entry={} input={:?}", name, trunc(&show_bytes(input), 120)), format!("datum::{} gives {}, parse::{} gives {}", name, d.short(), name, v.short()), || json!({"input_hex": h, "po": 0, "entry_points": true}));
        }
    }
}

fn stream_pool() -> Vec<&'static [u8]> {
    vec![b"a", b"(a b)", b"(a . b)", b"#(1 2)", b"\"s\"", b"#\\x", b"1.5", b"'q", b"#:k", b"()", b"[x]", b"#u8(1)", b")", b"(a", b"#", b"1x", b"\"\\q\"", b"(a . b c)", b"#(a]", b"\xce\xbb", b"\xff", b"nil", b"?a"]
}

pub fn replay(sub: &str, case: &J, acc: &mut Acc) {
    let input = unhex(case["input_hex"].as_str().unwrap_or(""));
    let po = PO::from_index(case["po"].as_u64().unwrap_or(0));
    match sub {
        "entry-points" => check_entry_points(acc, 0, &input, &[PO::default_(), PO::elisp()]),
        "accessors" | "accessors-alphabet" => check_accessors(acc, sub, 0, &input, &po),
        "mixed-histories" => {
            let src = match case["src"].as_str() {
                Some("Reader") => Src::Reader,
                _ => Src::Slice,
            };
            check_mixed_histories(acc, 0, &input, &po, src, case["depth"].as_u64().unwrap_or(4) as usize);
        }
        _ => check_loops(acc, sub, 0, &input, &po),
    }
}

pub fn run(ctx: &Ctx) -> Report {
    let mut rep = Report::new(ctx, "model_checking");
    rep.assume("a pure differential between the two hand-duplicated code paths: no expected values; errors are compared by their Display text including the location");
    let thorough = ctx.tier.thorough();
    let pos = po15();
    let npo = pos.len() as u64;

    if ctx.want("loops-alphabet") {
        let k = if thorough { 5 } else { 4 };
        let n = count_upto(SIGMA.len() as u64, k);
        let sub = Sub::new("loops-alphabet", "every string of length <= k over the token alphabet x the 15 corner option sets x {str, slice, 1-byte reader}: the next_value loop, the next_datum loop and datum_iter, continuing after errors, yield the same items — equal values, the same error text and location at the same item, the end of input at the same point; non-trivial = more than one item", &format!("k = {}: {} strings x {}", k, n, npo));
        let accs = par_ranks(n * npo, |rank, acc| {
            let mut buf = Vec::new();
            let mut idx = Vec::new();
            unrank_string(rank / npo, SIGMA, &mut buf, &mut idx);
            let po = &pos[(rank % npo) as usize];
            acc.sample(rank, || format!("{:?} [{}]", show_bytes(&buf), po.describe()));
            // all three sources under new() / default / elisp / all-on, the slice source under the other eleven
            check_loops_src(acc, "loops-alphabet", rank, &buf, po, thorough || (rank % npo) < 4);
        });
        rep.absorb(sub, accs);
    }
    let corpus = corpus_all(thorough);
    if ctx.want("loops-streams") {
        // corpus texts and all sequences of <= 3 pool items joined by trivia
        let pool = stream_pool();
        let np = pool.len() as u64;
        let seps: [&[u8]; 4] = [b" ", b"\n", b" ;c\n", b"\x0c\t"];
        let nseq = count_upto(np, 3) - 1;
        let nr = if thorough { N_PO } else { npo };
        let total = (corpus.len() as u64 + nseq * 4) * nr;
        let sub = Sub::new("loops-streams", "the grammar corpus (both dialects, alternative spellings, malformed pool) and every sequence of <= 3 items from a 23-item pool of well-formed and malformed items joined by 4 separators, x option sets (15 corner sets; thorough: all 1536) x 3 sources, same oracle", &format!("({} + {}) inputs x {}", corpus.len(), nseq * 4, nr));
        let nc = corpus.len() as u64;
        let accs = par_ranks(total, |rank, acc| {
            let i = rank / nr;
            let po = if thorough { PO::from_index(rank % nr) } else { pos[(rank % nr) as usize] };
            let mut buf: Vec<u8> = Vec::new();
            let input: &[u8] = if i < nc {
                &corpus[i as usize]
            } else {
                let j = i - nc;
                let sep = seps[(j % 4) as usize];
                let mut r = j / 4 + 1;
                let mut len = 0;
                let mut p = 1u64;
                while r >= p {
                    r -= p;
                    p *= np;
                    len += 1;
                }
                let mut ix = vec![0usize; len];
                for q in (0..len).rev() {
                    ix[q] = (r % np) as usize;
                    r /= np;
                }
                for (q, it) in ix.iter().enumerate() {
                    if q > 0 {
                        buf.extend_from_slice(sep);
                    }
                    buf.extend_from_slice(pool[*it]);
                }
                &buf
            };
            acc.sample(rank, || format!("{:?}", trunc(&show_bytes(input), 60)));
            check_loops(acc, "loops-streams", rank, input, &po);
        });
        rep.absorb(sub, accs);
    }
    if ctx.want("entry-points") {
        // the nine datum::from_* functions against their lexpr::parse::from_* twins (seed C10-g3:
        // one entry point built with the wrong option set)
        let pcs = [PO::default_(), PO::elisp(), pos[(pos.len() - 1).min(7)]];
        let total = corpus.len() as u64;
        let sub = Sub::new("entry-points", "every datum::from_{str,slice,reader}{,_elisp,_custom} entry point against the lexpr::parse function of the same name on every corpus text (custom: default, Emacs Lisp and one corner option set): same value, or the same error with the same location; non-trivial = every comparison", &format!("{} texts x 15 entry-point pairs", corpus.len()));
        let accs = par_ranks(total, |rank, acc| {
            let input: &[u8] = &corpus[rank as usize];
            acc.sample(rank, || format!("{:?}", trunc(&show_bytes(input), 60)));
            check_entry_points(acc, rank, input, &pcs);
        });
        rep.absorb(sub, accs);
    }
    if ctx.want("loops-long") {
        // long streams with many failing items: both APIs must keep agreeing item for item, which
        // exposes state (the nesting budget) that only one of the two code paths forgets to restore
        let mut inputs: Vec<Vec<u8>> = Vec::new();
        for unit in ["') ", "`] ", ",@) ", "(a . ) ", "#(] ", "'#! ", "(1 . 2 3) ", "\"\\q\" ", "#\\spac ", "'", "(", "#("] {
            for n in [130usize, 200, 300] {
                let mut t = unit.repeat(n);
                t.push_str(" a (b) 'c ");
                t.push_str(&format!("{}x{}", "(".repeat(100), ")".repeat(100)));
                inputs.push(t.into_bytes());
            }
        }
        let opts = [PO::default_(), PO::elisp()];
        let sub = Sub::new("loops-long", "streams of 130 / 200 / 300 failing items of 12 kinds (failed quotations, mismatched closers, bad dotted tails, bad escapes, truncated names, unclosed openers) followed by well-formed items incl. a 100-deep datum: value loop, datum loop and datum_iter agree item for item over the whole stream, from all three sources", &format!("{} streams x 2 option sets", inputs.len()));
        let accs = par_ranks(inputs.len() as u64 * 2, |rank, acc| {
            let t = &inputs[(rank / 2) as usize];
            acc.sample(rank, || format!("{:?}", trunc(&show_bytes(t), 40)));
            check_loops(acc, "loops-long", rank, t, &opts[(rank % 2) as usize]);
        });
        rep.absorb(sub, accs);
    }
    if ctx.want("accessors") {
        let opts = [PO::default_(), PO::elisp(), PO::all_on()];
        let sub = Sub::new("accessors", "every corpus text that parses: the datum and the value walked in lockstep — Ref::value, Deref/AsRef, Datum::from(Ref), Value::from(Datum), vector_iter vs as_slice, as_pair vs Value::as_pair, list_iter vs Value::list_iter step by step (is_empty, peek, next incl. the None-then-tail protocol), recursively for every sub-datum; non-trivial = parsed", &format!("{} texts x 3 option sets", corpus.len()));
        let accs = par_ranks(corpus.len() as u64 * 3, |rank, acc| {
            let t = &corpus[(rank / 3) as usize];
            acc.sample(rank, || format!("{:?}", trunc(&show_bytes(t), 60)));
            check_accessors(acc, "accessors", rank, t, &opts[(rank % 3) as usize]);
        });
        rep.absorb(sub, accs);
    }
    if ctx.want("accessors-alphabet") {
        let k = if thorough { 5 } else { 4 };
        let n = count_upto(SIGMA.len() as u64, k);
        let two = [PO::default_(), PO::elisp()];
        let sub = Sub::new("accessors-alphabet", "the same lockstep walk for every string of length <= k over the token alphabet that parses x {default, elisp}", &format!("k = {}: {} x 2", k, n));
        let accs = par_ranks(n * 2, |rank, acc| {
            let mut buf = Vec::new();
            let mut idx = Vec::new();
            unrank_string(rank / 2, SIGMA, &mut buf, &mut idx);
            acc.sample(rank, || format!("{:?}", show_bytes(&buf)));
            check_accessors(acc, "accessors-alphabet", rank, &buf, &two[(rank % 2) as usize]);
        });
        rep.absorb(sub, accs);
    }
    if ctx.want("mixed-histories") {
        let k = 3;
        let n = count_upto(SIGMA.len() as u64, k);
        let depth = if thorough { 5 } else { 4 };
        let extra: Vec<Vec<u8>> = ["a b c d", "a ) b (c)", "(a) [b] #(c) 'd", "1 \"s\" #\\c x", ") ] a b", "(a . b) (c . d) e f", "a;c\nb;d\nc d", "'a `b ,c ,@d"].iter().map(|s| s.as_bytes().to_vec()).collect();
        let total = (n + extra.len() as u64) * 2;
        let po = PO::default_();
        let sub = Sub::new("mixed-histories", "E3: on one parser, every interleaving of next_value and next_datum calls of the stated length returns, call for call, what next_value alone returns (values, errors with locations, end of input); slice and reader sources", &format!("inputs: all strings <= {} over the token alphabet plus {} streams; all 2^{} interleavings", k, extra.len(), depth));
        let accs = par_ranks(total, |rank, acc| {
            let i = rank / 2;
            let src = if rank % 2 == 0 { Src::Slice } else { Src::Reader };
            let mut buf = Vec::new();
            let mut idx = Vec::new();
            let input: &[u8] = if i < n {
                unrank_string(i, SIGMA, &mut buf, &mut idx);
                &buf
            } else {
                &extra[(i - n) as usize]
            };
            acc.sample(rank, || format!("{:?}", show_bytes(input)));
            check_mixed_histories(acc, rank, input, &po, src, depth);
        });
        rep.absorb(sub, accs);
    }
    rep
}
