//! C01 — print -> parse identity in the default dialect, through every entry-point pair, and
//! readability by the independent reference reader.

use crate::domains::{a12, a5, actx, f64_lattice, n64, name_candidates, shapes, str_domain, PO};
use crate::model::reader::{plain_keyword, plain_symbol, read_one, RR};
use crate::par::par_ranks;
use crate::report::{Acc, Ctx, Report, Sub};
use crate::roundtrip::{cmp_roundtrip, matches_original, NOFAST};
use crate::rv::{show_bytes, RV};
use crate::util::{guard, trunc};
use lexpr::Value;
use serde_json::{json, Value as J};

fn leaf_class(m: &RV) -> String {
    match m {
        RV::Float(f) => {
            let s = lexpr::to_string(&Value::from(*f)).unwrap_or_default();
            format!("float[{}{}]", if s.contains('.') { "frac" } else { "nofrac" }, if s.contains('e') || s.contains('E') { "+exp" } else { "" })
        }
        RV::Int(_) => "int".into(),
        RV::Char(c) => format!("char[{}]", if c.is_ascii() { "ascii" } else { "non-ascii" }),
        RV::Str(_) => "string".into(),
        RV::Sym(_) => "symbol".into(),
        RV::Kw(_) => "keyword".into(),
        RV::Bytes(_) => "bytes".into(),
        RV::Cons(_, _) => "list".into(),
        RV::Vector(_) => "vector".into(),
        _ => "token".into(),
    }
}

fn culprit(m: &RV) -> String {
    // the first float / symbol leaf is usually what matters
    let mut found: Option<String> = None;
    m.any(&|x| {
        let _ = x;
        false
    });
    fn walk(m: &RV, out: &mut Option<String>) {
        if out.is_some() {
            return;
        }
        match m {
            RV::Cons(a, d) => {
                walk(a, out);
                walk(d, out);
            }
            RV::Vector(xs) => xs.iter().for_each(|x| walk(x, out)),
            RV::Float(_) => *out = Some(leaf_class(m)),
            _ => {}
        }
    }
    walk(m, &mut found);
    found.unwrap_or_else(|| leaf_class(m))
}

/// One value through the entry points. `full`: all four print and four parse entry points;
/// otherwise to_string/from_str and to_vec/from_slice only.
pub fn check_value(acc: &mut Acc, sub: &str, rank: u64, m: &RV, full: bool, case: &dyn Fn() -> J) {
    let v = m.to_value();
    acc.evals += 1;
    let w = || format!("value={}", trunc(&m.to_string(), 300));
    let cls = |kind: &str| format!("{}:{}", kind, culprit(m));
    // ---- print entry points
    let prints = guard(|| {
        let a = lexpr::to_string(&v).map(|s| s.into_bytes()).map_err(|e| e.to_string());
        let b = lexpr::to_vec(&v).map_err(|e| e.to_string());
        if !full {
            return vec![a, b];
        }
        let mut cbuf = Vec::new();
        let c = lexpr::to_writer(&mut cbuf, &v).map(|_| cbuf).map_err(|e| e.to_string());
        let d = Ok(format!("{}", v).into_bytes());
        // the io-writer entry point with writers that take 1 or 3 bytes per call (a legal io::Write)
        let mut short = Vec::new();
        for k in [1usize, 3] {
            struct Short(Vec<u8>, usize);
            impl std::io::Write for Short {
                fn write(&mut self, buf: &[u8]) -> std::io::Result<usize> {
                    let n = buf.len().min(self.1);
                    self.0.extend_from_slice(&buf[..n]);
                    Ok(n)
                }
                fn flush(&mut self) -> std::io::Result<()> {
                    Ok(())
                }
            }
            let mut w = Short(Vec::new(), k);
            short.push(lexpr::to_writer(&mut w, &v).map(|_| w.0).map_err(|e| e.to_string()));
        }
        let mut all = vec![a, b, c, d];
        all.extend(short);
        all
    });
    let prints = match prints {
        Ok(p) => p,
        Err(p) => {
            acc.violation(sub, "print-panic", &cls("print-panic"), rank, w(), p, case);
            return;
        }
    };
    let text = match &prints[0] {
        Ok(t) => t.clone(),
        Err(e) => {
            acc.violation(sub, "print-failed", &cls("print-failed"), rank, w(), e.clone(), case);
            return;
        }
    };
    for (i, p) in prints.iter().enumerate().skip(1) {
        if p.as_ref().ok() != Some(&text) {
            acc.violation(sub, "print-entry-points-differ", &cls("print-entry-points-differ"), rank, w(), format!("to_string gives {:?}, entry point #{} gives {:?}", show_bytes(&text), i, p.as_ref().map(|x| show_bytes(x))), case);
        }
    }
    // ---- parse entry points
    let text_str = match std::str::from_utf8(&text) {
        Ok(s) => s,
        Err(_) => {
            acc.violation(sub, "printed-text-not-utf8", "printed-text-not-utf8", rank, w(), show_bytes(&text), case);
            return;
        }
    };
    let mut results: Vec<(&str, Result<Result<Value, lexpr::parse::Error>, String>)> = vec![("from_str", guard(|| lexpr::from_str(text_str))), ("from_slice", guard(|| lexpr::from_slice(&text)))];
    if full {
        results.push(("from_reader", guard(|| lexpr::from_reader(&text[..]))));
        results.push(("str::parse", guard(|| text_str.parse::<Value>())));
    }
    for (name, r) in results {
        match r {
            Err(p) => acc.violation(sub, "parse-panic", &cls("parse-panic"), rank, w(), format!("{} panicked on {:?}: {}", name, trunc(text_str, 200), p), case),
            Ok(Err(e)) => acc.violation(sub, "not-readable", &cls("not-readable"), rank, w(), format!("{} rejects the printed text {:?}: {}", name, trunc(text_str, 200), e), case),
            Ok(Ok(g)) => {
                if let Err(e) = cmp_roundtrip(m, &RV::from_value(&g)) {
                    acc.violation(sub, "round-trip-differs", &cls("round-trip-differs"), rank, w(), format!("{} of {:?}: {}", name, trunc(text_str, 200), e), case);
                }
            }
        }
    }
    // ---- independent reader
    match read_one(&text, &PO::default_()) {
        RR::Value(mm) => {
            if let Err(e) = matches_original(&mm, m) {
                acc.violation(sub, "independent-reader-differs", &cls("independent-reader-differs"), rank, w(), format!("text {:?}: {}", trunc(text_str, 200), e), case);
            }
        }
        RR::Error => acc.violation(sub, "independent-reader-rejects", &cls("independent-reader-rejects"), rank, w(), format!("the printed text {:?} is not in the documented grammar", trunc(text_str, 200)), case),
        RR::Unspecified => acc.violation(sub, "outside-documented-grammar", &cls("outside-documented-grammar"), rank, w(), format!("the printed text {:?} uses syntax the documentation does not define", trunc(text_str, 200)), case),
    }
}

fn scalar_of_rank(r: u64) -> char {
    // 0..0xD800, 0xE000..=0x10FFFF
    let cp = if r < 0xD800 { r } else { r + 0x800 };
    char::from_u32(cp as u32).unwrap()
}
const N_SCALARS: u64 = 0x110000 - 0x800;

fn is_boundary_scalar(c: char) -> bool {
    let n = c as u32;
    [0x1f, 0x20, 0x7e, 0x7f, 0x80, 0xff, 0x100, 0x7ff, 0x800, 0xd7ff, 0xe000, 0xffff, 0x10000, 0x10ffff].contains(&n)
}

pub fn names_default() -> (Vec<String>, Vec<String>) {
    let po = PO::default_();
    let c = name_candidates(3);
    let syms: Vec<String> = c.iter().filter(|n| plain_symbol(n, &po)).cloned().collect();
    let kws: Vec<String> = c.iter().filter(|n| plain_keyword(n, 0, &po)).cloned().collect();
    (syms, kws)
}

/// V: context atoms, all two-leaf shapes over them, three-leaf shapes over A12, four-leaf over A5.
pub fn v_domain(thorough: bool) -> Vec<RV> {
    let ax = actx();
    let mut v = ax.clone();
    for s in shapes(2, 2) {
        for a in &ax {
            for b in &ax {
                v.push(s.build(&mut vec![a.clone(), b.clone()].into_iter()));
            }
        }
    }
    let a12 = a12();
    for s in shapes(3, if thorough { 3 } else { 2 }) {
        for a in &a12 {
            for b in &a12 {
                for c in &a12 {
                    v.push(s.build(&mut vec![a.clone(), b.clone(), c.clone()].into_iter()));
                }
            }
        }
    }
    let a5 = a5();
    for s in shapes(4, 2) {
        let n = a5.len();
        for i in 0..n * n * n * n {
            let ls = vec![a5[i % n].clone(), a5[(i / n) % n].clone(), a5[(i / n / n) % n].clone(), a5[i / n / n / n].clone()];
            v.push(s.build(&mut ls.into_iter()));
        }
    }
    v.extend(crate::domains::quotation_forms());
    v
}

fn siblings(n: usize) -> Vec<RV> {
    let kinds = vec![
        RV::Vector(vec![]),
        RV::Null,
        RV::Vector(vec![RV::sym("a")]),
        RV::list(vec![RV::sym("a")]),
        RV::cons(RV::sym("a"), RV::sym("b")),
        RV::Bytes(vec![]),
        RV::Bytes(vec![1, 2]),
        RV::str(""),
        RV::str("a\\\"b"),
        RV::list(vec![RV::sym("quote"), RV::sym("x")]),
        RV::Vector(vec![RV::Vector(vec![])]),
        RV::list(vec![RV::Null, RV::Vector(vec![])]),
        RV::sym("+.a"),
        RV::kw("k"),
        RV::Char('('),
        RV::Float(1e21),
        RV::Nil,
        RV::Bool(true),
    ];
    (0..n).map(|i| kinds[i % kinds.len()].clone()).collect()
}

pub fn long_values() -> Vec<RV> {
    let n = 10_000usize;
    let atoms = a12();
    let elems: Vec<RV> = (0..n).map(|i| atoms[i % atoms.len()].clone()).collect();
    vec![
        RV::list(elems.clone()),
        RV::append(elems.clone(), RV::sym("tail")),
        RV::Vector(elems),
        RV::Str("a\"λ\\\n€😀".repeat(n / 8)),
        RV::Bytes((0..n).map(|i| (i * 7) as u8).collect()),
        RV::sym(&"ab-".repeat(n / 3)),
        // many small compound siblings of every kind: anything the parser keeps per construct
        // (nesting budget, scratch space) must be given back between siblings (seed C01-c)
        RV::list(siblings(n)),
        RV::Vector(siblings(n)),
        RV::append(siblings(300), RV::Vector(vec![])),
        RV::list((0..300).map(|_| RV::Vector(vec![])).collect()),
        RV::Vector((0..300).map(|_| RV::Null).collect()),
        RV::list((0..300).map(|i| RV::list(vec![RV::Vector(vec![RV::Bytes(vec![]), RV::list(vec![RV::Int(i)])])])).collect()),
    ]
}

pub fn replay(sub: &str, case: &J, acc: &mut Acc) {
    let none = || json!(null);
    if let Some(cp) = case["scalar"].as_u64() {
        if let Some(c) = char::from_u32(cp as u32) {
            check_value(acc, sub, 0, &RV::Char(c), true, &none);
            check_value(acc, sub, 0, &RV::Str(c.to_string()), true, &none);
        }
        return;
    }
    if let Some(b) = case["f64_bits"].as_str() {
        let f = f64::from_bits(b.parse().unwrap_or(0));
        check_value(acc, sub, 0, &RV::Float(f), true, &none);
        return;
    }
    if let Some(i) = case["int"].as_str() {
        check_value(acc, sub, 0, &RV::Int(i.parse().unwrap_or(0)), true, &none);
        return;
    }
    if let Some(s) = case["string"].as_str() {
        check_value(acc, sub, 0, &RV::str(s), true, &none);
        return;
    }
    if let Some(s) = case["symbol"].as_str() {
        check_value(acc, sub, 0, &RV::sym(s), true, &none);
        for pv in crate::domains::in_positions(&RV::sym(s)) {
            check_value(acc, sub, 0, &pv, false, &none);
        }
        return;
    }
    if let Some(s) = case["keyword"].as_str() {
        check_value(acc, sub, 0, &RV::kw(s), true, &none);
        for pv in crate::domains::in_positions(&RV::kw(s)) {
            check_value(acc, sub, 0, &pv, false, &none);
        }
        return;
    }
    if let Some(b) = case["byte"].as_u64() {
        check_value(acc, sub, 0, &RV::Bytes(vec![b as u8]), true, &none);
        return;
    }
    if let Some(want) = case["value"].as_str() {
        let mut dom = v_domain(true);
        dom.extend(long_values());
        if let Some(m) = dom.iter().find(|m| m.to_string() == want) {
            check_value(acc, sub, 0, m, true, &none);
        } else {
            eprintln!("replay: value not found in the domain");
        }
    }
}

pub fn run(ctx: &Ctx) -> Report {
    let mut rep = Report::new(ctx, "exploration");
    let build = if NOFAST { " (build without fast-float-parsing)" } else { "" };
    rep.assume("values are built through the public enum; RV structural equality with bitwise floats is the comparison (the float clause of the statement is applied where bits differ)");
    rep.assume("std's f64 parser is the correctly rounded reference; ryu's output is the printed form");
    let thorough = ctx.tier.thorough();
    let sfx = |s: &str| if NOFAST { format!("{}-nofast", s) } else { s.to_string() };

    if ctx.want("scalars") {
        let name = sfx("scalars");
        let sub = Sub::new(&name, &format!("every Unicode scalar value as Value::Char and as a one-character Value::String{}: to_string/from_str and to_vec/from_slice for all, all four print x four parse entry points on the range boundaries and on every 4096th scalar; independent reader on all; non-trivial = every case", build), "1 112 064 scalars x 2 kinds");
        let accs = par_ranks(N_SCALARS, |rank, acc| {
            let c = scalar_of_rank(rank);
            let full = rank % 4096 == 0 || is_boundary_scalar(c) || (c as u32) < 0x100;
            acc.nontrivial += 2;
            if rank % 8192 == 0 {
                acc.outcome(&((c as u32) >> 8));
            }
            acc.sample(rank, || format!("U+{:04X}", c as u32));
            let case = || json!({"scalar": c as u32});
            check_value(acc, &name, rank, &RV::Char(c), full, &case);
            check_value(acc, &name, rank, &RV::Str(c.to_string()), full, &case);
        });
        rep.absorb(sub, accs);
    }
    if ctx.want("bytes") {
        let name = sfx("bytes");
        let sub = Sub::new(&name, "every byte value as a one-element byte vector, and all two-element byte vectors over 16 boundary octets; all entry points", "256 + 256 values");
        let oct = [0u8, 1, 9, 10, 31, 32, 99, 100, 127, 128, 199, 200, 254, 255, 48, 57];
        let accs = par_ranks(512, |rank, acc| {
            let m = if rank < 256 { RV::Bytes(vec![rank as u8]) } else { RV::Bytes(vec![oct[((rank - 256) / 16) as usize], oct[((rank - 256) % 16) as usize]]) };
            acc.nontrivial += 1;
            acc.outcome(&rank);
            acc.sample(rank, || m.to_string());
            let case = || json!({"value": m.to_string(), "byte": if rank < 256 { Some(rank) } else { None }});
            check_value(acc, &name, rank, &m, true, &case);
        });
        rep.absorb(sub, accs);
    }
    if ctx.want("integers") {
        let name = sfx("integers");
        let dom = n64();
        let sub = Sub::new(&name, "N64: 0, +-1, +-2^k, +-(2^k +- 1) for k <= 64, powers of ten and neighbours, i64::MIN/MAX, u64::MAX and neighbours, clipped to [-2^63, 2^64-1]; all entry points", &format!("{} integers", dom.len()));
        let accs = par_ranks(dom.len() as u64, |rank, acc| {
            let x = dom[rank as usize];
            acc.nontrivial += 1;
            acc.outcome(&(x.signum(), (x.unsigned_abs() as f64).log2() as i32));
            acc.sample(rank, || x.to_string());
            let case = || json!({"int": x.to_string()});
            check_value(acc, &name, rank, &RV::Int(x), true, &case);
        });
        rep.absorb(sub, accs);
    }
    if ctx.want("floats") {
        let name = sfx("floats");
        let dom = f64_lattice(if thorough { 9999 } else { 999 }, 1);
        let sub = Sub::new(&name, &format!("F64 lattice: every d x 10^e, d in 1..={}, e in -330..=310 (both signs), every power of two and its neighbours, extremes, subnormals{}: bit-exact where the statement says so, C05 accuracy elsewhere; all entry points; non-trivial = every case", if thorough { 9999 } else { 999 }, build), &format!("{} finite doubles", dom.len()));
        let accs = par_ranks(dom.len() as u64, |rank, acc| {
            let f = dom[rank as usize];
            acc.nontrivial += 1;
            if rank % 97 == 0 {
                acc.outcome(&(f.to_bits() >> 52));
            }
            acc.sample(rank, || format!("{:?}", f));
            let case = || json!({"f64_bits": f.to_bits().to_string()});
            check_value(acc, &name, rank, &RV::Float(f), rank % 16 == 0, &case);
        });
        rep.absorb(sub, accs);
    }
    if thorough && ctx.want("f32-image") {
        let name = sfx("f32-image");
        let sub = Sub::new(&name, "the f64 image of every finite f32 (2^32 bit patterns): to_string/from_str round trip and independent reader", "4 278 190 080 finite f32 values");
        let accs = par_ranks(1u64 << 32, |rank, acc| {
            let f = f32::from_bits(rank as u32);
            if !f.is_finite() {
                return;
            }
            acc.nontrivial += 1;
            if rank % (1 << 20) == 0 {
                acc.outcome(&(rank >> 23));
            }
            acc.sample(rank, || format!("{:?}", f));
            let x = f as f64;
            let case = || json!({"f64_bits": x.to_bits().to_string()});
            check_value(acc, &name, rank, &RV::Float(x), false, &case);
        });
        rep.absorb(sub, accs);
    }
    if !NOFAST && ctx.want("strings") {
        let dom = str_domain(3);
        let sub = Sub::new("strings", "STR: every string of length <= 3 over the 23-character trouble alphabet (quote, backslash, controls, NUL, DEL, U+80, Latin-1, BMP, astral, ; | # and hex-digit letters); all entry points; non-trivial = non-empty", &format!("{} strings", dom.len()));
        let accs = par_ranks(dom.len() as u64, |rank, acc| {
            let s = &dom[rank as usize];
            if !s.is_empty() {
                acc.nontrivial += 1;
            }
            acc.outcome(&(s.len(), s.chars().next()));
            acc.sample(rank, || format!("{:?}", s));
            let case = || json!({"string": s});
            check_value(acc, "strings", rank, &RV::Str(s.clone()), true, &case);
        });
        rep.absorb(sub, accs);
    }
    if !NOFAST && ctx.want("names") {
        let (syms, kws) = names_default();
        let total = syms.len() + kws.len();
        let sub = Sub::new("names", "NAMES(default): every identifier of length <= 3 over R7RS initials and subsequents (incl. a non-ASCII letter) plus the peculiar identifiers, filtered by 'plain in the default dialect', as symbol and as keyword, alone (all entry points) and in every syntactic position (alone in a list, head, last, dotted tail, vector element)", &format!("{} symbols + {} keywords", syms.len(), kws.len()));
        let accs = par_ranks(total as u64, |rank, acc| {
            let i = rank as usize;
            acc.nontrivial += 1;
            let (m, case): (RV, J) = if i < syms.len() { (RV::sym(&syms[i]), json!({"symbol": syms[i]})) } else { (RV::kw(&kws[i - syms.len()]), json!({"keyword": kws[i - syms.len()]})) };
            acc.outcome(&m.to_string().len());
            acc.sample(rank, || m.to_string());
            let c = || case.clone();
            check_value(acc, "names", rank, &m, true, &c);
            // and in every syntactic position (names of length <= 2 and the peculiar ones)
            if m.to_string().chars().count() <= 6 || i % 7 == 0 {
                for pv in crate::domains::in_positions(&m) {
                    check_value(acc, "names", rank, &pv, false, &c);
                }
            }
        });
        rep.absorb(sub, accs);
    }
    if ctx.want("shapes") {
        let name = sfx("shapes");
        let dom = v_domain(thorough);
        let sub = Sub::new(&name, &format!("V: the context atoms (chosen so that first and last printed byte cover every byte class), every two-leaf shape (proper list, dotted list, vector, nested to depth 2) over all ordered pairs of them, every three-leaf shape over the 14 atoms of A12, every four-leaf shape over 5 atoms{}; all entry points; non-trivial = compound value", build), &format!("{} values", dom.len()));
        let accs = par_ranks(dom.len() as u64, |rank, acc| {
            let m = &dom[rank as usize];
            if !m.is_atom() {
                acc.nontrivial += 1;
            }
            if rank % 101 == 0 {
                acc.outcome(&m.nodes());
            }
            acc.sample(rank, || m.to_string());
            let case = || json!({"value": m.to_string()});
            check_value(acc, &name, rank, m, rank % 8 == 0 || m.is_atom(), &case);
        });
        rep.absorb(sub, accs);
    }
    if !NOFAST && ctx.want("long") {
        let dom = long_values();
        let sub = Sub::new("long", "one proper list, dotted list, vector, string, byte vector and symbol of 10^4 elements; lists and vectors of 10^4 / 300 small compound siblings of every kind (empty and one-element vectors and lists, pairs, byte vectors, strings, quote forms, nested empties); all entry points", "12 values");
        let accs = par_ranks(dom.len() as u64, |rank, acc| {
            let m = &dom[rank as usize];
            acc.nontrivial += 1;
            acc.outcome(&rank);
            acc.sample(rank, || trunc(&m.to_string(), 60));
            let case = || json!({"value": m.to_string()});
            check_value(acc, "long", rank, m, true, &case);
        });
        rep.absorb(sub, accs);
    }
    if !NOFAST {
        crate::props::run_nofast_child(ctx, &mut rep);
    }
    rep
}
