//! C03 — parsing is total: any bytes, any options -> value or error; bounded recursion.

use crate::corpus::corpus_all;
use crate::domains::{bytes_upto3, po15, PO, N_B3, N_PO, SIGMA};
use crate::engine::child::{run_children, ChildObs, OPENERS};
use crate::engine::choice::ChunkReader;
use crate::engine::history::{explore, Op, OpResult, Src};
use crate::model::reader::{matches_value, read_one, RR};
use crate::outcome::{drive, Item, Style};
use crate::par::{count_upto, par_ranks, unrank_string};
use crate::report::{Acc, Ctx, Report, Sub};
use crate::roundtrip::NOFAST;
use crate::rv::{hex, show_bytes, unhex, RV};
use crate::util::{guard, trunc};
use lexpr::parse::Parser;
use serde_json::{json, Value as J};

/// Totality of every entry point on one (input, options): nothing may unwind.
fn check_total(acc: &mut Acc, sub: &str, rank: u64, input: &[u8], po: &PO, all_apis: bool) {
    let o = po.to_lexpr();
    let cap = 2 * input.len() + 4;
    let mut panics: Vec<(String, String)> = Vec::new();
    let mut note = |api: &str, r: Result<(), String>| {
        if let Err(p) = r {
            panics.push((api.to_string(), p));
        }
    };
    let mut ok_any = false;
    match guard(|| lexpr::from_slice_custom(input, o).is_ok()) {
        Ok(b) => ok_any |= b,
        Err(p) => note("from_slice_custom", Err(p)),
    }
    acc.evals += 1;
    if all_apis {
        if let Ok(s) = std::str::from_utf8(input) {
            note("from_str_custom", guard(|| drop(lexpr::from_str_custom(s, o))));
            note("datum::from_str_custom", guard(|| drop(lexpr::datum::from_str_custom(s, o))));
            let mut p = Parser::from_str_custom(s, o);
            for it in drive(&mut p, Style::NextValue, cap, false) {
                if let Item::Panic(pn) = it {
                    note("Parser<StrRead>::next_value", Err(pn));
                }
            }
            let mut p = Parser::from_str_custom(s, o);
            for it in drive(&mut p, Style::NextDatum, cap, false) {
                if let Item::Panic(pn) = it {
                    note("Parser<StrRead>::next_datum", Err(pn));
                }
            }
        }
        note("from_reader_custom", guard(|| drop(lexpr::from_reader_custom(ChunkReader { data: input, pos: 0, chunk: 1 }, o))));
        note("datum::from_slice_custom", guard(|| drop(lexpr::datum::from_slice_custom(input, o))));
        note("datum::from_reader_custom", guard(|| drop(lexpr::datum::from_reader_custom(input, o))));
        for (name, style) in [("next_value", Style::NextValue), ("next_datum", Style::NextDatum)] {
            let mut p = Parser::from_slice_custom(input, o);
            for it in drive(&mut p, style, cap, false) {
                if let Item::Panic(pn) = it {
                    note(&format!("Parser<SliceRead>::{}", name), Err(pn));
                }
            }
            let mut p = Parser::from_reader_custom(input, o);
            for it in drive(&mut p, style, cap, false) {
                if let Item::Panic(pn) = it {
                    note(&format!("Parser<IoRead>::{}", name), Err(pn));
                }
            }
        }
    }
    if ok_any {
        acc.nontrivial += 1;
    }
    for (api, p) in panics {
        let (h, pi) = (hex(input), po.index());
        // class: the panic site (message without the input-specific parts)
        let site: String = p.split(" at ").nth(1).map(|s| s.split(':').take(2).collect::<Vec<_>>().join(":")).unwrap_or_else(|| trunc(&p, 60));
        acc.violation(sub, "panic", &format!("panic:{}", site), rank, format!("api={} input={:?} opts=[{}]", api, show_bytes(input), po.describe()), p, || json!({"input_hex": h, "po": pi}));
    }
}

// ---------------------------------------------------------------------------------------------
// (c) depth acceptance

const NEST: &[(&str, &str)] = &[("(", ")"), ("[", "]"), ("#(", ")"), ("'", ""), ("`", ""), (",", ""), (",@", ""), ("(a . ", ")")];

fn nested_text(pattern: &[usize], d: usize) -> Vec<u8> {
    let mut open = String::new();
    let mut close = String::new();
    for i in 0..d {
        let (o, c) = NEST[pattern[i % pattern.len()]];
        open.push_str(o);
        close.insert_str(0, c);
    }
    format!("{}x{}", open, close).into_bytes()
}

fn check_depth(acc: &mut Acc, rank: u64, pattern: &[usize], d: usize, brackets: u8) {
    let text = nested_text(pattern, d);
    let po = PO { brackets, ..PO::default_() };
    let o = po.to_lexpr();
    acc.evals += 1;
    let pat_s: Vec<&str> = pattern.iter().map(|i| NEST[*i].0).collect();
    let w = format!("openers={:?} depth={} brackets={}", pat_s, d, brackets);
    let case = || json!({"pattern": pattern, "d": d, "brackets": brackets});
    let apis: [(&str, Result<Result<RV, lexpr::parse::Error>, String>); 4] = [
        ("from_slice", guard(|| lexpr::from_slice_custom(&text, o).map(|v| RV::from_value(&v)))),
        ("from_reader", guard(|| lexpr::from_reader_custom(&text[..], o).map(|v| RV::from_value(&v)))),
        ("datum::from_slice", guard(|| lexpr::datum::from_slice_custom(&text, o).map(|d| RV::from_value(d.value())))),
        ("datum::from_reader", guard(|| lexpr::datum::from_reader_custom(&text[..], o).map(|d| RV::from_value(d.value())))),
    ];
    for (api, r) in apis {
        match r {
            Err(p) => acc.violation("depth-acceptance", "panic", "panic", rank, format!("api={} {}", api, w), p, case),
            Ok(Err(e)) => {
                if d <= 100 {
                    acc.violation("depth-acceptance", "shallow-nesting-rejected", &format!("shallow-nesting-rejected:{}", pat_s.join("")), rank, format!("api={} {}", api, w), format!("nesting of {} levels (<= 100) was rejected: {}", d, e), case);
                }
            }
            Ok(Ok(v)) => {
                // the error documentation gives the limit: "more than 128 layers deep"
                if d > 128 {
                    acc.violation("depth-acceptance", "overdeep-accepted", &format!("overdeep-accepted:{}", pat_s.join("")), rank, format!("api={} {}", api, w), format!("nesting of {} levels (more than the documented 128) was accepted", d), case);
                }
                if d <= 100 {
                    acc.nontrivial += 1;
                    // right shape: the reference reader's value
                    if let RR::Value(m) = read_one(&text, &po) {
                        if let Err(e) = matches_value(&m, &v, NOFAST) {
                            acc.violation("depth-acceptance", "wrong-shape", "wrong-shape", rank, format!("api={} {}", api, w), e, case);
                        }
                    }
                }
            }
        }
    }
    acc.outcome(&(d > 100, pattern.len()));
}

// ---------------------------------------------------------------------------------------------
// (d) depth budget as state: E3 over segment sequences

fn segments() -> Vec<(&'static str, String)> {
    vec![
        ("shallow", "(a)".to_string()),
        ("deep100", format!("{}x{}", "(".repeat(100), ")".repeat(100))),
        ("deep127", format!("{}x{}", "(".repeat(127), ")".repeat(127))),
        ("quote120", format!("{}x", "'".repeat(120))),
        ("overdeep", "(".repeat(200)),
        ("overdeep-closed", format!("{}x{}", "#(".repeat(150), ")".repeat(150))),
        ("overdeep-quotes", format!("{}x", "'".repeat(200))),
        ("stray-closer", ")".to_string()),
        ("garbage", "#!".to_string()),
    ]
}

fn check_budget_history(acc: &mut Acc, rank: u64, seg_idx: &[usize], src: Src) {
    let segs = segments();
    let mut text = String::new();
    for &i in seg_idx {
        if !text.is_empty() {
            text.push(' ');
        }
        text.push_str(&segs[i].1);
    }
    let names: Vec<&str> = seg_idx.iter().map(|i| segs[*i].0).collect();
    let input = text.as_bytes();
    let o = lexpr::parse::Options::default();
    let mut viols: Vec<(String, String, String)> = Vec::new();
    let st = explore(input, o, src, &[Op::NextValue, Op::NextDatum], 40, 4000, false, |t| {
        if let OpResult::Panic(p) = t.actual {
            viols.push(("panic".into(), format!("{:?} then {:?}", t.history, t.op), p.clone()));
        }
        if let Some(fresh) = &t.fresh {
            if fresh.value_view() != t.actual.value_view() {
                viols.push((
                    "suffix-congruence".into(),
                    format!("{:?} then {:?} at offset {:?}", t.history, t.op, t.offset),
                    format!("on the used parser: {} ; on a fresh parser over the remaining input: {}", t.actual.short(), fresh.short()),
                ));
            }
        }
    });
    acc.evals += st.transitions;
    acc.states += st.states;
    acc.transitions += st.transitions;
    acc.nontrivial += 1;
    acc.outcome(&(st.states, st.merged));
    if st.capped {
        acc.count("history-cap-hit");
    }
    let mut seen = std::collections::HashSet::new();
    for (kind, hist, detail) in viols {
        if !seen.insert(kind.clone()) {
            continue;
        }
        let case = json!({"segments": seg_idx, "src": format!("{:?}", src)});
        acc.violation("depth-budget-histories", &kind, &kind, rank, format!("segments={:?} source={:?} history={}", names, src, hist), detail, || case);
    }
}

/// The nesting budget is state that outlives a datum: after every call that returns it must be
/// back at its initial value, otherwise a long enough stream (or one datum
/// with enough siblings) ends in a spurious "recursion limit exceeded" (seeds C01-c, C04-c: one
/// unit leaked per empty vector / per vector). Needs the state hook.
#[cfg(feature = "hooks")]
fn check_budget_restored(acc: &mut Acc, rank: u64, input: &[u8], po: &PO) {
    fn go<'de, R: lexpr::parse::Read<'de>>(mut p: Parser<R>, datum: bool) -> Option<(usize, u8, u8)> {
        let d0 = p.verif_state().1;
        for i in 0..64 {
            // Ok(true): a datum; Ok(false): end of input; Err: a parse error (the caller may go on)
            let r = if datum { guard(std::panic::AssertUnwindSafe(|| p.next_datum().map(|x| x.is_some()))) } else { guard(std::panic::AssertUnwindSafe(|| p.next_value().map(|x| x.is_some()))) };
            let ended = match r {
                Err(_) => return None, // panic: reported by the totality sub-checks
                Ok(Ok(more)) => !more,
                Ok(Err(_)) => false,
            };
            // after every call that returned — with a datum, at the end, or with an error — the
            // budget is what it was: every level that was entered has been left again
            let d = p.verif_state().1;
            if d != d0 {
                return Some((i, d0, d));
            }
            if ended {
                return None;
            }
        }
        None
    }
    acc.evals += 1;
    let o = po.to_lexpr();
    let runs: [(&str, Option<(usize, u8, u8)>); 4] = [
        ("slice/value", go(Parser::from_slice_custom(input, o), false)),
        ("slice/datum", go(Parser::from_slice_custom(input, o), true)),
        ("reader/value", go(Parser::from_reader_custom(input, o), false)),
        ("reader/datum", go(Parser::from_reader_custom(input, o), true)),
    ];
    for (how, r) in runs {
        if let Some((i, d0, d)) = r {
            let (h, pi) = (hex(input), po.index());
            acc.violation("depth-budget-restored", "budget-not-restored", &format!("budget-not-restored:{}", how), rank, format!("api={} input={:?} opts=[{}]", how, trunc(&show_bytes(input), 80), po.describe()), format!("after call #{} returned the remaining nesting budget is {} instead of {}", i, d, d0), || json!({"budget_input_hex": h, "po": pi}));
        }
    }
}
#[cfg(not(feature = "hooks"))]
fn check_budget_restored(acc: &mut Acc, _rank: u64, _input: &[u8], _po: &PO) {
    acc.count("skipped-no-hooks");
}

fn check_fault_totality(acc: &mut Acc, rank: u64, t: &[u8], po: &PO) {
    use crate::engine::choice::FaultReader;
    let o = po.to_lexpr();
    for k in 0..=t.len() {
        for sticky in [true, false] {
            for style in [Style::NextValue, Style::NextDatum, Style::ValueIter, Style::DatumIter, Style::ParserIter] {
                acc.evals += 1;
                let payload = (rank << 16) ^ ((k as u64) << 1) ^ sticky as u64;
                let mut p = Parser::from_reader_custom(FaultReader { data: t, pos: 0, chunk: 1, fail_at: k, sticky, fired: 0, payload }, o);
                let items = drive(&mut p, style, 2 * t.len() + 8, true);
                acc.outcome(&(items.len().min(4), matches!(items.last(), Some(Item::End))));
                if let Some(Item::Panic(pn)) = items.iter().find(|i| matches!(i, Item::Panic(_))) {
                    let (h, pi) = (hex(t), po.index());
                    acc.violation("totality-faults", "panic", "panic", rank, format!("style={:?} input={:?} fail_at={} sticky={} opts=[{}]", style, show_bytes(t), k, sticky, po.describe()), pn.clone(), || json!({"fault_text_hex": h, "po": pi}));
                }
            }
        }
    }
}

/// 300 consecutive over-deep errors on one parser, then a 100-deep datum must still be accepted.
fn check_repeated_overdeep(acc: &mut Acc, api: Style) {
    let unit = format!("{} ", "(".repeat(130));
    let tail = format!("{}x{}", "(".repeat(100), ")".repeat(100));
    // errors consume the openers they looked at; pad generously and find the tail by parsing on
    let text = format!("{}\n{}", unit.repeat(300), ")".repeat(130 * 300));
    let _ = tail;
    let mut p = Parser::from_str(&text);
    let items = drive(&mut p, api, 400, false);
    acc.evals += items.len() as u64;
    acc.nontrivial += 1;
    for (i, it) in items.iter().enumerate() {
        if let Item::Panic(pn) = it {
            acc.violation("depth-budget-histories", "panic", "panic-after-repeated-errors", i as u64, format!("api={:?} after {} over-deep errors on one parser", api, i), pn.clone(), || json!({"repeated_overdeep": format!("{:?}", api)}));
            break;
        }
    }
}

// ---------------------------------------------------------------------------------------------

fn pathological_cases(thorough: bool) -> Vec<J> {
    let mut cases = Vec::new();
    let ns: &[u64] = &[1000, 1_000_000];
    let nop = OPENERS.len();
    let mut patterns: Vec<Vec<usize>> = (0..nop).map(|i| vec![i]).collect();
    for i in 0..nop {
        for j in 0..nop {
            if i != j {
                patterns.push(vec![i, j]);
            }
        }
    }
    if thorough {
        for i in 0..nop {
            for j in 0..nop {
                for k in 0..nop {
                    if !(i == j && j == k) && !(i == j || j == k) {
                        patterns.push(vec![i, j, k]);
                    }
                }
            }
        }
    }
    for pat in &patterns {
        for &n in ns {
            if pat.len() > 1 && n == 1000 && !thorough {
                continue;
            }
            for opts in ["default", "elisp"] {
                for src in ["str", "reader"] {
                    for api in ["value", "datum"] {
                        cases.push(json!({"kind": "parse", "family": "openers", "pattern": pat, "n": n, "opts": opts, "src": src, "api": api, "stack": 2 << 20}));
                    }
                }
            }
        }
    }
    // long runs: unterminated string, escapes, comment, symbol, digit run, exponent digit run, hex char
    let runs: Vec<(&str, &str, &str)> = vec![
        ("\"", "a", ""),
        ("\"", "\\\\", ""),
        ("\"", "\\x41;", ""),
        ("\"", "\\n", "\""),
        (";", "c", ""),
        ("", "a", ""),
        ("", "λ", ""),
        ("", "1", ""),
        ("1.", "5", ""),
        ("1e", "9", ""),
        ("1.5e-", "9", ""),
        ("#x", "f", ""),
        ("#b", "1", ""),
        ("#\\x", "0", ""),
        ("#\\x", "f", ""),
        ("#u8(", "1 ", ")"),
        ("#u8(", "1 ", ""),
        ("(", "a ", ")"),
        ("#(", "a ", ")"),
        ("[", "a ", "]"),
        ("(", "\"s\" ", ""),
        ("", "a ", ""),
        ("", "() ", ""),
        ("?", "\\", ""),
        ("\"", "\\101", "\""),
        ("\"", "\\u00e9", ""),
        ("#:", "k", ""),
        (":", "k", ""),
        ("", "#t ", ""),
        ("(a . ", "b", ")"),
    ];
    for (prefix, unit, suffix) in runs {
        for opts in ["default", "elisp"] {
            for src in ["str", "reader"] {
                for api in ["value", "datum"] {
                    // datum positions from str are O(n) per token: keep long token *lists* smaller there
                    let n: u64 = if api == "datum" && src == "str" && unit.ends_with(' ') { 30_000 } else { 1_000_000 };
                    cases.push(json!({"kind": "parse", "family": "run", "prefix": prefix, "unit": unit, "suffix": suffix, "n": n, "opts": opts, "src": src, "api": api, "stack": 2 << 20}));
                    // the same, cut inside a UTF-8 sequence
                    cases.push(json!({"kind": "parse", "family": "run", "prefix": prefix, "unit": unit, "suffix": "", "suffix_hex": "ce", "n": n.min(100_000), "opts": opts, "src": "reader", "api": api, "stack": 2 << 20}));
                }
            }
        }
    }
    cases
}

fn judge_pathological(acc: &mut Acc, rank: u64, c: &J, obs: &ChildObs) {
    acc.evals += 1;
    let desc = if c["family"].as_str() == Some("openers") {
        let pat: Vec<&str> = c["pattern"].as_array().unwrap().iter().map(|x| OPENERS[x.as_u64().unwrap() as usize]).collect();
        format!("openers {:?} repeated to {} bytes", pat, c["n"])
    } else {
        format!("{:?} + {:?} repeated to {} bytes + {:?}{}", c["prefix"].as_str().unwrap_or(""), c["unit"].as_str().unwrap_or(""), c["n"], c["suffix"].as_str().unwrap_or(""), c["suffix_hex"].as_str().map(|h| format!(" + bytes {}", h)).unwrap_or_default())
    };
    let w = format!("{} opts={} src={} api={}", desc, c["opts"].as_str().unwrap_or(""), c["src"].as_str().unwrap_or(""), c["api"].as_str().unwrap_or(""));
    acc.outcome(&std::mem::discriminant(obs));
    let cls_base = if c["family"].as_str() == Some("openers") { format!("{}", c["pattern"]) } else { format!("{}{}", c["prefix"].as_str().unwrap_or(""), c["unit"].as_str().unwrap_or("")) };
    match obs {
        ChildObs::Returned(s) => {
            acc.nontrivial += 1;
            // over-deep nesting (every nesting opener repeated >= 1000 times) must be rejected
            let nesting = c["family"].as_str() == Some("openers") && c["pattern"].as_array().unwrap().iter().all(|x| x.as_u64().unwrap() != 8);
            if nesting && s.starts_with("ok") {
                acc.violation("pathological", "overdeep-accepted", &format!("overdeep-accepted:{}", cls_base), rank, w, "nesting far beyond the documented limit was accepted".into(), || c.clone());
            }
        }
        ChildObs::Panicked(p) => acc.violation("pathological", "panic", &format!("panic:{}", cls_base), rank, w, p.clone(), || c.clone()),
        ChildObs::Died(how) if how.contains("signal 9") => {
            // killed from outside (out of memory) even when run alone: not an observation of the code
            eprintln!("MACHINERY: pathological case killed by the kernel even when run alone: {}", c);
            std::process::exit(2);
        }
        ChildObs::Died(how) => acc.violation("pathological", "process-died", &format!("process-died:{}", cls_base), rank, w, format!("the process died ({}) — unbounded recursion / stack overflow", how), || c.clone()),
        ChildObs::TimedOut(t) => acc.violation("pathological", "no-answer", &format!("no-answer:{}", cls_base), rank, w, format!("no answer within {} s", t), || c.clone()),
    }
}

pub fn replay(sub: &str, case: &J, acc: &mut Acc) {
    if case.get("kind").is_some() {
        let obs = run_children(&[case.clone()], 1, 60, "replay");
        judge_pathological(acc, 0, case, &obs[0]);
        return;
    }
    if let Some(segs) = case["segments"].as_array() {
        let idx: Vec<usize> = segs.iter().map(|x| x.as_u64().unwrap_or(0) as usize).collect();
        let src = match case["src"].as_str() {
            Some("Reader") => Src::Reader,
            Some("Str") => Src::Str,
            _ => Src::Slice,
        };
        check_budget_history(acc, 0, &idx, src);
        return;
    }
    if let Some(h) = case["fault_text_hex"].as_str() {
        check_fault_totality(acc, 0, &unhex(h), &PO::from_index(case["po"].as_u64().unwrap_or(0)));
        return;
    }
    if let Some(h) = case["budget_input_hex"].as_str() {
        check_budget_restored(acc, 0, &unhex(h), &PO::from_index(case["po"].as_u64().unwrap_or(0)));
        return;
    }
    if case.get("repeated_overdeep").is_some() {
        check_repeated_overdeep(acc, Style::NextValue);
        check_repeated_overdeep(acc, Style::NextDatum);
        return;
    }
    if let Some(p) = case["pattern"].as_array() {
        let pat: Vec<usize> = p.iter().map(|x| x.as_u64().unwrap_or(0) as usize).collect();
        check_depth(acc, 0, &pat, case["d"].as_u64().unwrap_or(1) as usize, case["brackets"].as_u64().unwrap_or(0) as u8);
        return;
    }
    let input = unhex(case["input_hex"].as_str().unwrap_or(""));
    let po = PO::from_index(case["po"].as_u64().unwrap_or(0));
    check_total(acc, sub, 0, &input, &po, true);
}

pub fn run(ctx: &Ctx) -> Report {
    let mut rep = Report::new(ctx, "model_checking");
    rep.assume("built with overflow checks and debug assertions on: 'never panics' has to hold for users who build in debug mode");
    rep.assume("nesting levels 101..=128 are unspecified (>= 100 accepted is stated; the documented limit is the 128 of ErrorCode::RecursionLimitExceeded); 'fails to return' is observed with a 20 s watchdog on inputs that take milliseconds");
    let thorough = ctx.tier.thorough();
    let sfx = |s: &str| if NOFAST { format!("{}-nofast", s) } else { s.to_string() };

    if NOFAST {
        // the non-fast build differs only in the float path: run the literal-heavy sweeps there
        if ctx.want("totality-T") {
            let name = sfx("totality-T");
            let k = 4;
            let n = count_upto(SIGMA.len() as u64, k);
            let two = [PO::default_(), PO::elisp()];
            let sub = Sub::new(&name, "all strings <= 4 over the token alphabet x {default, elisp}, every entry point, in the build without fast-float-parsing", &format!("{} x 2", n));
            let accs = par_ranks(n * 2, |rank, acc| {
                let mut buf = Vec::new();
                let mut idx = Vec::new();
                unrank_string(rank / 2, SIGMA, &mut buf, &mut idx);
                check_total(acc, &name, rank, &buf, &two[(rank % 2) as usize], false);
                acc.outcome(&(buf.len()));
            });
            rep.absorb(sub, accs);
        }
        return rep;
    }

    if ctx.want("totality-B3") {
        let pos: Vec<PO> = if thorough { po15() } else { vec![PO::default_(), PO::elisp()] };
        let npo = pos.len() as u64;
        let sub = Sub::new("totality-B3", "all byte strings of length <= 3 x option sets ({default, elisp}; thorough: the 15 corner sets) x {str when UTF-8, slice, 1-byte reader} x {single-shot value and datum entry points, next_value loop, next_datum loop} (quick: all eleven calls under default options and for every input shorter than 3 bytes, the slice value entry point for 3-byte inputs under elisp), every call under catch_unwind; non-trivial = accepted input", &format!("{} cells, 11 calls each", N_B3 * npo));
        let accs = par_ranks(N_B3 * npo, |rank, acc| {
            let mut buf = Vec::with_capacity(3);
            bytes_upto3(rank / npo, &mut buf);
            let po = &pos[(rank % npo) as usize];
            acc.sample(rank, || format!("{:?} [{}]", show_bytes(&buf), po.describe()));
            if rank % 4099 == 0 {
                acc.outcome(&buf.len());
            }
            check_total(acc, "totality-B3", rank, &buf, po, thorough || rank % npo == 0 || buf.len() < 3);
        });
        rep.absorb(sub, accs);
    }
    if ctx.want("totality-T") {
        let pos = po15();
        let npo = pos.len() as u64;
        let k = if thorough { 5 } else { 4 };
        let n = count_upto(SIGMA.len() as u64, k);
        let sub = Sub::new("totality-T", "all strings of length <= k over the 40-symbol token alphabet x the 15 corner option sets, all sources and entry points", &format!("k = {}: {} x {}", k, n, npo));
        let accs = par_ranks(n * npo, |rank, acc| {
            let mut buf = Vec::new();
            let mut idx = Vec::new();
            unrank_string(rank / npo, SIGMA, &mut buf, &mut idx);
            let po = &pos[(rank % npo) as usize];
            acc.sample(rank, || format!("{:?} [{}]", show_bytes(&buf), po.describe()));
            if rank % 4099 == 0 {
                acc.outcome(&buf.len());
            }
            // every entry point under default / elisp / all-on; the slice value entry point under the rest
            check_total(acc, "totality-T", rank, &buf, po, (rank % npo) == 1 || (rank % npo) == 2 || (rank % npo) == 3);
        });
        rep.absorb(sub, accs);
    }
    if ctx.want("totality-all-options") {
        let k = if thorough { 4 } else { 3 };
        let n = count_upto(SIGMA.len() as u64, k);
        let sub = Sub::new("totality-all-options", "all strings of length <= k over the token alphabet x all 1536 parser option sets (slice source, value entry point)", &format!("k = {}: {} x 1536", k, n));
        let accs = par_ranks(n * N_PO, |rank, acc| {
            let mut buf = Vec::new();
            let mut idx = Vec::new();
            unrank_string(rank / N_PO, SIGMA, &mut buf, &mut idx);
            let po = PO::from_index(rank % N_PO);
            acc.sample(rank, || format!("{:?} [{}]", show_bytes(&buf), po.describe()));
            if rank % 65537 == 0 {
                acc.outcome(&(buf.len(), po.index() % 16));
            }
            check_total(acc, "totality-all-options", rank, &buf, &po, false);
        });
        rep.absorb(sub, accs);
    }
    if ctx.want("totality-corpus") {
        // corpus texts, pairs of them (streams of a few hundred bytes), and C05's long literal forms
        let corpus = corpus_all(false);
        let small: Vec<&Vec<u8>> = corpus.iter().filter(|t| t.len() <= 40).collect();
        let ns = small.len() as u64;
        let stride = if thorough { 1 } else { 7 };
        let total = ns * ns / stride;
        let two = [PO::default_(), PO::elisp(), PO::all_on()];
        let sub = Sub::new("totality-corpus", "ordered pairs of corpus texts (well-formed texts of both dialects and the malformed pool) joined by a space, as streams through every entry point x {default, elisp, all-on}; quick: every 7th pair", &format!("{} pairs x 3 option sets", total));
        let accs = par_ranks(total * 3, |rank, acc| {
            let pr = (rank / 3) * stride;
            let (a, b) = (small[(pr / ns) as usize], small[(pr % ns) as usize]);
            let mut buf = a.to_vec();
            buf.push(b' ');
            buf.extend_from_slice(b);
            if rank % 1009 == 0 {
                acc.outcome(&buf.len());
            }
            acc.sample(rank, || format!("{:?}", show_bytes(&buf)));
            check_total(acc, "totality-corpus", rank, &buf, &two[(rank % 3) as usize], true);
        });
        rep.absorb(sub, accs);
    }
    if ctx.want("totality-literals") {
        // the numeric literal families of C05 (L1 boundary integers in four radixes up to 2^1030,
        // L4 long forms with exponents up to +-10^12) under the totality oracle only
        let mut lits: Vec<String> = crate::props::c05::l1_cases().into_iter().map(|c| c.text).collect();
        lits.extend(crate::props::c05::l4_cases().into_iter().map(|c| c.text));
        let opts = [PO::default_(), PO::elisp()];
        let sub = Sub::new("totality-literals", "C05's literal families L1 (boundary integers in all radixes, with signs and leading zeros, up to 2^1030) and L4 (long digit runs with every exponent in +-{0..30, 300..330, 400, 4000, 2^31-1, 2^31, 10^12}), bare and inside a list, through every entry point x {default, elisp}: no panic (arithmetic overflow checks are on)", &format!("{} literals x 2 positions x 2 option sets", lits.len()));
        let n = lits.len() as u64;
        let accs = par_ranks(n * 4, |rank, acc| {
            let l = &lits[(rank / 4) as usize];
            let text = if rank % 2 == 0 { l.clone().into_bytes() } else { format!("(a {} . {})", l, l).into_bytes() };
            if rank % 257 == 0 {
                acc.outcome(&text.len().min(64));
            }
            acc.sample(rank, || trunc(&show_bytes(&text), 60));
            check_total(acc, "totality-literals", rank, &text, &opts[((rank / 2) % 2) as usize], true);
        });
        rep.absorb(sub, accs);
    }
    if ctx.want("depth-acceptance") {
        let mut patterns: Vec<Vec<usize>> = Vec::new();
        let nn = NEST.len();
        for i in 0..nn {
            patterns.push(vec![i]);
            for j in 0..nn {
                if i != j {
                    patterns.push(vec![i, j]);
                }
                for k in 0..nn {
                    if i != j && j != k && (thorough || (i + j + k) % 3 == 0) {
                        patterns.push(vec![i, j, k]);
                    }
                }
            }
        }
        let depths: Vec<usize> = (1..=130).collect();
        let total = (patterns.len() * depths.len() * 2) as u64;
        let sub = Sub::new("depth-acceptance", "every pattern of length <= 3 over the eight nesting openers ( [ #( ' ` , ,@ '(a . ', nested d = 1..=130 levels around an atom and closed properly, under both bracket options, value and datum entry points, slice and reader: d <= 100 must parse and have the reference reader's shape; d > 128 (the documented limit) must be rejected; levels in between must not panic; non-trivial = accepted with d <= 100", &format!("{} patterns x 130 depths x 2 bracket options", patterns.len()));
        let np = patterns.len() as u64;
        let accs = par_ranks(total, |rank, acc| {
            let pat = &patterns[(rank % np) as usize];
            let rest = rank / np;
            let d = depths[(rest % 130) as usize];
            let br = (rest / 130) as u8;
            acc.sample(rank, || format!("{:?} d={} brackets={}", pat, d, br));
            check_depth(acc, rank, pat, d, br);
        });
        rep.absorb(sub, accs);
    }
    if ctx.want("depth-budget-histories") {
        let nseg = segments().len() as u64;
        let maxk = if thorough { 4 } else { 3 };
        let nseq = count_upto(nseg, maxk) - 1;
        let mut sub = Sub::new(
            "depth-budget-histories",
            "E3: inputs built from all sequences of <= k segments {shallow datum, 100-deep, 127-deep, 120 quotes, over-deep run, over-deep closed vector, 200 quotes, stray closer, garbage token}; BFS over all histories of next_value / next_datum to exhaustion on one parser (slice and reader), state = (offset, remaining depth budget); invariant in every state: the result equals that of a fresh parser over the remaining input (suffix congruence) — a leaked depth budget shows up as a rejected 100- or 127-deep datum; plus 300 consecutive over-deep errors on one parser",
            &format!("k = {}: {} segment sequences x 2 sources", maxk, nseq),
        );
        let accs = par_ranks(nseq * 2, |rank, acc| {
            let mut r = rank / 2 + 1;
            let mut len = 0;
            let mut p = 1u64;
            while r >= p {
                r -= p;
                p *= nseg;
                len += 1;
            }
            let mut idx = vec![0usize; len];
            for i in (0..len).rev() {
                idx[i] = (r % nseg) as usize;
                r /= nseg;
            }
            acc.sample(rank, || format!("segments {:?}", idx));
            check_budget_history(acc, rank, &idx, if rank % 2 == 0 { Src::Slice } else { Src::Reader });
        });
        let capped: u64 = accs.iter().map(|a| a.counters.get("history-cap-hit").copied().unwrap_or(0)).sum();
        if capped > 0 {
            sub.cap(format!("{} inputs hit the history depth/state cap (40 calls / 4000 states)", capped));
        }
        let mut accs = accs;
        // (on worker threads: large stacks, and the abort handler can name the case)
        let extra = par_ranks(2, |rank, acc| check_repeated_overdeep(acc, if rank == 0 { Style::NextValue } else { Style::NextDatum }));
        accs.extend(extra);
        rep.absorb(sub, accs);
    }
    if ctx.want("totality-faults") {
        // "every input source kind": a stream that fails — once, or from some offset on for good —
        // is an input source too; every call still has to come back (seed C03-e2: a comment
        // skipper that reads again after an error spins forever on a reader that keeps failing)
        let texts: Vec<Vec<u8>> = corpus_all(false).into_iter().filter(|t| t.len() <= 16).collect();
        let sub = Sub::new(
            "totality-faults",
            "a stream source failing at every byte offset of every corpus text of at most 16 bytes (malformed pool included), for good or once, read 1 byte per call; value and datum loops, value_iter, datum_iter and Iterator for Parser, default and Emacs Lisp options: every call returns (watchdog) without panicking, and a loop of at most 2*len+8 calls reaches the end of input or keeps reporting errors; non-trivial = every case",
            &format!("{} texts x 2 option sets", texts.len()),
        );
        let two = [PO::default_(), PO::elisp()];
        let accs = par_ranks(texts.len() as u64 * 2, |rank, acc| {
            let t = &texts[(rank / 2) as usize];
            let po = &two[(rank % 2) as usize];
            acc.nontrivial += 1;
            acc.sample(rank, || format!("{:?} [{}]", show_bytes(t), po.describe()));
            check_fault_totality(acc, rank, t, po);
        });
        rep.absorb(sub, accs);
    }
    if ctx.want("depth-budget-restored") {
        let k = if thorough { 4 } else { 3 };
        let n = count_upto(SIGMA.len() as u64, k);
        let corpus = corpus_all(thorough);
        let two = [PO::default_(), PO::elisp(), PO::all_on()];
        let total = (n + corpus.len() as u64) * 3;
        let sub = Sub::new(
            "depth-budget-restored",
            "state invariant on the real parser (hook verif_state): for every string of length <= k over the token alphabet and every corpus text, under {default, elisp, everything-on} options, slice and reader source, value and datum API: after every call that returns (a datum, end of input, or an error after which the caller goes on) the remaining nesting budget equals its initial value — a leak on any path ends, after enough calls, in a 100-deep datum being refused; non-trivial = the first datum is well-formed",
            &format!("k = {}: ({} strings + {} corpus texts) x 3 option sets x 4 parsers", k, n, corpus.len()),
        );
        let accs = par_ranks(total, |rank, acc| {
            let po = &two[(rank % 3) as usize];
            let r = rank / 3;
            let mut buf = Vec::new();
            let mut idx = Vec::new();
            let text: &[u8] = if r < n {
                unrank_string(r, SIGMA, &mut buf, &mut idx);
                &buf
            } else {
                &corpus[(r - n) as usize]
            };
            if matches!(guard(|| lexpr::from_slice_custom(text, po.to_lexpr()).is_ok()), Ok(true)) {
                acc.nontrivial += 1;
            }
            acc.sample(rank, || format!("{:?} [{}]", trunc(&show_bytes(text), 40), po.describe()));
            acc.outcome(&(text.len().min(6), text.first().copied()));
            check_budget_restored(acc, rank, text, po);
        });
        rep.absorb(sub, accs);
    }
    if ctx.want("pathological") {
        let cases = pathological_cases(thorough);
        let sub = Sub::new(
            "pathological",
            "E4 (child processes, 2 MiB thread stack, 20 s watchdog): each of the 9 openers and every ordered pair (thorough: triples) repeated to 10^3 / 10^6 bytes; 10^6-byte unterminated strings, escapes, comments, symbols, digit / exponent / hex runs, long flat lists, the same cut inside a UTF-8 sequence; x {default, elisp} x {str, reader} x {value, datum}: the call must return (Ok or Err), and over-deep nesting must be rejected; non-trivial = the call returned",
            &format!("{} child cases", cases.len()),
        );
        // an inconclusive observation (no answer within 20 s on a loaded machine, killed by the
        // kernel) is repeated alone with 300 s before it counts
        let obs = crate::engine::child::run_children_retry(&cases, ctx.threads.min(16), 20, 300, "c03");
        let mut acc = Acc::new();
        for (i, (c, o)) in cases.iter().zip(obs.iter()).enumerate() {
            if i < 3 || i % (cases.len() / 8).max(1) == 0 {
                acc.samples.push((i as u64, format!("{} -> {}", c, o.short())));
            }
            judge_pathological(&mut acc, i as u64, c, o);
        }
        rep.absorb(sub, vec![acc]);
    }
    crate::props::run_nofast_child(ctx, &mut rep);
    rep
}
