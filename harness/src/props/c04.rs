//! C04 — Serde round trip: Rust data -> S-expression -> Rust data is the identity.

use crate::par::par_ranks;
use crate::report::{Acc, Ctx, Report, Sub};
use crate::serde_fam::{family, Budget};
use serde_json::{json, Value as J};

pub fn budget(thorough: bool) -> Budget {
    Budget { cap: if thorough { 100_000 } else { 3_000 }, long: if thorough { 2_000 } else { 300 } }
}

pub fn replay(_sub: &str, case: &J, acc: &mut Acc) {
    let fam = family();
    let b = budget(case["thorough"].as_bool().unwrap_or(false));
    let t = case["type"].as_u64().unwrap_or(0) as usize;
    let i = case["i"].as_u64().unwrap_or(0) as usize;
    if t >= fam.len() || i >= fam[t].count(&b) {
        eprintln!("replay: case not in the domain any more");
        return;
    }
    for (kind, detail) in fam[t].roundtrip(&b, i) {
        acc.violation("round-trip", &kind, &kind, 0, format!("type={} value={}", fam[t].name(), fam[t].describe(&b, i)), detail, || case.clone());
    }
}

pub fn run(ctx: &Ctx) -> Report {
    let mut rep = Report::new(ctx, "exploration");
    rep.assume("serde, serde_derive, serde_bytes and std collections are trusted; floats compare bitwise on the value path (incl. NaN and infinities) and to C05 accuracy on the text paths (finite only)");
    let thorough = ctx.tier.thorough();
    let fam = family();
    let b = budget(thorough);
    // (type, inhabitant) pairs
    let mut cases: Vec<(usize, usize)> = Vec::new();
    for (t, r) in fam.iter().enumerate() {
        for i in 0..r.count(&b) {
            cases.push((t, i));
        }
    }
    let sub = Sub::new(
        "round-trip",
        "every inhabitant of every type of the family (all 8 integer widths at their boundaries, f32/f64 incl. specials, bool, char, strings, byte buffers, unit, nested options, sequences and sets of length 0/1/2/3/long, tuples, arrays, maps with integer/char/string/enum keys, unit/newtype/tuple/empty structs, an enum with unit, newtype(Vec/Option/()/tuple/Box<enum>), tuple(0/1/2) and struct(0/1/2) variants, nested one and two levels, enums in maps in structs): from_value(to_value(x)) == x, and the same through to_string/from_str, to_vec/from_slice, to_writer/from_reader and the three _custom pairs given the default option sets; distinct inhabitants must have distinct encodings; non-trivial = every case",
        &format!("{} types, {} (type, value) pairs, 7 paths each", fam.len(), cases.len()),
    );
    let accs = par_ranks(cases.len() as u64, |rank, acc| {
        let (t, i) = cases[rank as usize];
        acc.evals += 7;
        acc.nontrivial += 1;
        acc.outcome(&t);
        acc.sample(rank, || format!("{}: {}", fam[t].name(), fam[t].describe(&b, i)));
        for (kind, detail) in fam[t].roundtrip(&b, i) {
            acc.violation("round-trip", &kind, &format!("{}:{}", kind, fam[t].name()), rank, format!("type={} value={}", fam[t].name(), fam[t].describe(&b, i)), detail, || json!({"type": t, "i": i, "thorough": thorough}));
        }
    });
    rep.absorb(sub, accs);

    if ctx.want("injectivity") {
        // vacuity guard and collision check: number of distinct S-expressions == number of inhabitants
        let sub = Sub::new("injectivity", "per type: distinct inhabitants give distinct S-expressions (two Rust values must not collapse to one encoding)", &format!("{} types", fam.len()));
        let accs = par_ranks(fam.len() as u64, |rank, acc| {
            let t = rank as usize;
            let n = fam[t].count(&b);
            let mut seen: std::collections::HashMap<String, usize> = std::collections::HashMap::new();
            for i in 0..n {
                acc.evals += 1;
                if let Some(enc) = fam[t].encoding(&b, i) {
                    let key = if fam[t].name().starts_with("HashMap") { let (mut xs, tl) = crate::model::list::decompose(&enc); xs.sort_by_key(|x| x.to_string()); crate::rv::RV::append(xs, tl).to_string() } else { format!("{}", enc) };
                    // RV::Display truncates long lists; include the node count to disambiguate
                    let key = format!("{}#{}", key, enc.nodes());
                    if let Some(j) = seen.insert(key.clone(), i) {
                        let (a, bb) = (fam[t].describe(&b, j), fam[t].describe(&b, i));
                        if a != bb {
                            acc.violation("injectivity", "two-values-one-encoding", &format!("two-values-one-encoding:{}", fam[t].name()), rank, format!("type={} values {} and {}", fam[t].name(), a, bb), format!("both serialize to {}", crate::util::trunc(&key, 200)), || json!({"type": t, "i": i, "thorough": thorough}));
                        }
                    }
                }
            }
            acc.nontrivial += 1;
            acc.outcome(&seen.len());
            acc.sample(rank, || format!("{}: {} inhabitants, {} distinct encodings", fam[t].name(), n, seen.len()));
        });
        rep.absorb(sub, accs);
    }
    rep
}
