//! C12 — datum sequences: concatenation, trivia insensitivity, terminating iteration.

use crate::corpus::corpus_all;
use crate::domains::{a12, actx, shapes, triv, PO, PR, SIGMA};
use crate::engine::choice::ChunkReader;
use crate::engine::history::{explore, Op, OpResult, Src, ALL_OPS};
use crate::model::fold::fold;
use crate::model::reader::is_trivia_byte;
use crate::model::tokens::layout;
use crate::outcome::{drive, show_items, Item, Style, STYLES};
use crate::par::{count_upto, par_ranks, unrank_string};
use crate::props::c02::{allowed, mk_vals, Val};
use crate::report::{Acc, Ctx, Report, Sub};
use crate::roundtrip::cmp_roundtrip;
use crate::rv::{hex, show_bytes, unhex, RV};
use crate::util::trunc;
use lexpr::parse::{Parser, Read};
use serde_json::{json, Value as J};

fn dialects() -> [(&'static str, Option<PR>, PR, PO); 2] {
    [("default", None, PR::default_(), PO::default_()), ("elisp", Some(PR::elisp()), PR::elisp(), PO::elisp())]
}

/// Parse a stream and compare with the expected values followed by the end of input.
fn check_stream(acc: &mut Acc, sub: &str, rank: u64, text: &[u8], po: &PO, expected: &[RV], what: &str) {
    acc.evals += 1;
    let o = po.to_lexpr();
    // the clause holds for every input source
    for src in 0..3 {
        let items = match src {
            0 => {
                let mut p = Parser::from_slice_custom(text, o);
                drive(&mut p, Style::NextValue, expected.len() + 2, true)
            }
            1 => {
                let mut p = Parser::from_reader_custom(text, o);
                drive(&mut p, Style::NextValue, expected.len() + 2, true)
            }
            _ => match std::str::from_utf8(text) {
                Ok(s) => {
                    let mut p = Parser::from_str_custom(s, o);
                    drive(&mut p, Style::NextValue, expected.len() + 2, true)
                }
                Err(_) => continue,
            },
        };
        let mut ok = items.len() == expected.len() + 1 && items.last() == Some(&Item::End);
        if ok {
            for (it, e) in items.iter().zip(expected.iter()) {
                match it {
                    Item::Val(g) => {
                        if cmp_roundtrip(e, g).is_err() {
                            ok = false;
                        }
                    }
                    _ => ok = false,
                }
            }
        }
        if src == 0 {
            acc.outcome(&(items.len(), ok, expected.iter().map(|e| std::mem::discriminant(e)).collect::<Vec<_>>()));
        }
        if !ok {
            let srcname = ["slice", "reader", "str"][src];
            let kind = if items.iter().any(|i| matches!(i, Item::Err(_))) { "stream-rejected" } else { "stream-differs" };
            let exp_s: Vec<String> = expected.iter().map(|e| trunc(&e.to_string(), 60)).collect();
            let (h, pi) = (hex(text), po.index());
            let ex: Vec<String> = expected.iter().map(|e| e.to_string()).collect();
            acc.violation(sub, kind, &format!("{}:{}:{}", kind, what, srcname), rank, format!("source={} text={:?} opts=[{}]", srcname, trunc(&show_bytes(text), 160), po.describe()), format!("expected {} then end of input; got {}", exp_s.join(" | "), show_items(&items)), || json!({"input_hex": h, "po": pi, "expected": ex}));
        }
    }
}

fn printable(vals: Vec<RV>) -> Vec<Val> {
    mk_vals(vals)
}

fn print_dialect(m: &RV, pr: &Option<PR>) -> Option<Vec<u8>> {
    crate::corpus::print_with(m, pr.as_ref())
}

// ---------------------------------------------------------------------------------------------

/// Iteration: the five styles on one input; each must reach End within the cap; they agree up to
/// and including the first error item; successful items advance the offset.
fn check_iteration(acc: &mut Acc, rank: u64, input: &[u8], po: &PO, reader: bool) {
    let o = po.to_lexpr();
    let cap = 2 * input.len() + 4;
    acc.evals += 1;
    let run = |style: Style| -> (Vec<Item>, Vec<usize>) {
        fn go<'de, R: Read<'de>>(mut p: Parser<R>, style: Style, cap: usize) -> (Vec<Item>, Vec<usize>) {
            let mut items = Vec::new();
            let mut offs = Vec::new();
            for _ in 0..cap {
                let it = crate::outcome::step(&mut p, style);
                #[cfg(feature = "hooks")]
                offs.push(p.verif_state().0);
                let stop = matches!(it, Item::End | Item::Panic(_));
                items.push(it);
                if stop {
                    break;
                }
            }
            (items, offs)
        }
        if reader {
            go(Parser::from_reader_custom(ChunkReader { data: input, pos: 0, chunk: 1 }, o), style, cap)
        } else {
            go(Parser::from_slice_custom(input, o), style, cap)
        }
    };
    let (h, pi) = (hex(input), po.index());
    let case = || json!({"input_hex": h, "po": pi, "reader": reader});
    let w = |st: Style| format!("style={:?} source={} input={:?} opts=[{}]", st, if reader { "reader" } else { "slice" }, show_bytes(input), po.describe());
    let mut first: Option<Vec<Item>> = None;
    for st in STYLES {
        let (items, offs) = run(st);
        // termination
        if items.last() != Some(&Item::End) {
            if matches!(items.last(), Some(Item::Panic(_))) {
                continue; // C03
            }
            acc.violation("iteration", "does-not-terminate", &format!("does-not-terminate:{:?}", st), rank, w(st), format!("{} items from {} bytes of input without reaching the end: {} …", items.len(), input.len(), show_items(&items[..items.len().min(4)])), case);
            continue;
        }
        // progress: every successful item consumes input
        let mut prev = 0usize;
        for (i, it) in items.iter().enumerate() {
            if let Some(&off) = offs.get(i) {
                if matches!(it, Item::Val(_)) && off <= prev {
                    acc.violation("iteration", "item-without-progress", "item-without-progress", rank, w(st), format!("item {} ({}) did not advance the byte offset ({} -> {})", i, it.short(), prev, off), case);
                    break;
                }
                prev = off;
            }
        }
        // agreement over the whole run, also after error items (a caller that goes on after an
        // error sees the same sequence whichever way it iterates); errors compare by category
        // and message, locations included
        let upto = items.len();
        let head: Vec<Item> = items[..upto].to_vec();
        match &first {
            None => first = Some(head),
            Some(f) => {
                if *f != head {
                    acc.violation("iteration", "styles-disagree", &format!("styles-disagree:{:?}", st), rank, w(st), format!("next_value loop: {} ; this style: {}", show_items(f), show_items(&head)), case);
                }
            }
        }
        acc.outcome(&(items.len().min(5), upto == items.len()));
    }
    if first.map(|f| f.len() > 1).unwrap_or(false) {
        acc.nontrivial += 1;
    }
}

/// E3 histories over all eight operations: suffix congruence; expect_end semantics.
fn check_histories(acc: &mut Acc, rank: u64, input: &[u8], po: &PO, src: Src, depth: usize) {
    let o = po.to_lexpr();
    let mut viols: Vec<(String, String, String)> = Vec::new();
    let st = explore(input, o, src, &ALL_OPS, depth, 3000, src != Src::Reader, |t| {
        if let Some(fresh) = &t.fresh {
            if *fresh != *t.actual && !matches!(t.actual, OpResult::Panic(_)) {
                viols.push(("suffix-congruence".into(), format!("{:?} then {:?} at offset {:?}", t.history, t.op, t.offset), format!("on the used parser: {} ; on a fresh parser over the remaining input: {}", t.actual.short(), fresh.short())));
            }
        }
        if t.op == Op::ExpectEnd {
            if let (Some(off), Some(off2)) = (t.offset, t.new_offset) {
                let rest = &input[off.min(input.len())..];
                // only trivia (incl. comments) remains?
                let mut i = 0;
                let mut only_trivia = true;
                while i < rest.len() {
                    if is_trivia_byte(rest[i]) {
                        i += 1;
                    } else if rest[i] == b';' {
                        while i < rest.len() && rest[i] != b'\n' {
                            i += 1;
                        }
                    } else {
                        only_trivia = false;
                        break;
                    }
                }
                let ok = matches!(t.actual, OpResult::Unit);
                if ok != only_trivia && !matches!(t.actual, OpResult::Panic(_)) {
                    viols.push(("expect_end".into(), format!("{:?} then expect_end at offset {}", t.history, off), format!("only trivia remains = {}, but expect_end returned {}", only_trivia, t.actual.short())));
                }
                // never consumes a non-trivia byte
                if off2 > off + i {
                    viols.push(("expect_end-consumes".into(), format!("{:?} then expect_end at offset {}", t.history, off), format!("offset moved to {} past the first non-trivia byte at {}", off2, off + i)));
                }
            }
        }
    });
    acc.evals += st.transitions;
    acc.states += st.states;
    acc.transitions += st.transitions;
    acc.nontrivial += 1;
    acc.outcome(&(st.states.min(50), st.merged.min(50)));
    let mut seen = std::collections::HashSet::new();
    for (kind, hist, detail) in viols {
        if !seen.insert(kind.clone()) {
            continue;
        }
        let (h, pi) = (hex(input), po.index());
        acc.violation("histories", &kind, &kind, rank, format!("input={:?} opts=[{}] source={:?} history={}", show_bytes(input), po.describe(), src, hist), detail, || json!({"input_hex": h, "po": pi, "src": format!("{:?}", src), "depth": depth}));
    }
}

/// The five ways of reading a stream agree item for item (reference: next_value loop on the slice;
/// the others on the stream source). With `all_values`, every item must be a value.
fn check_ways(acc: &mut Acc, sub: &str, rank: u64, text: &[u8], po: &PO, all_values: bool, what: &str) {
    let o = po.to_lexpr();
    let cap = text.len() + 4;
    let reference = {
        let mut p = Parser::from_slice_custom(text, o);
        drive(&mut p, Style::NextValue, cap, false)
    };
    let (h, pi) = (hex(text), po.index());
    if all_values {
        let n = reference.len().saturating_sub(1);
        let ok = reference.last() == Some(&Item::End) && reference[..n].iter().all(|i| matches!(i, Item::Val(_)));
        if !ok {
            let bad = reference.iter().position(|i| !matches!(i, Item::Val(_))).unwrap_or(0);
            acc.violation(sub, "stream-rejected", "stream-rejected:spelled", rank, what.to_string(), format!("item {} of the next_value loop is {}", bad, reference.get(bad).map(|i| show_items(std::slice::from_ref(i))).unwrap_or_default()), || json!({"input_hex": h, "po": pi, "ways": true}));
        }
    }
    for style in [Style::ValueIter, Style::DatumIter, Style::ParserIter, Style::NextDatum] {
        let mut p = Parser::from_reader_custom(text, o);
        let items = drive(&mut p, style, cap, false);
        if items != reference {
            let first = items.iter().zip(reference.iter()).position(|(a, b)| a != b).unwrap_or(items.len().min(reference.len()));
            acc.violation(sub, "ways-disagree", &format!("ways-disagree:{:?}", style), rank, format!("style={:?} {}", style, what), format!("first difference from the next_value loop at item {}: {} vs {}", first, items.get(first).map(|i| show_items(std::slice::from_ref(i))).unwrap_or_default(), reference.get(first).map(|i| show_items(std::slice::from_ref(i))).unwrap_or_default()), || json!({"input_hex": h, "po": pi, "ways": true}));
        }
    }
}

pub fn replay(sub: &str, case: &J, acc: &mut Acc) {
    let input = unhex(case["input_hex"].as_str().unwrap_or(""));
    let po = PO::from_index(case["po"].as_u64().unwrap_or(0));
    if case["ways"].as_bool() == Some(true) {
        check_ways(acc, sub, 0, &input, &po, sub.ends_with("spelled"), "replayed stream");
        return;
    }
    match sub {
        "iteration" => check_iteration(acc, 0, &input, &po, case["reader"].as_bool().unwrap_or(false)),
        "histories" => {
            let src = match case["src"].as_str() {
                Some("Reader") => Src::Reader,
                Some("Str") => Src::Str,
                _ => Src::Slice,
            };
            check_histories(acc, 0, &input, &po, src, case["depth"].as_u64().unwrap_or(4) as usize);
        }
        _ => {
            // stream checks: re-parse from every source and compare with the recorded expectation
            let o = po.to_lexpr();
            let n = case["expected"].as_array().map(|a| a.len()).unwrap_or(0);
            let want: Vec<String> = case["expected"].as_array().map(|a| a.iter().map(|x| x.as_str().unwrap_or("").to_string()).collect()).unwrap_or_default();
            for src in 0..2 {
                let items = if src == 0 {
                    let mut p = Parser::from_slice_custom(&input, o);
                    drive(&mut p, Style::NextValue, n + 2, true)
                } else {
                    let mut p = Parser::from_reader_custom(&input[..], o);
                    drive(&mut p, Style::NextValue, n + 2, true)
                };
                let got: Vec<String> = items.iter().filter_map(|i| if let Item::Val(v) = i { Some(v.to_string()) } else { None }).collect();
                if got != want || items.last() != Some(&Item::End) {
                    acc.violation(sub, "stream-differs", "stream-differs", 0, format!("source={} text={:?}", ["slice", "reader"][src], show_bytes(&input)), format!("expected {:?}, got {}", want, show_items(&items)), || case.clone());
                }
            }
        }
    }
}

pub fn run(ctx: &Ctx) -> Report {
    let mut rep = Report::new(ctx, "model_checking");
    rep.assume("values are printed by the real printer of the dialect and compared modulo the documented fold (floats as in C01); trivia = space, tab, CR, LF, FF and ';…LF' comments");
    rep.assume("termination bound: a deterministic parser over a finite input has at most 2(len+1) (offset, failed) states, so more than 2*len+4 items without reaching the end proves a cycle");
    let thorough = ctx.tier.thorough();
    let tr = triv();
    let seps: Vec<&Vec<u8>> = tr.iter().filter(|t| !t.is_empty()).collect();

    if ctx.want("concatenation") {
        for (dname, pr, prm, po) in dialects() {
            let mut base = actx();
            let atoms = a12();
            for s in shapes(2, 1) {
                for a in &atoms {
                    for b in &atoms {
                        base.push(s.build(&mut vec![a.clone(), b.clone()].into_iter()));
                    }
                }
            }
            let vals: Vec<Val> = printable(base).into_iter().filter(|v| allowed(v, &prm, &po)).collect();
            let texts: Vec<Option<Vec<u8>>> = vals.iter().map(|v| print_dialect(&v.m, &pr)).collect();
            let nv = vals.len() as u64;
            let ns = seps.len() as u64;
            let name = format!("concatenation-{}", dname);
            // all ordered pairs x all separators; leading/trailing trivia rotate through TRIV
            let total = nv * nv * ns;
            let sub = Sub::new(&name, "every ordered pair of values (context atoms and all two-leaf shapes over 12 atoms) printed in this dialect and joined by every non-empty trivia string (single and double units of space, tab, CR, LF, FF, comment, plus a non-ASCII comment and a comment full of syntax characters), with leading and trailing trivia rotating through the same set and a final comment without newline: the value loop must yield exactly the (folded) values, then the end of input; non-trivial = every case", &format!("{} values: {} pairs x {} separators", nv, nv * nv, ns));
            let accs = par_ranks(total, |rank, acc| {
                let si = (rank % ns) as usize;
                let pair = rank / ns;
                let (i, j) = ((pair / nv) as usize, (pair % nv) as usize);
                let (ta, tb) = match (&texts[i], &texts[j]) {
                    (Some(a), Some(b)) => (a, b),
                    _ => return,
                };
                let lead = &tr[(rank % tr.len() as u64) as usize];
                let trail_i = ((rank / 7) % (tr.len() as u64 + 1)) as usize;
                let mut text = lead.clone();
                text.extend_from_slice(ta);
                text.extend_from_slice(seps[si]);
                text.extend_from_slice(tb);
                if trail_i < tr.len() {
                    text.extend_from_slice(&tr[trail_i]);
                } else {
                    text.extend_from_slice(b" ;c");
                }
                acc.nontrivial += 1;
                acc.sample(rank, || format!("{:?}", show_bytes(&text)));
                let exp = [fold(&prm, &po, &vals[i].m), fold(&prm, &po, &vals[j].m)];
                check_stream(acc, &name, rank, &text, &po, &exp, "pair");
            });
            rep.absorb(sub, accs);
            // triples over a smaller set, all separator pairs
            let small: Vec<usize> = (0..vals.len()).filter(|i| i % (if thorough { 3 } else { 13 }) == 0).collect();
            let nsm = small.len() as u64;
            let name3 = format!("concatenation3-{}", dname);
            let total3 = nsm * nsm * nsm * ns;
            let sub = Sub::new(&name3, "every ordered triple over a subset of the values x every separator (the second separator rotates)", &format!("{}^3 triples x {} separators", nsm, ns));
            let accs = par_ranks(total3, |rank, acc| {
                let si = (rank % ns) as usize;
                let t = rank / ns;
                let (i, j, k) = (small[(t / nsm / nsm) as usize], small[((t / nsm) % nsm) as usize], small[(t % nsm) as usize]);
                let (ta, tb, tc) = match (&texts[i], &texts[j], &texts[k]) {
                    (Some(a), Some(b), Some(c)) => (a, b, c),
                    _ => return,
                };
                let mut text = ta.clone();
                text.extend_from_slice(seps[si]);
                text.extend_from_slice(tb);
                text.extend_from_slice(seps[(si * 7 + 3) % seps.len()]);
                text.extend_from_slice(tc);
                acc.nontrivial += 1;
                acc.sample(rank, || format!("{:?}", show_bytes(&text)));
                let exp = [fold(&prm, &po, &vals[i].m), fold(&prm, &po, &vals[j].m), fold(&prm, &po, &vals[k].m)];
                check_stream(acc, &name3, rank, &text, &po, &exp, "triple");
            });
            rep.absorb(sub, accs);
        }
    }
    if ctx.want("long-streams") {
        // "all finite sequences": long ones too — whatever the parser keeps per datum (nesting
        // budget, scratch space, look-ahead) must be given back between the items of one stream
        // (seed C12-d3: one unit of the nesting budget per quotation, visible after 126 items)
        for (dname, pr, prm, po) in dialects() {
            let x = RV::sym("x");
            let kinds: Vec<RV> = vec![
                RV::list(vec![RV::sym("quote"), x.clone()]),
                RV::list(vec![RV::sym("quasiquote"), RV::list(vec![x.clone(), RV::list(vec![RV::sym("unquote"), x.clone()])])]),
                RV::list(vec![RV::sym("unquote-splicing"), x.clone()]),
                RV::Vector(vec![]),
                RV::Vector(vec![x.clone(), RV::Vector(vec![])]),
                RV::Null,
                RV::list(vec![x.clone(), RV::list(vec![RV::Null])]),
                RV::cons(x.clone(), RV::Int(1)),
                RV::Bytes(vec![1, 2]),
                RV::str("s\"\\"),
                RV::Char('('),
                RV::Float(1e21),
                RV::sym("a"),
                RV::kw("k"),
                RV::Int(-7),
            ];
            let vals: Vec<Val> = printable(kinds).into_iter().filter(|v| allowed(v, &prm, &po)).collect();
            let name = format!("long-streams-{}", dname);
            let lens: Vec<usize> = if thorough { vec![130, 400, 2000] } else { vec![130, 400] };
            // one stream per (length, rotation offset, separator family)
            let mut cases: Vec<(usize, usize, usize)> = Vec::new();
            for &n in &lens {
                for off in 0..vals.len() {
                    for sf in 0..3 {
                        cases.push((n, off, sf));
                    }
                }
            }
            let sub = Sub::new(&name, "streams of 130 and 400 (thorough: 2000) printed values — quote forms, empty and nested vectors and lists, pairs, byte vectors, strings, characters, numbers, symbols, keywords — as uniform streams of each kind and as rotating mixtures, separated by rotating trivia: the four ways of iterating, from slice, stream and str, must yield exactly these values and then the end of input; non-trivial = every stream", &format!("{} streams", cases.len() * 2));
            let accs = par_ranks(cases.len() as u64 * 2, |rank, acc| {
                let (n, off, sf) = cases[(rank / 2) as usize];
                let uniform = rank % 2 == 0;
                let mut text: Vec<u8> = Vec::new();
                let mut exp: Vec<RV> = Vec::with_capacity(n);
                for i in 0..n {
                    let v = &vals[if uniform { off } else { (off + i) % vals.len() }];
                    let t = match print_dialect(&v.m, &pr) {
                        Some(t) => t,
                        None => return,
                    };
                    text.extend_from_slice(&t);
                    let sep = match sf {
                        0 => seps[0],
                        1 => seps[(i * 5 + 1) % seps.len()],
                        _ => seps[(i + off) % seps.len()],
                    };
                    text.extend_from_slice(sep);
                    exp.push(fold(&prm, &po, &v.m));
                }
                acc.nontrivial += 1;
                acc.outcome(&(n, uniform, sf));
                acc.sample(rank, || format!("{} items, uniform={} first={:?}", n, uniform, crate::util::trunc(&show_bytes(&text), 40)));
                check_stream(acc, &name, rank, &text, &po, &exp, "long");
                // the four ways of iterating agree on the long stream as well
                check_ways(acc, &name, rank, &text, &po, false, &format!("stream of {} printed items", n));
            });
            rep.absorb(sub, accs);
        }
    }
    if ctx.want("long-streams") {
        // the same with hand-written spellings that the printer never produces (quote shorthands,
        // bracket lists, radix literals, character names): the four ways must agree item for item
        let spelled: Vec<&str> = vec!["'x", "`(x ,x ,@x)", ",@x", "''x", "#('x)", "(a . 'b)", "[a 'b]", "#xff", "#\\space", "#u8(1 2)", "\"s\"", "(a . (b . (c)))", "#(a #(b))", "x"];
        let name = "long-streams-spelled";
        let lens: Vec<usize> = if thorough { vec![130, 400, 2000] } else { vec![130, 400] };
        let mut cases: Vec<(usize, usize, bool)> = Vec::new();
        for &n in &lens {
            for off in 0..spelled.len() {
                cases.push((n, off, true));
                cases.push((n, off, false));
            }
        }
        let sub = Sub::new(name, "streams of 130 and 400 (thorough: 2000) hand-written spellings — quote shorthands, bracket lists, radix literals, character names, nested dotted notation — uniform and rotating, separated by rotating trivia, default options: next_value loop (slice), value_iter, datum_iter, Iterator for Parser and next_datum loop (stream) yield the same items, all of them values, then the end of input", &format!("{} streams", cases.len()));
        let accs = par_ranks(cases.len() as u64, |rank, acc| {
            let (n, off, uniform) = cases[rank as usize];
            let mut text: Vec<u8> = Vec::new();
            for i in 0..n {
                text.extend_from_slice(spelled[if uniform { off } else { (off + i) % spelled.len() }].as_bytes());
                text.extend_from_slice(seps[(i + off) % seps.len()]);
            }
            acc.evals += 1;
            acc.nontrivial += 1;
            acc.outcome(&(n, uniform, off));
            let po = PO::default_();
            check_ways(acc, name, rank, &text, &po, true, &format!("stream of {} items (uniform={}, first spelling {:?})", n, uniform, spelled[off]));
        });
        rep.absorb(sub, accs);
    }
    if ctx.want("trivia") {
        for (dname, pr, prm, po) in dialects() {
            let mut base: Vec<RV> = Vec::new();
            let atoms = a12();
            let ax = actx();
            for s in shapes(2, 2) {
                for a in &ax {
                    base.push(s.build(&mut vec![a.clone(), RV::sym("z")].into_iter()));
                    base.push(s.build(&mut vec![RV::Int(1), a.clone()].into_iter()));
                }
            }
            for s in shapes(3, 2) {
                for (i, a) in atoms.iter().enumerate() {
                    base.push(s.build(&mut vec![a.clone(), atoms[(i + 5) % 12].clone(), atoms[(i + 7) % 12].clone()].into_iter()));
                }
            }
            // quote shorthands
            for a in &atoms {
                for q in ["quote", "quasiquote", "unquote", "unquote-splicing"] {
                    base.push(RV::list(vec![RV::sym(q), a.clone()]));
                    base.push(RV::list(vec![RV::sym("f"), RV::list(vec![RV::sym(q), RV::list(vec![a.clone()])])]));
                }
            }
            let vals: Vec<Val> = printable(base).into_iter().filter(|v| allowed(v, &prm, &po)).collect();
            let name = format!("trivia-{}", dname);
            let sub = Sub::new(&name, "every value (two-leaf shapes with each context atom in first and last position, three-leaf shapes, quote shorthands spelled ' ` , ,@) laid out as its token sequence; every single replacement of a gap (before the first token, between any two tokens incl. after '(' and before ')', around the dot, after a shorthand, after the last token) by every trivia string, and every pair of replacements with the two-unit strings; the parsed value must not change; non-trivial = every layout", &format!("{} values", vals.len()));
            let accs = par_ranks(vals.len() as u64 * 2, |rank, acc| {
                let v = &vals[(rank / 2) as usize];
                let shorthand = rank % 2 == 1;
                let lay = match layout(&v.m, pr.as_ref(), shorthand) {
                    Some(l) => l,
                    None => return,
                };
                let expected = [fold(&prm, &po, &v.m)];
                let base_gaps = lay.default_gaps();
                acc.sample(rank, || format!("{:?}", show_bytes(&lay.render(&base_gaps).0)));
                let ng = base_gaps.len();
                for g in 0..ng {
                    for t in &tr {
                        if !lay.gap_allows(g, t) {
                            continue;
                        }
                        let mut gaps = base_gaps.clone();
                        gaps[g] = t.clone();
                        let (text, _) = lay.render(&gaps);
                        acc.nontrivial += 1;
                        check_stream(acc, &name, rank, &text, &po, &expected, "single-gap");
                    }
                }
                // pairs of gaps with a few representative trivia strings
                let reps: [&[u8]; 4] = [b"\n", b"\x0c", b";c\n", b"\t \r"];
                for g1 in 0..ng {
                    for g2 in (g1 + 1)..ng {
                        for t in reps {
                            let mut gaps = base_gaps.clone();
                            gaps[g1] = t.to_vec();
                            gaps[g2] = t.to_vec();
                            let (text, _) = lay.render(&gaps);
                            acc.nontrivial += 1;
                            check_stream(acc, &name, rank, &text, &po, &expected, "gap-pair");
                        }
                    }
                }
                // all gaps the same
                for t in reps {
                    let gaps: Vec<Vec<u8>> = (0..ng).map(|_| t.to_vec()).collect();
                    let (text, _) = lay.render(&gaps);
                    check_stream(acc, &name, rank, &text, &po, &expected, "all-gaps");
                }
            });
            rep.absorb(sub, accs);
        }
    }
    if ctx.want("iteration") {
        let k = if thorough { 5 } else { 4 };
        let n = count_upto(SIGMA.len() as u64, k);
        let corpus = corpus_all(thorough);
        let two = [PO::default_(), PO::elisp()];
        let total = (n + corpus.len() as u64) * 4;
        let sub = Sub::new("iteration", "every string of length <= k over the token alphabet and every corpus text (incl. the malformed pool) x {default, elisp} x {slice, 1-byte reader}: each of the five iteration styles (next_value loop, next_datum loop, value_iter, datum_iter, Iterator for Parser), continuing after errors, must reach the end within 2*len+4 items; the styles agree up to and including the first error item; every successful item advances the byte offset (hook); non-trivial = more than one item", &format!("k = {}: ({} + {}) inputs x 2 option sets x 2 sources x 5 styles", k, n, corpus.len()));
        let accs = par_ranks(total, |rank, acc| {
            let i = rank / 4;
            let po = &two[(rank % 2) as usize];
            let reader = (rank / 2) % 2 == 1;
            let mut buf = Vec::new();
            let mut idx = Vec::new();
            let input: &[u8] = if i < n {
                unrank_string(i, SIGMA, &mut buf, &mut idx);
                &buf
            } else {
                &corpus[(i - n) as usize]
            };
            acc.sample(rank, || format!("{:?}", show_bytes(input)));
            check_iteration(acc, rank, input, po, reader);
        });
        rep.absorb(sub, accs);
    }
    if ctx.want("histories") {
        let k = 3;
        let n = count_upto(SIGMA.len() as u64, k);
        let depth = if thorough { 5 } else { 4 };
        // stream-like inputs as well
        let extra: Vec<Vec<u8>> = ["a b", "a ) b", "(a) ;c\n b", "1 \"s\" #\\c", ") ) a", "#( a", "a;c", "'a b", "a . b", "(a . b) c", "\"x", "a\n\n", "", " ", ";c"].iter().map(|s| s.as_bytes().to_vec()).collect();
        let total = (n + extra.len() as u64) * 2;
        let sub = Sub::new("histories", "E3: explicit-state BFS over call histories on one parser — all eight operations (next_value, next_datum, expect_value, expect_datum, expect_end, value_iter, datum_iter, Iterator::next), continuing after errors; state = (byte offset, depth budget); in every state every operation must return what it returns on a fresh parser over the remaining input (locations and spans translated), expect_end is Ok iff only trivia remains and never consumes a non-trivia byte", &format!("inputs: all strings <= {} over the token alphabet plus {} stream-like texts; history depth {}; slice and reader sources; default options", k, extra.len(), depth));
        let po = PO::default_();
        let accs = par_ranks(total, |rank, acc| {
            let i = rank / 2;
            let src = if rank % 2 == 0 { Src::Slice } else { Src::Reader };
            let mut buf = Vec::new();
            let mut idx = Vec::new();
            let input: &[u8] = if i < n {
                unrank_string(i, SIGMA, &mut buf, &mut idx);
                &buf
            } else {
                &extra[(i - n) as usize]
            };
            acc.sample(rank, || format!("{:?}", show_bytes(input)));
            check_histories(acc, rank, input, &po, src, depth);
        });
        rep.absorb(sub, accs);
    }
    rep
}
