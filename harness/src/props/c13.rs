//! C13 — whatever the parser accepts prints and reads back unchanged (fixed point after one step).
//! Starts from foreign text: every string over the token alphabet and the grammar corpus.

use crate::corpus::corpus_all;
use crate::domains::{po15, PO, PR, KW_OCTO, KW_POSTFIX, KW_PREFIX, N_PO, SIGMA, SIGMA24};
use crate::model::fold::fold;
use crate::par::{count_upto, par_ranks, unrank_string};
use crate::report::{Acc, Ctx, Report, Sub};
use crate::roundtrip::{cmp_roundtrip, NOFAST};
use crate::rv::{hex, show_bytes, unhex, RV};
use crate::util::{guard, trunc};
use serde_json::{json, Value as J};

/// Printer option sets corresponding to a parser option set: the first enabled keyword spelling
/// (octothorpe, prefix, postfix — one canonical choice, see DESIGN 5/C13), the parser's bracket
/// meaning, string and char syntax; nil/bool syntaxes: all that can matter for the value.
fn printers_for(r: &PO, v: &RV) -> Vec<PR> {
    let kw = if r.kw & KW_OCTO != 0 {
        0
    } else if r.kw & KW_PREFIX != 0 {
        1
    } else if r.kw & KW_POSTFIX != 0 {
        2
    } else {
        0
    };
    let has_nil = v.any(&|x| matches!(x, RV::Nil));
    let has_bool = v.any(&|x| matches!(x, RV::Bool(_)));
    let has_bytes = v.any(&|x| matches!(x, RV::Bytes(_)));
    let nils: &[u8] = if has_nil { &[0, 1, 2, 3] } else { &[1] };
    let bools: &[u8] = if has_bool || has_nil { &[0, 1] } else { &[0] };
    let bytes: &[u8] = if has_bytes && r.string == 1 { &[1, 0, 2] } else if has_bytes { &[1, 0] } else { &[1] };
    let mut out = Vec::new();
    for &nil in nils {
        for &b in bools {
            for &by in bytes {
                out.push(PR { kw, nil, bool_: b, vector: r.brackets, bytes: by, string: r.string, chr: r.chr });
            }
        }
    }
    out
}

fn value_class(v: &RV) -> &'static str {
    match v {
        RV::Sym(_) => "symbol",
        RV::Kw(_) => "keyword",
        RV::Float(_) => "float",
        RV::Int(_) => "int",
        RV::Char(_) => "char",
        RV::Str(_) => "string",
        RV::Bytes(_) => "bytes",
        RV::Cons(_, _) => "list",
        RV::Vector(_) => "vector",
        _ => "token",
    }
}

fn check_text(acc: &mut Acc, sub: &str, rank: u64, text: &[u8], r: &PO) {
    // the property quantifies over every way of handing the text to the parser: the slice
    // source, and the stream source with its separately written scanners
    check_text_src(acc, sub, rank, text, r, false);
    check_text_src(acc, sub, rank, text, r, true);
}

fn check_text_src(acc: &mut Acc, sub: &str, rank: u64, text: &[u8], r: &PO, reader: bool) {
    acc.evals += 1;
    let o = r.to_lexpr();
    let first = if reader { guard(|| lexpr::from_reader_custom(text, o)) } else { guard(|| lexpr::from_slice_custom(text, o)) };
    let v = match first {
        Ok(Ok(v)) => RV::from_value(&v),
        _ => return, // rejected (or panicking: C03's business)
    };
    let reparse = |t: &str| if reader { guard(|| lexpr::from_reader_custom(t.as_bytes(), o)) } else { guard(|| lexpr::from_str_custom(t, o)) };
    acc.nontrivial += 1;
    acc.outcome(&(value_class(&v), v.nodes().min(6)));
    let val = v.to_value();
    for p in printers_for(r, &v) {
        let case = || json!({"input_hex": hex(text), "po": r.index(), "pr": p.index()});
        let w = || format!("source={} input={:?} parser=[{}] printer=[{}]", if reader { "reader" } else { "slice" }, show_bytes(text), r.describe(), p.describe());
        let cls = |k: &str| format!("{}:{}", k, value_class(&v));
        let t = match guard(|| lexpr::print::to_string_custom(&val, p.to_lexpr())) {
            Ok(Ok(t)) => t,
            Ok(Err(e)) => {
                acc.violation(sub, "print-failed", &cls("print-failed"), rank, w(), e.to_string(), case);
                continue;
            }
            Err(pn) => {
                acc.violation(sub, "print-panic", &cls("print-panic"), rank, w(), pn, case);
                continue;
            }
        };
        let expected = fold(&p, r, &v);
        let v2 = match reparse(&t) {
            Ok(Ok(g)) => RV::from_value(&g),
            Ok(Err(e)) => {
                acc.violation(sub, "printed-form-not-readable", &cls("printed-form-not-readable"), rank, w(), format!("accepted value {} prints as {:?}, which the same parser rejects: {}", trunc(&v.to_string(), 120), trunc(&t, 120), e), case);
                continue;
            }
            Err(pn) => {
                acc.violation(sub, "parse-panic", &cls("parse-panic"), rank, w(), pn, case);
                continue;
            }
        };
        if let Err(e) = cmp_roundtrip(&expected, &v2) {
            acc.violation(sub, "printed-form-means-something-else", &cls("printed-form-means-something-else"), rank, w(), format!("accepted value {} prints as {:?}: {}", trunc(&v.to_string(), 120), trunc(&t, 120), e), case);
            continue;
        }
        // one more step: v2 must be a fixed point
        let val2 = v2.to_value();
        let t2 = match guard(|| lexpr::print::to_string_custom(&val2, p.to_lexpr())) {
            Ok(Ok(t)) => t,
            _ => {
                acc.violation(sub, "second-print-failed", &cls("second-print-failed"), rank, w(), "printing the re-read value failed".into(), case);
                continue;
            }
        };
        match reparse(&t2) {
            Ok(Ok(g)) => {
                let v3 = RV::from_value(&g);
                let strict = !v2.contains_float() || NOFAST;
                let ok = if strict { v3 == v2 } else { cmp_roundtrip(&v2, &v3).is_ok() };
                if !ok {
                    acc.violation(sub, "no-fixed-point", &cls("no-fixed-point"), rank, w(), format!("after one step {} (text {:?}), after two {} ", trunc(&v2.to_string(), 120), trunc(&t2, 80), trunc(&v3.to_string(), 120)), case);
                } else if strict {
                    // and the text is stable from then on
                    let t3 = guard(|| lexpr::print::to_string_custom(&v3.to_value(), p.to_lexpr())).ok().and_then(|x| x.ok());
                    if t3.as_deref() != Some(t2.as_str()) {
                        acc.violation(sub, "text-not-stable", &cls("text-not-stable"), rank, w(), format!("{:?} then {:?}", t2, t3), case);
                    }
                }
            }
            _ => acc.violation(sub, "second-parse-failed", &cls("second-parse-failed"), rank, w(), format!("{:?} is rejected", trunc(&t2, 120)), case),
        }
    }
}

pub fn replay(sub: &str, case: &J, acc: &mut Acc) {
    let input = unhex(case["input_hex"].as_str().unwrap_or(""));
    let r = PO::from_index(case["po"].as_u64().unwrap_or(0));
    check_text(acc, sub, 0, &input, &r);
}

pub fn run(ctx: &Ctx) -> Report {
    let mut rep = Report::new(ctx, "exploration");
    rep.assume("corresponding printer = the parser's bracket meaning, string and char syntax, its first enabled keyword spelling, every nil/bool/bytes spelling that the value can exercise; comparison modulo the documented fold, floats to C05 accuracy (bit-exact in the non-fast build)");
    let thorough = ctx.tier.thorough();
    let sfx = |s: &str| if NOFAST { format!("{}-nofast", s) } else { s.to_string() };
    let pos = po15();
    let npo = pos.len() as u64;

    if ctx.want("alphabet") {
        let name = sfx("alphabet");
        let k = if thorough { 5 } else { 4 };
        let n = count_upto(SIGMA.len() as u64, k);
        let sub = Sub::new(&name, "every string of length <= k over the 40-symbol token alphabet under the 15 corner option sets: if accepted, print with each corresponding printer, re-read with the same parser options: equal modulo fold; then print and read once more: fixed point, stable text; non-trivial = accepted text", &format!("k = {}: {} strings x {} option sets", k, n, npo));
        let accs = par_ranks(n * npo, |rank, acc| {
            let mut buf = Vec::new();
            let mut idx = Vec::new();
            unrank_string(rank / npo, SIGMA, &mut buf, &mut idx);
            let r = &pos[(rank % npo) as usize];
            acc.sample(rank, || format!("{:?} [{}]", show_bytes(&buf), r.describe()));
            check_text(acc, &name, rank, &buf, r);
        });
        rep.absorb(sub, accs);
    }
    if thorough && ctx.want("alphabet24") {
        let name = sfx("alphabet24");
        let n = count_upto(SIGMA24.len() as u64, 6);
        let two = [PO::default_(), PO::elisp()];
        let sub = Sub::new(&name, "every string of length <= 6 over a 24-symbol sub-alphabet x {default, elisp}", &format!("{} strings x 2", n));
        let accs = par_ranks(n * 2, |rank, acc| {
            let mut buf = Vec::new();
            let mut idx = Vec::new();
            unrank_string(rank / 2, SIGMA24, &mut buf, &mut idx);
            check_text(acc, &name, rank, &buf, &two[(rank % 2) as usize]);
        });
        rep.absorb(sub, accs);
    }
    if ctx.want("corpus") {
        let name = sfx("corpus");
        let corpus = corpus_all(thorough);
        let nr = if thorough { N_PO } else { npo };
        let sub = Sub::new(&name, "grammar corpus G: alternative spellings (radix prefixes, escapes of both dialects, character names, bracket lists, dotted proper lists, quote shorthands, digit-initial and #% symbols), printer output of the value domains, malformed pool; x 15 corner option sets (thorough: all 1536)", &format!("{} texts x {} option sets", corpus.len(), nr));
        let accs = par_ranks(corpus.len() as u64 * nr, |rank, acc| {
            let t = &corpus[(rank / nr) as usize];
            let r = if thorough { PO::from_index(rank % nr) } else { pos[(rank % nr) as usize] };
            acc.sample(rank, || format!("{:?} [{}]", trunc(&show_bytes(t), 60), r.describe()));
            check_text(acc, &name, rank, t, &r);
        });
        rep.absorb(sub, accs);
    }
    if !NOFAST {
        crate::props::run_nofast_child(ctx, &mut rep);
    }
    rep
}
