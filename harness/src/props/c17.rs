//! C17 — only well-formed UTF-8 ever reaches a str.

use crate::domains::{a12, actx, shapes, str_domain, PR, N_PR};
use crate::engine::choice::ChunkReader;
use crate::par::{count_upto, par_ranks};
use crate::report::{Acc, Ctx, Report, Sub};
use crate::roundtrip::NOFAST;
use crate::rv::{hex, show_bytes, unhex, RV};
use crate::util::{guard, trunc};
use lexpr::parse::Options;
use lexpr::Value;
use serde_json::{json, Value as J};

/// The 26 UTF-8 boundary byte classes.
const CLASSES: [u8; 26] = [0x00, 0x7f, 0x80, 0x8f, 0x90, 0x9f, 0xa0, 0xbf, 0xc0, 0xc1, 0xc2, 0xdf, 0xe0, 0xe1, 0xec, 0xed, 0xee, 0xef, 0xf0, 0xf1, 0xf3, 0xf4, 0xf5, 0xf7, 0xf8, 0xff];

/// (prefix, suffix, name): the six syntactic contexts.
const CONTEXTS: [(&[u8], &[u8], &str); 6] = [(b"", b"", "bare-symbol"), (b"a", b"", "symbol-after-ascii"), (b"\"", b"\"", "string"), (b"#\\", b"", "r6rs-char"), (b"?", b"", "elisp-char"), (b";", b"\na", "comment")];

/// Escapes / multi-byte text placed before and after the sequence so that the scratch-buffer
/// paths are taken: (before, after).
const ADJ: [(&[u8], &[u8], &str); 8] = [(b"", b"", "plain"), (b"\\x41;", b"", "r6rs-escape-before"), (b"", b"\\n", "escape-after"), (b"\\101", b"", "elisp-octal-before"), (b"\xc3\xa9", b"\xc3\xa9", "multibyte-around"), (b"\\\r", b"", "backslash-cr-before"), (b"\\\n ", b"", "backslash-lf-before"), (b"\\", b"", "backslash-before")];

/// All strs reachable from a value must be well-formed UTF-8 when re-validated from their bytes.
fn first_bad_str(v: &Value, depth: usize) -> Option<Vec<u8>> {
    if depth > 200 {
        return None;
    }
    match v {
        Value::String(s) | Value::Symbol(s) | Value::Keyword(s) => {
            if std::str::from_utf8(s.as_bytes()).is_err() {
                Some(s.as_bytes().to_vec())
            } else {
                None
            }
        }
        Value::Cons(c) => {
            let mut cur = c;
            loop {
                if let Some(b) = first_bad_str(cur.car(), depth + 1) {
                    return Some(b);
                }
                match cur.cdr() {
                    Value::Cons(n) => cur = n,
                    other => return first_bad_str(other, depth + 1),
                }
            }
        }
        Value::Vector(xs) => xs.iter().find_map(|x| first_bad_str(x, depth + 1)),
        _ => None,
    }
}

fn check_input(acc: &mut Acc, sub: &str, rank: u64, input: &[u8], elisp: bool, ctx_name: &str, seq: &[u8], plain_string_ctx: bool) {
    let o = if elisp { Options::elisp() } else { Options::default() };
    acc.evals += 1;
    let case = || json!({"input_hex": hex(input), "elisp": elisp});
    let w = |src: &str| format!("source={} context={} input={:?} opts={}", src, ctx_name, show_bytes(input), if elisp { "elisp" } else { "default" });
    let results = [("slice", guard(|| lexpr::from_slice_custom(input, o))), ("reader", guard(|| lexpr::from_reader_custom(ChunkReader { data: input, pos: 0, chunk: 1 }, o)))];
    let seq_valid = std::str::from_utf8(seq).is_ok();
    for (src, r) in results {
        match r {
            Err(p) => {
                let kind = if p.contains("verif-hooks") { "ill-formed-str-created" } else { "panic" };
                acc.violation(sub, kind, &format!("{}:{}", kind, ctx_name), rank, w(src), p, case);
            }
            Ok(Ok(v)) => {
                acc.nontrivial += 1;
                if let Some(bad) = first_bad_str(&v, 0) {
                    acc.violation(sub, "ill-formed-str-returned", &format!("ill-formed-str-returned:{}", ctx_name), rank, w(src), format!("a str with the bytes {:?} is reachable from the returned value", show_bytes(&bad)), case);
                    // nothing else may look at this value: it holds an ill-formed str
                    std::mem::forget(v);
                    continue;
                }
                // a string literal without escapes: the content is exactly the bytes, which must be valid
                if plain_string_ctx {
                    match &v {
                        Value::String(s) => {
                            if !seq_valid || s.as_bytes() != seq {
                                acc.violation(sub, "string-content-differs", "string-content-differs", rank, w(src), format!("string literal with the bytes {:?} read as {:?}", show_bytes(seq), s), case);
                            }
                        }
                        other => {
                            acc.violation(sub, "string-literal-not-a-string", "string-literal-not-a-string", rank, w(src), format!("read as {}", RV::from_value(other)), case);
                        }
                    }
                }
                // input that is not valid UTF-8 outside a comment is inside a string, symbol or
                // character: it must be rejected — or come back as bytes (Emacs unibyte string)
                // (an input with a ';' may hide the bytes in a comment: not judged)
                if ctx_name != "comment" && !input.contains(&b';') && std::str::from_utf8(input).is_err() {
                    let has_bytes = RV::from_value(&v).any(&|x| matches!(x, RV::Bytes(_)));
                    if has_bytes {
                        acc.count("ill-formed-input-returned-as-bytes");
                    } else {
                        acc.violation(sub, "ill-formed-input-accepted", &format!("ill-formed-input-accepted:{}", ctx_name), rank, w(src), format!("the input is not valid UTF-8 but was accepted as {}", trunc(&RV::from_value(&v).to_string(), 80)), case);
                    }
                }
                acc.outcome(&(std::mem::discriminant(&v), seq_valid));
            }
            Ok(Err(_)) => {
                if plain_string_ctx && seq_valid {
                    acc.violation(sub, "valid-string-rejected", "valid-string-rejected", rank, w(src), "a string literal of well-formed UTF-8 without escapes was rejected".into(), case);
                }
                acc.outcome(&(0u8, seq_valid));
            }
        }
    }
    // a caller that goes on after an error: the next call may start in the middle of a character
    // that the failed call had begun to read (seed C17-e3); every value of the whole run is checked
    {
        let cap = input.len() + 3;
        let run = |which: u8| -> Result<Option<Vec<u8>>, String> {
            guard(std::panic::AssertUnwindSafe(|| {
                fn go<'de, R: lexpr::parse::Read<'de>>(mut p: lexpr::parse::Parser<R>, cap: usize) -> Option<Vec<u8>> {
                    for _ in 0..cap {
                        match p.next_value() {
                            Ok(Some(v)) => {
                                if let Some(bad) = first_bad_str(&v, 0) {
                                    std::mem::forget(v);
                                    return Some(bad);
                                }
                            }
                            Ok(None) => break,
                            Err(_) => {}
                        }
                    }
                    None
                }
                match which {
                    0 => go(lexpr::parse::Parser::from_slice_custom(input, o), cap),
                    1 => go(lexpr::parse::Parser::from_reader_custom(input, o), cap),
                    _ => match std::str::from_utf8(input) {
                        Ok(s) => go(lexpr::parse::Parser::from_str_custom(s, o), cap),
                        Err(_) => None,
                    },
                }
            }))
        };
        for (which, src) in [(0u8, "slice-loop"), (1, "reader-loop"), (2, "str-loop")] {
            match run(which) {
                Err(p) => {
                    let kind = if p.contains("verif-hooks") { "ill-formed-str-created" } else { "panic" };
                    acc.violation(sub, kind, &format!("{}:{}", kind, ctx_name), rank, w(src), p, case);
                }
                Ok(Some(bad)) => acc.violation(sub, "ill-formed-str-returned", &format!("ill-formed-str-returned:{}", ctx_name), rank, w(src), format!("a str with the bytes {:?} is reachable from a value of the run", show_bytes(&bad)), case),
                Ok(None) => {}
            }
        }
    }
    // str source when the whole input happens to be UTF-8 (exercises the unchecked StrRead paths)
    if let Ok(s) = std::str::from_utf8(input) {
        match guard(|| lexpr::from_str_custom(s, o)) {
            Err(p) => {
                let kind = if p.contains("verif-hooks") { "ill-formed-str-created" } else { "panic" };
                acc.violation(sub, kind, &format!("{}:{}", kind, ctx_name), rank, w("str"), p, case);
            }
            Ok(Ok(v)) => {
                if let Some(bad) = first_bad_str(&v, 0) {
                    acc.violation(sub, "ill-formed-str-returned", &format!("ill-formed-str-returned:{}", ctx_name), rank, w("str"), format!("a str with the bytes {:?} is reachable from the returned value", show_bytes(&bad)), case);
                }
            }
            _ => {}
        }
    }
}

fn build(seq: &[u8], c: usize, a: usize) -> (Vec<u8>, bool) {
    let (pre, post, _) = CONTEXTS[c];
    let (before, after, _) = ADJ[a];
    let mut v = pre.to_vec();
    v.extend_from_slice(before);
    v.extend_from_slice(seq);
    v.extend_from_slice(after);
    v.extend_from_slice(post);
    let plain = c == 2 && a == 0 && !seq.contains(&b'"') && !seq.contains(&b'\\');
    (v, plain)
}

/// Text side: valid strings over escape / multi-byte units through from_str.
const UNITS: [(&str, &str); 9] = [("a", "a"), ("é", "é"), ("€", "€"), ("😀", "😀"), ("\\x41;", "A"), ("\\xe9;", "é"), ("\\x1F600;", "😀"), ("\\n", "\n"), ("\\\\", "\\")];

fn check_units(acc: &mut Acc, rank: u64, idx: &[usize]) {
    let text: String = idx.iter().map(|i| UNITS[*i].0).collect();
    let decoded: String = idx.iter().map(|i| UNITS[*i].1).collect();
    let lit = format!("\"{}\"", text);
    acc.evals += 1;
    let case = || json!({"text": lit});
    for (src, r) in [("str", guard(|| lexpr::from_str(&lit))), ("slice", guard(|| lexpr::from_slice(lit.as_bytes()))), ("reader", guard(|| lexpr::from_reader(lit.as_bytes())))] {
        match r {
            Err(p) => acc.violation("text-units", if p.contains("verif-hooks") { "ill-formed-str-created" } else { "panic" }, "panic", rank, format!("source={} text={:?}", src, lit), p, case),
            Ok(Ok(v)) => {
                acc.nontrivial += 1;
                if first_bad_str(&v, 0).is_some() || v.as_str() != Some(decoded.as_str()) {
                    acc.violation("text-units", "string-content-differs", "string-content-differs", rank, format!("source={} text={:?}", src, lit), format!("expected {:?}, got {}", decoded, RV::from_value(&v)), case);
                }
            }
            Ok(Err(e)) => acc.violation("text-units", "valid-string-rejected", "valid-string-rejected", rank, format!("source={} text={:?}", src, lit), e.to_string(), case),
        }
    }
    // symbols: multi-byte units only (escapes are not symbol syntax)
    if idx.iter().all(|i| *i < 4) && !idx.is_empty() {
        let sym: String = format!("s{}", idx.iter().map(|i| UNITS[*i].0).collect::<String>());
        for (src, r) in [("str", guard(|| lexpr::from_str(&sym))), ("reader", guard(|| lexpr::from_reader(sym.as_bytes())))] {
            match r {
                Ok(Ok(v)) => {
                    if v.as_symbol() != Some(sym.as_str()) {
                        acc.violation("text-units", "symbol-content-differs", "symbol-content-differs", rank, format!("source={} text={:?}", src, sym), format!("got {}", RV::from_value(&v)), || json!({"text": sym}));
                    }
                }
                Err(p) => acc.violation("text-units", "panic", "panic", rank, format!("source={} text={:?}", src, sym), p, || json!({"text": sym})),
                _ => {}
            }
        }
    }
    acc.outcome(&decoded.len());
}

fn check_printer(acc: &mut Acc, rank: u64, m: &RV, p: &PR) {
    acc.evals += 1;
    acc.nontrivial += 1;
    let v = m.to_value();
    let case = || json!({"value": m.to_string(), "pr": p.index()});
    let w = || format!("value={} printer=[{}]", trunc(&m.to_string(), 120), p.describe());
    let r = guard(|| {
        let s = lexpr::print::to_string_custom(&v, p.to_lexpr());
        let b = lexpr::print::to_vec_custom(&v, p.to_lexpr());
        let mut sink = Vec::new();
        let mut wres = lexpr::print::to_writer_custom(&mut sink, &v, p.to_lexpr());
        // "identical to the bytes it writes to a sink": also for a sink that takes 1, 2 or 3 bytes
        // per call, so that a write is cut inside a multi-byte character
        for k in 1..=3usize {
            struct Short(Vec<u8>, usize);
            impl std::io::Write for Short {
                fn write(&mut self, buf: &[u8]) -> std::io::Result<usize> {
                    let n = buf.len().min(self.1);
                    self.0.extend_from_slice(&buf[..n]);
                    Ok(n)
                }
                fn flush(&mut self) -> std::io::Result<()> {
                    Ok(())
                }
            }
            let mut sh = Short(Vec::new(), k);
            let r = lexpr::print::to_writer_custom(&mut sh, &v, p.to_lexpr());
            if r.is_err() || sh.0 != sink {
                // report through the comparison below: make the sinks differ
                sink = sh.0;
                wres = r;
                break;
            }
        }
        (s, b, wres.map(|_| sink))
    });
    match r {
        Err(pn) => acc.violation("printer", if pn.contains("verif-hooks") { "ill-formed-string-created" } else { "panic" }, "panic", rank, w(), pn, case),
        Ok((Ok(s), Ok(b), Ok(sink))) => {
            if std::str::from_utf8(s.as_bytes()).is_err() {
                acc.violation("printer", "ill-formed-string-returned", "ill-formed-string-returned", rank, w(), show_bytes(s.as_bytes()), case);
            }
            if s.as_bytes() != &b[..] || b != sink {
                acc.violation("printer", "string-differs-from-sink", "string-differs-from-sink", rank, w(), format!("to_string {:?} / to_vec {:?} / to_writer {:?}", s, show_bytes(&b), show_bytes(&sink)), case);
            }
            acc.outcome(&s.len().min(40));
        }
        Ok(_) => acc.violation("printer", "print-failed", "print-failed", rank, w(), "printing into memory failed".into(), case),
    }
}

fn printer_values() -> Vec<RV> {
    let mut v = actx();
    for s in str_domain(2) {
        v.push(RV::Str(s.clone()));
        v.push(RV::Sym(s.clone()));
        v.push(RV::Kw(s));
    }
    for c in ['\0', '\x7f', '\u{80}', 'é', '\u{7ff}', '\u{800}', '€', '\u{ffff}', '\u{10000}', '😀', '\u{10ffff}'] {
        v.push(RV::Char(c));
    }
    let atoms = a12();
    for s in shapes(2, 1) {
        for a in &atoms {
            for b in &atoms {
                v.push(s.build(&mut vec![a.clone(), b.clone()].into_iter()));
            }
        }
    }
    v
}

pub fn replay(sub: &str, case: &J, acc: &mut Acc) {
    if let Some(h) = case["input_hex"].as_str() {
        let input = unhex(h);
        check_input(acc, sub, 0, &input, case["elisp"].as_bool().unwrap_or(false), "replay", &[], false);
    } else if let Some(t) = case["text"].as_str() {
        let r = guard(|| lexpr::from_str(t));
        match r {
            Err(p) => acc.violation(sub, "panic", "panic", 0, format!("text={:?}", t), p, || case.clone()),
            Ok(Ok(v)) => {
                if first_bad_str(&v, 0).is_some() {
                    acc.violation(sub, "ill-formed-str-returned", "ill-formed-str-returned", 0, format!("text={:?}", t), "".into(), || case.clone());
                }
            }
            _ => {}
        }
    } else if let Some(want) = case["value"].as_str() {
        if let Some(m) = printer_values().iter().find(|m| m.to_string() == want) {
            check_printer(acc, 0, m, &PR::from_index(case["pr"].as_u64().unwrap_or(0)));
        }
    }
}

pub fn run(ctx: &Ctx) -> Report {
    let mut rep = Report::new(ctx, "exploration");
    rep.assume("every str reachable from a returned value is re-validated from its bytes with std::str::from_utf8; with the verif-hooks feature an assertion fires where an ill-formed str would be created, even if it is dropped on an error path");
    if !ctx.hooks {
        rep.note("verif-hooks not available in the tree under test: validity is checked on returned values only".into());
    }
    let thorough = ctx.tier.thorough();
    let sfx = |s: &str| if NOFAST { format!("{}-nofast", s) } else { s.to_string() };

    if NOFAST {
        // the one unchecked conversion that only exists without fast-float-parsing: f64_from_parts
        let name = sfx("number-scratch");
        let alpha: [&[u8]; 9] = [b"0", b"1", b"5", b"9", b".", b"e", b"E", b"+", b"-"];
        let k = 7;
        let n = count_upto(9, k);
        let sub = Sub::new(&name, "every string of length <= 7 over 0 1 5 9 . e E + - parsed in the build without fast-float-parsing: the hook assertion in front of the unchecked conversion of the number scratch buffer must not fire", &format!("{} strings", n));
        let accs = par_ranks(n, |rank, acc| {
            let mut buf = Vec::new();
            let mut idx = Vec::new();
            crate::par::unrank_string(rank, &alpha, &mut buf, &mut idx);
            acc.evals += 1;
            match guard(|| lexpr::from_slice(&buf)) {
                Err(p) => acc.violation(&name, if p.contains("verif-hooks") { "ill-formed-str-created" } else { "panic" }, "panic", rank, format!("input={:?}", show_bytes(&buf)), p, || json!({"input_hex": hex(&buf), "elisp": false})),
                Ok(Ok(_)) => {
                    acc.nontrivial += 1;
                    acc.outcome(&buf.len());
                }
                _ => {}
            }
        });
        rep.absorb(sub, accs);
        return rep;
    }

    if ctx.want("byte-sequences") {
        // class alphabet: lengths 1..=4
        let n = count_upto(26, 4) - 1;
        let per = (CONTEXTS.len() * ADJ.len() * 2) as u64;
        let sub = Sub::new("byte-sequences", "every byte sequence of length 1..=4 over the 26 UTF-8 boundary byte classes (valid, overlong, surrogate, out of range, truncated, stray continuation) in six contexts (bare symbol, symbol after an ASCII prefix, string, #\\ character, ? character, comment) x five adjacencies (plain, R6RS escape before, escape after, Elisp octal escape before, multi-byte text around) x {default, elisp} x {slice, reader, str when the input is UTF-8}: every reachable str is well-formed, no hook assertion fires, a string literal without escapes is accepted iff its bytes are well-formed and then has exactly those bytes; non-trivial = accepted input", &format!("{} sequences x {} placements", n, per));
        let accs = par_ranks(n * per, |rank, acc| {
            let mut r = rank / per + 1;
            let mut len = 0;
            let mut p = 1u64;
            while r >= p {
                r -= p;
                p *= 26;
                len += 1;
            }
            let mut seq = vec![0u8; len];
            for i in (0..len).rev() {
                seq[i] = CLASSES[(r % 26) as usize];
                r /= 26;
            }
            let q = rank % per;
            let elisp = q % 2 == 1;
            let a = ((q / 2) % ADJ.len() as u64) as usize;
            let c = (q / 2 / ADJ.len() as u64) as usize;
            let (input, plain) = build(&seq, c, a);
            acc.sample(rank, || format!("{:?} ({})", show_bytes(&input), CONTEXTS[c].2));
            check_input(acc, "byte-sequences", rank, &input, elisp, CONTEXTS[c].2, &seq, plain);
        });
        rep.absorb(sub, accs);
    }
    if ctx.want("all-bytes") {
        // exhaustive: every byte sequence of length 1..=3 in the six contexts (thorough: x all five adjacencies)
        let n: u64 = 256 + 65536 + 16777216;
        let nadj: u64 = if thorough { ADJ.len() as u64 } else { 1 };
        let per = CONTEXTS.len() as u64 * 2 * nadj;
        let sub = Sub::new("all-bytes", "every byte sequence of length 1..=3 (all 256 byte values) in the six contexts x {default, elisp} (thorough: x the five adjacencies), same oracle", &format!("{} sequences x {} placements", n, per));
        let accs = par_ranks(n * per, |rank, acc| {
            let mut seq = Vec::new();
            crate::domains::bytes_upto3(rank / per + 1, &mut seq);
            let q = rank % per;
            let a = ((q / 2) % nadj) as usize;
            let c = (q / 2 / nadj) as usize;
            let (input, plain) = build(&seq, c, a);
            acc.sample(rank, || format!("{:?}", show_bytes(&input)));
            if rank % 65521 != 0 {
                // keep the outcome set small: sampled inside check_input only for a subset
            }
            check_input(acc, "all-bytes", rank, &input, q % 2 == 1, CONTEXTS[c].2, &seq, plain);
        });
        rep.absorb(sub, accs);
    }
    if ctx.want("token-sequences") {
        // what one token leaves behind in the parser (scratch space, look-ahead) must not reach
        // the text of the next (seed C17-g1: a symbol scanner that forgets to clear the scratch
        // space after an Emacs unibyte string, on the unchecked str path)
        const FILLERS: [&str; 20] = ["\"\\351t\\351\"", "\"\\xe9t\\xe9\"", "\"\\377\"", "\"\\200abc\"", "\"a\\x41;\u{e9}\"", "\"\u{e9}\"", "\"\\n\"", "?\\351", "?\u{e9}", "#\\xe9", "#\\\u{e9}", "12.5e3", "-7", "#:kw", ":kw", "kw:", "sym", "\u{3bb}", "#u8(233 116)", "\"\\\n x\""];
        const SECONDS: [&str; 22] = ["-\u{3bb}", "+.a", "+\u{e9}", "-.\u{3bb}", ".\u{3bb}", "..", "\u{3bb}", "a", "-", "+", "...", "#:\u{3bb}", ":\u{3bb}", "\u{3bb}:", "\"\u{e9}\"", "\"\\xe9;\"", "\"\\351\"", "1+", "-1x", "#\\\u{3bb}", "?\u{3bb}", "#\"\u{3bb}\""];
        const FRAMES: [(&str, &str, &str); 6] = [("(", " ", ")"), ("", " ", ""), ("#(", " ", ")"), ("(", " . ", ")"), ("(x ", "\n", " y)"), ("[", " ", "]")];
        let total = (FILLERS.len() * SECONDS.len() * FRAMES.len() * 2) as u64;
        let sub = Sub::new("token-sequences", "a first token that leaves bytes behind (Emacs unibyte strings with high octets, escaped strings, characters, numbers, keywords, a byte vector) directly followed by a second token of every symbol / string / character scanner path (sign + non-ASCII, sign + dot, dot-initial, non-ASCII-initial, keywords of the three spellings, strings with escapes), in six frames (list, top-level run, vector, dotted pair, inner position, brackets) x {default, elisp}; slice, 1-byte reader, str, and the whole-run loops: every str of every value is well-formed", &format!("{} x {} x {} x 2 = {} inputs", FILLERS.len(), SECONDS.len(), FRAMES.len(), total));
        let accs = par_ranks(total, |rank, acc| {
            let r = rank as usize;
            let elisp = r % 2 == 1;
            let fr = FRAMES[(r / 2) % FRAMES.len()];
            let s2 = SECONDS[(r / 2 / FRAMES.len()) % SECONDS.len()];
            let f1 = FILLERS[r / 2 / FRAMES.len() / SECONDS.len()];
            let input = format!("{}{}{}{}{}", fr.0, f1, fr.1, s2, fr.2).into_bytes();
            acc.sample(rank, || format!("{:?}", show_bytes(&input)));
            check_input(acc, "token-sequences", rank, &input, elisp, "token-sequence", &[], false);
        });
        rep.absorb(sub, accs);
    }
    if ctx.want("text-units") {
        let k = if thorough { 6 } else { 5 };
        let n = count_upto(9, k);
        let sub = Sub::new("text-units", "every string literal of <= k units over {ASCII letter, é, €, 😀, \\x41;, \\xe9;, \\x1F600;, \\n, \\\\} through from_str (the unchecked StrRead paths), from_slice and from_reader: accepted, well-formed, and equal to the decoded text; the multi-byte units also as symbols", &format!("k = {}: {} literals", k, n));
        let accs = par_ranks(n, |rank, acc| {
            let mut r = rank;
            let mut len = 0;
            let mut p = 1u64;
            while r >= p {
                r -= p;
                p *= 9;
                len += 1;
            }
            let mut idx = vec![0usize; len];
            for i in (0..len).rev() {
                idx[i] = (r % 9) as usize;
                r /= 9;
            }
            acc.sample(rank, || format!("{:?}", idx));
            check_units(acc, rank, &idx);
        });
        rep.absorb(sub, accs);
    }
    if ctx.want("printer") {
        let vals = printer_values();
        let total = vals.len() as u64 * N_PR;
        let sub = Sub::new("printer", "every value of a set (context atoms; all strings <= 2 over the trouble alphabet as string, symbol and keyword; boundary characters; two-leaf shapes) x all 576 printer option sets: the returned String is well-formed UTF-8 and identical to the bytes of to_vec_custom and to what to_writer_custom delivers to a Vec and to sinks taking 1, 2 and 3 bytes per call", &format!("{} values x 576", vals.len()));
        let accs = par_ranks(total, |rank, acc| {
            let m = &vals[(rank / N_PR) as usize];
            let p = PR::from_index(rank % N_PR);
            acc.sample(rank, || format!("{} [{}]", trunc(&m.to_string(), 40), p.describe()));
            check_printer(acc, rank, m, &p);
        });
        rep.absorb(sub, accs);
    }
    crate::props::run_nofast_child(ctx, &mut rep);
    rep
}
