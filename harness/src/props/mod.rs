//! Property dispatch.

use crate::report::{Acc, Ctx, Report};
use serde_json::Value as J;

macro_rules! props {
    ($( $(#[$m:meta])? $name:ident => $id:literal ),* $(,)?) => {
        $( $(#[$m])? pub mod $name; )*
        pub fn run(ctx: &Ctx) -> Option<Report> {
            match ctx.prop.as_str() {
                $( $(#[$m])? $id => Some($name::run(ctx)), )*
                _ => None,
            }
        }
        fn replay_dispatch(prop: &str, sub: &str, case: &J, acc: &mut Acc) -> bool {
            match prop {
                $( $(#[$m])? $id => { $name::replay(sub, case, acc); true } )*
                _ => false,
            }
        }
    };
}

props! {
    c01 => "C01",
    c03 => "C03",
    #[cfg(feature = "full")] c04 => "C04",
    c05 => "C05",
    c13 => "C13",
    c17 => "C17",
    #[cfg(feature = "full")] c02 => "C02",
    #[cfg(feature = "full")] c06 => "C06",
    #[cfg(feature = "full")] c07 => "C07",
    #[cfg(feature = "full")] c08 => "C08",
    #[cfg(feature = "full")] c09 => "C09",
    #[cfg(feature = "full")] c10 => "C10",
    #[cfg(feature = "full")] c11 => "C11",
    #[cfg(feature = "full")] c12 => "C12",
    #[cfg(feature = "full")] c14 => "C14",
    #[cfg(feature = "full")] c15 => "C15",
    #[cfg(feature = "full")] c16 => "C16",
    #[cfg(feature = "full")] c18 => "C18",
    #[cfg(feature = "full")] c19 => "C19",
    #[cfg(feature = "full")] c20 => "C20",
}

/// Run the same property in the binary built without `fast-float-parsing` and merge its
/// sub-checks into this report.
pub fn run_nofast_child(ctx: &Ctx, rep: &mut Report) {
    let bin = match &ctx.nofast_bin {
        Some(b) if std::path::Path::new(b).exists() => b.clone(),
        _ => {
            eprintln!("MACHINERY: the no-fast-float build is not available (MC_NOFAST_BIN)");
            std::process::exit(2);
        }
    };
    let tmp = format!("{}/target/nofast-{}-{}.json", ctx.verif_dir, ctx.prop, std::process::id());
    let mut cmd = std::process::Command::new(&bin);
    cmd.arg(&ctx.prop).arg("--tier").arg(ctx.tier.name()).arg("--emit-json").arg(&tmp);
    if let Some(o) = &ctx.only {
        cmd.arg("--only").arg(o);
    }
    let st = cmd.status();
    match st {
        Ok(s) if s.success() => {}
        // the child's watchdog reported a case that does not return (it has printed the VIOLATION
        // line and written the replay file itself)
        Ok(s) if s.code() == Some(1) && !std::path::Path::new(&tmp).exists() => std::process::exit(1),
        other => {
            eprintln!("MACHINERY: the no-fast-float engine failed: {:?}", other);
            std::process::exit(2);
        }
    }
    let text = std::fs::read_to_string(&tmp).unwrap_or_else(|e| {
        eprintln!("MACHINERY: cannot read {}: {}", tmp, e);
        std::process::exit(2)
    });
    let _ = std::fs::remove_file(&tmp);
    let j: J = serde_json::from_str(&text).unwrap_or_else(|e| {
        eprintln!("MACHINERY: bad JSON from the no-fast-float engine: {}", e);
        std::process::exit(2)
    });
    rep.absorb_child_json(&j);
}

/// Re-run exactly one recorded case. Exit 1 if it still violates the property.
pub fn replay(ctx: &Ctx, j: &J, path: &str) -> i32 {
    let sub = j["sub"].as_str().unwrap_or("");
    let case = &j["case"];
    // sub-checks of the no-fast-float build are replayed by that binary
    if sub.ends_with("-nofast") && !cfg!(feature = "nofast") {
        if let Some(bin) = &ctx.nofast_bin {
            let st = std::process::Command::new(bin).arg("replay").arg(path).status();
            return st.ok().and_then(|s| s.code()).unwrap_or(2);
        }
        eprintln!("MACHINERY: no-fast-float binary not available for this replay");
        return 2;
    }
    // a case recorded by the watchdog: run that one rank of that sub-check again, under the watchdog
    if let (Some(ssub), Some(rank)) = (case["stalled_sub"].as_str(), case["stalled_rank"].as_u64()) {
        std::env::set_var("MC_ONLY_RANK", rank.to_string());
        let tier = if case["tier"].as_str() == Some("thorough") { crate::report::Tier::Thorough } else { crate::report::Tier::Quick };
        let c2 = Ctx { prop: ctx.prop.clone(), tier, seed: ctx.seed, verif_dir: ctx.verif_dir.clone(), repo: ctx.repo.clone(), hooks: ctx.hooks, nofast_bin: ctx.nofast_bin.clone(), only: Some(ssub.trim_end_matches("-nofast").to_string()), threads: 1 };
        // redirect the evidence of this partial run
        std::env::set_var("VERIF_EVIDENCE_DIR", format!("{}/target/replay-evidence", ctx.verif_dir));
        match run(&c2) {
            Some(rep) => {
                let n = rep.viols.len();
                if n == 0 {
                    println!("replay: rank {} of sub-check {} now returns and holds", rank, ssub);
                    return 0;
                }
                println!("replay: rank {} of sub-check {} returns but violates the property", rank, ssub);
                println!("VIOLATION property={} replay={}", ctx.prop, path);
                return 1;
            }
            None => return 2,
        }
    }
    let mut acc = Acc::new();
    if !replay_dispatch(&ctx.prop, sub, case, &mut acc) {
        eprintln!("MACHINERY: no replay for property {:?} in this build", ctx.prop);
        return 2;
    }
    if acc.viols.is_empty() {
        println!("replay: the recorded case no longer violates {} (sub-check {})", ctx.prop, sub);
        0
    } else {
        for v in &acc.viols {
            println!("replay: still failing [{} / {}]: {} -- {}", v.sub, v.kind, v.witness, v.detail);
        }
        println!("VIOLATION property={} replay={}", ctx.prop, path);
        1
    }
}
