//! Property dispatch.

use crate::report::{Acc, Ctx, Report};
use serde_json::Value as J;

#[cfg(feature = "full")]
pub mod c06;
#[cfg(feature = "full")]
pub mod c07;
#[cfg(feature = "full")]
pub mod c08;
#[cfg(feature = "full")]
pub mod c15;
#[cfg(feature = "full")]
pub mod c20;

pub fn run(ctx: &Ctx) -> Option<Report> {
    match ctx.prop.as_str() {
        #[cfg(feature = "full")]
        "C06" => Some(c06::run(ctx)),
        #[cfg(feature = "full")]
        "C07" => Some(c07::run(ctx)),
        #[cfg(feature = "full")]
        "C08" => Some(c08::run(ctx)),
        #[cfg(feature = "full")]
        "C15" => Some(c15::run(ctx)),
        #[cfg(feature = "full")]
        "C20" => Some(c20::run(ctx)),
        _ => None,
    }
}

/// Re-run exactly one recorded case. Exit 1 if it still violates the property.
pub fn replay(ctx: &Ctx, j: &J, path: &str) -> i32 {
    let sub = j["sub"].as_str().unwrap_or("");
    let case = &j["case"];
    let mut acc = Acc::new();
    match ctx.prop.as_str() {
        #[cfg(feature = "full")]
        "C06" => c06::replay(sub, case, &mut acc),
        #[cfg(feature = "full")]
        "C07" => c07::replay(sub, case, &mut acc),
        #[cfg(feature = "full")]
        "C08" => c08::replay(sub, case, &mut acc),
        #[cfg(feature = "full")]
        "C15" => c15::replay(sub, case, &mut acc),
        #[cfg(feature = "full")]
        "C20" => c20::replay(sub, case, &mut acc),
        other => {
            eprintln!("MACHINERY: no replay for property {:?} in this build", other);
            return 2;
        }
    }
    if acc.viols.is_empty() {
        println!("replay: the recorded case no longer violates {} (sub-check {})", ctx.prop, sub);
        0
    } else {
        for v in &acc.viols {
            println!("replay: still failing [{} / {}]: {} -- {}", v.sub, v.kind, v.witness, v.detail);
        }
        println!("VIOLATION property={} replay={}", ctx.prop, path);
        1
    }
}
