//! C08 — each parser option changes exactly the tokens it is documented to govern.
//! (1) all 1536 option sets x token corpus x positions x shorthands against the reference reader;
//! (2) exhaustive non-interference differential over token-alphabet strings.

use crate::domains::{PO, N_PO, SIGMA};
use crate::model::reader::{is_delim, matches_value, read_one, RR};
use crate::outcome::{parse_slice, Outcome};
use crate::par::{count_upto, par_ranks, unrank_string};
use crate::report::{Acc, Ctx, Report, Sub};
use crate::rv::{hex, show_bytes, unhex, RV};
use crate::util::guard;
use lexpr::Value;
use serde_json::{json, Value as J};
use std::hash::{Hash, Hasher};

pub const TOKENS: &[&str] = &[
    // a backslash before a raw control character, DEL and the first non-ASCII characters: the
    // default arm of the escape tables ("stands for itself") and its boundary at 0x7F / 0x80
    "?\\\x7f", "?\\\x01", "?\\\x1f", "?\\~", "?\\\u{80}", "?\\\u{ff}", "?\x7f", "?~", "\"\\\x7f\"", "\"a\\\x7fb\"", "\"\\~\"", "\"\\\u{80}\"", "#\\\x7f", "#\\~", "#\\\u{80}",
    // digit-initial and number near misses
    "1", "12", "1+", "1-", "1/2", "1.5.6", "0x10", "12ab", "1e3", "1e", "1.", "1.5", "1.5e", "1.5e+", "1.5e3", "1x", "1a", "9a9", "1:", "1e3x", "007", "1_000", "2020-01-01", "1..2",
    "+5", "-5", "+", "-", "...", "-a", "+a", "--", "->", "+-", ".a", "..", "+.5", "-.5", ".5", "+.", "-.", "+.a", "-.a", "+..", "+5x", "-1a", "+1.", "-1e", "+e", "-e5", "1e5", "1E5", "1e+5", "1e-5", "-0", "+0", "0",
    "123456789012345678901234567890", "18446744073709551616", "-9223372036854775809", "1e400", "1.0e400", "1e-400", "1e21", "5e-324",
    // radix
    "#b101", "#b102", "#o17", "#o18", "#xff", "#xFG", "#d10", "#d1.5", "#x-a", "#b", "#x", "#x-", "#e1", "#i1", "#b1.1", "#x1.8", "#d", "#d1e2", "#xFFFFFFFFFFFFFFFFFFFF", "#b+1", "#o-7",
    // keywords
    ":a", "a:", ":a:", "::", ":", "#:a", "#:", ":1", "1:", "#:1", "λ:", ":λ", "λ-1:", "$x:", "+:", "-:", ":+", "a-b:", ":a-b", "#:a-b", "a:b", "a::", "::a", "#:a:", "#::a", "A:", "%:", "?:", ":?",
    // dot-initial names and postfix keywords (the list parsers scan dot-initial tokens themselves)
    ".a:", "..:", ".:", "...:", ".a", ":.a", "#:.a", ".1:", "-.a:", "+.:", ".a.b:", "..a", ".λ:", ".λ",
    // unquote, trivia, @-initial symbol
    ", @a", ",\n@a", ", @", ",@ a", ",@a", ", a",
    // nil / t
    "nil", "nil:", ":nil", "#:nil", "nilx", "xnil", "NIL", "Nil", "#nil", "#nilx", "nil.", "t", "tt", "T", "t:", ":t", "#t", "#f", "#t1", "#tx", "#true", "#false", "#f0", "t.", "-t", "ni", "nill",
    // chars
    "?a", "?\\(", "?\\x41", "?", "?ab", "?\\", "?(", "?\\n", "?λ", "?\\^a", "?\\101", "?\\u03bb", "?\\N{U+3bb}", "?\\M-x", "?1", "?:", "??", "a?", "#\\a", "#\\space", "#\\x41", "#\\x", "#\\xg", "#\\spac", "#\\(", "#\\λ", "#\\λx", "#\\ab",
    "#\\x110000", "#\\xD800", "#\\newline", "#\\nul", "#\\delete", "#\\A", "#\\1", "#\\12",
    // racket
    "#%a", "#%", "#%app", "#%1", "#%a:", "#%nil",
    // symbols
    "a", "abc", "λ", "→", "aλ", "a→", "a.b", "a+b", "a@b", "a1", "x.y.z", "!", "$", "%", "&", "*", "/", "<", "=", ">", "^", "_", "~", "@", "@a", "a@", "<=?", "set!", "a|b", "|a|", "a'b", "a`b", "a,b", "a#b", "a\\b", "\\a", "{", "}", "a{",
    // strings
    "\"s\"", "\"\"", "\"a\\nb\"", "\"\\x41;\"", "\"\\x41\"", "\"\\101\"", "\"\\q\"", "\"λ\"", "\"\\u03bb\"", "\"\\e\"", "\"\\|\"", "\"\\xff\"", "\"\\x3bb\"", "\"a\\ b\"", "\"\\N{U+41}\"", "\"\\^a\"", "\"\\d\\s\"",
    // Emacs unibyte / multibyte boundary: a byte escape next to raw DEL (ASCII), raw ASCII, a raw non-ASCII character, U+0080
    "\"\\377\x7f\"", "\"\x7f\\377\"", "\"\\377a\"", "\"a\\377\"", "\"\\377 \"", "\"\\101\x7f\"", "\"é\\x21\"", "\"\\x21é\"", "\"\\377\\u00e9\"", "\"\\x21\u{80}\"", "\"\u{80}\\x21\"", "\"\\x21\\x7f\"",
    // compound tokens as elements
    "()", "(x)", "(x . y)", "[x]", "[x y]", "[x . y]", "[]", "#(x)", "#()", "#u8(1 2)", "#vu8(1)", "#u8()", "#u8(256)", "#u8(a)", "(x]", "[x)", "#(x]", "'x", "`x", ",x", ",@x", "''x", "'(x)", "'[x]", "(quote x)",
];

const POSITIONS: &[(&str, &str)] = &[("", ""), ("(", " b)"), ("(a ", " b)"), ("(a ", ")"), ("(a . ", ")"), ("#(a ", ")"), ("[a ", "]")];
const WRAPS: &[&str] = &["", "'", "`", ",", ",@"];

fn build_text(tok: &str, pos: usize, wrap: usize) -> Vec<u8> {
    let (pre, post) = POSITIONS[pos];
    let mut v = Vec::new();
    v.extend_from_slice(pre.as_bytes());
    v.extend_from_slice(WRAPS[wrap].as_bytes());
    v.extend_from_slice(tok.as_bytes());
    v.extend_from_slice(post.as_bytes());
    v
}

fn check_against_reader(acc: &mut Acc, sub: &'static str, rank: u64, text: &[u8], po: &PO) {
    check_against_reader_src(acc, sub, rank, text, po, 0);
    // the stream source has its own scanners for symbols and strings: the documented reading is
    // the same there (corpus sub-check; the alphabet sweep stays on the slice source)
    if sub == "corpus-vs-reference" {
        check_against_reader_src(acc, sub, rank, text, po, 1);
        check_against_reader_src(acc, sub, rank, text, po, 2);
        check_against_reader_src(acc, sub, rank, text, po, 3);
        check_against_reader_src(acc, sub, rank, text, po, 4);
    }
}

/// `src`: 0 slice, 1 stream, 2 str (skipped when the text is not UTF-8).
fn check_against_reader_src(acc: &mut Acc, sub: &'static str, rank: u64, text: &[u8], po: &PO, src: u8) {
    let model = read_one(text, po);
    let actual = match src {
        0 => parse_slice(text, po.to_lexpr()),
        1 => crate::outcome::parse_reader(text, po.to_lexpr()),
        // the datum API has its own token dispatch and list reader (seed C08-g1)
        3 => crate::outcome::norm(crate::util::guard(|| lexpr::datum::from_slice_custom(text, po.to_lexpr()).map(|d| d.value().clone()))),
        4 => crate::outcome::norm(crate::util::guard(|| lexpr::datum::from_reader_custom(text, po.to_lexpr()).map(|d| d.value().clone()))),
        _ => match std::str::from_utf8(text) {
            Ok(t) => crate::outcome::parse_str(t, po.to_lexpr()),
            Err(_) => return,
        },
    };
    acc.evals += 1;
    let verdict: Option<(&'static str, String)> = match (&model, &actual) {
        (_, Outcome::Panic(_)) => None, // totality is C03's business
        (RR::Unspecified, _) => {
            acc.count("unspecified");
            None
        }
        (RR::Value(m), Outcome::Ok(v)) => {
            acc.nontrivial += 1;
            acc.count("agree-or-judged");
            match matches_value(m, v, cfg!(feature = "nofast")) {
                Ok(()) => None,
                Err(e) => Some(("wrong-reading", e)),
            }
        }
        (RR::Value(m), Outcome::Err(e)) => {
            acc.nontrivial += 1;
            Some(("rejected-documented-syntax", format!("documented reading is {}, implementation: {}", m, Outcome::Err(e.clone()).short())))
        }
        (RR::Error, Outcome::Ok(v)) => {
            acc.nontrivial += 1;
            Some(("accepted-undocumented", format!("the documentation makes this an error, implementation read {}", v)))
        }
        (RR::Error, Outcome::Err(_)) => {
            acc.count("agree-error");
            None
        }
    };
    acc.outcome(&(std::mem::discriminant(&model), actual.is_ok()));
    if let Some((kind, detail)) = verdict {
        let mk = match &model {
            RR::Value(m) => kind_name(m),
            RR::Error => "error".to_string(),
            RR::Unspecified => "unspec".to_string(),
        };
        let ak = match &actual {
            Outcome::Ok(v) => kind_name(v),
            Outcome::Err(e) => format!("err({})", e.msg),
            Outcome::Panic(_) => "panic".into(),
        };
        let cls = format!("{}->{}", mk, ak);
        let (h, pi) = (hex(text), po.index());
        acc.violation(sub, kind, &format!("{}:{}", kind, cls), rank, format!("source={} input={:?} opts=[{}]", ["slice", "reader", "str", "datum-slice", "datum-reader"][src as usize], show_bytes(text), po.describe()), detail, || json!({"input_hex": h, "po": pi}));
    }
}

fn kind_name(v: &RV) -> String {
    match v {
        RV::Nil => "nil".into(),
        RV::Null => "null".into(),
        RV::Bool(_) => "bool".into(),
        RV::Int(_) | RV::Float(_) | RV::NumLit(_) => "number".into(),
        RV::Char(_) => "char".into(),
        RV::Str(_) => "string".into(),
        RV::Sym(_) => "symbol".into(),
        RV::Kw(_) => "keyword".into(),
        RV::Bytes(_) => "bytes".into(),
        RV::Cons(a, _) => format!("list[{}..]", kind_name(a)),
        RV::Vector(_) => "vector".into(),
    }
}

/// Coarse class of a witness text (for grouping violations): the shape of its first atom.
fn classify_witness(text: &[u8]) -> String {
    let s = String::from_utf8_lossy(text);
    let tok: String = s.split(|c: char| c.is_whitespace() || "()[]\"'`,".contains(c)).find(|t| !t.is_empty() && *t != "a" && *t != "b" && *t != ".").unwrap_or("").chars().map(|c| if c.is_ascii_digit() { '9' } else if c.is_ascii_lowercase() { 'a' } else if c.is_ascii_uppercase() { 'A' } else if !c.is_ascii() { 'λ' } else { c }).collect();
    let mut t = String::new();
    for c in tok.chars() {
        if t.chars().last() != Some(c) || !(c == '9' || c == 'a' || c == 'A') {
            t.push(c);
        }
    }
    t.chars().take(8).collect()
}

// ---------------------------------------------------------------------------------------------
// non-interference differential

fn hash_value(v: &Value, h: &mut impl Hasher) {
    // iterative along the cdr spine
    let mut cur = v;
    loop {
        match cur {
            Value::Nil => 1u8.hash(h),
            Value::Null => 2u8.hash(h),
            Value::Bool(b) => (3u8, *b).hash(h),
            Value::Number(n) => {
                if let Some(u) = n.as_u64() {
                    (4u8, u).hash(h)
                } else if let Some(i) = n.as_i64() {
                    (5u8, i).hash(h)
                } else {
                    (6u8, n.as_f64().unwrap().to_bits()).hash(h)
                }
            }
            Value::Char(c) => (7u8, *c).hash(h),
            Value::String(s) => (8u8, &**s).hash(h),
            Value::Symbol(s) => (9u8, &**s).hash(h),
            Value::Keyword(s) => (10u8, &**s).hash(h),
            Value::Bytes(b) => (11u8, &**b).hash(h),
            Value::Vector(xs) => {
                (12u8, xs.len()).hash(h);
                for x in xs.iter() {
                    hash_value(x, h);
                }
            }
            Value::Cons(c) => {
                13u8.hash(h);
                hash_value(c.car(), h);
                cur = c.cdr();
                continue;
            }
        }
        break;
    }
}

/// Digest of the outcome: the value, or the error category (two different EOF messages are the
/// same outcome); 0 marks a panic (ignored here).
fn digest(text: &[u8], po: &PO) -> u64 {
    let o = po.to_lexpr();
    match guard(|| lexpr::from_slice_custom(text, o)) {
        Ok(Ok(v)) => {
            let mut h = std::collections::hash_map::DefaultHasher::new();
            hash_value(&v, &mut h);
            h.finish() | 1
        }
        Ok(Err(e)) => match e.classify() {
            lexpr::parse::error::Category::Syntax => 2,
            lexpr::parse::error::Category::Eof => 4,
            lexpr::parse::error::Category::Io => 6,
        },
        Err(_) => 0,
    }
}

/// Loose tokenisation for `governed`: maximal runs of non-delimiter bytes outside strings and
/// comments, with leading shorthand characters stripped. Returns None if token boundaries are
/// themselves outside the documentation (an atom glued to a '"').
fn loose_tokens(x: &[u8]) -> Option<(Vec<Vec<u8>>, bool, bool)> {
    let mut toks = Vec::new();
    let mut has_bracket = false;
    let mut has_quote = false;
    let mut i = 0;
    while i < x.len() {
        let b = x[i];
        if b == b';' {
            while i < x.len() && x[i] != b'\n' {
                i += 1;
            }
            continue;
        }
        if b == b'"' {
            has_quote = true;
            // scan to the closing quote treating backslash as an escape of one byte (both syntaxes)
            i += 1;
            while i < x.len() && x[i] != b'"' {
                if x[i] == b'\\' {
                    i += 1;
                }
                i += 1;
            }
            i += 1;
            // glued atom after the string?
            if i < x.len() && !is_delim(x[i]) {
                return None;
            }
            continue;
        }
        if b == b'[' || b == b']' {
            has_bracket = true;
            i += 1;
            continue;
        }
        if is_delim(b) {
            i += 1;
            continue;
        }
        // shorthand characters are tokens of their own
        if b == b'\'' || b == b'`' {
            i += 1;
            continue;
        }
        if b == b',' {
            i += 1;
            if i < x.len() && x[i] == b'@' {
                i += 1;
            }
            continue;
        }
        let st = i;
        if x[i..].starts_with(b"#\\") {
            // a character literal takes one scalar after "#\", even if that is a delimiter
            i += 2;
            if i < x.len() {
                let lead = x[i];
                let len = if lead < 0x80 { 1 } else if lead < 0xe0 { 2 } else if lead < 0xf0 { 3 } else { 4 };
                i = (i + len).min(x.len());
            }
        }
        while i < x.len() && !is_delim(x[i]) {
            i += 1;
        }
        if i < x.len() && x[i] == b'"' {
            return None;
        }
        toks.push(x[st..i].to_vec());
    }
    Some((toks, has_bracket, has_quote))
}

fn governed(toks: &(Vec<Vec<u8>>, bool, bool), option: &str) -> bool {
    let (t, br, q) = toks;
    // a '?'-initial token under Emacs character syntax can swallow the following delimiter, which
    // changes every boundary after it: any option may then legitimately matter
    match option {
        "nil" => t.iter().any(|x| x == b"nil"),
        "t" => t.iter().any(|x| x == b"t"),
        "kw-prefix" => t.iter().any(|x| x[0] == b':'),
        "kw-postfix" => t.iter().any(|x| x[x.len() - 1] == b':'),
        "kw-octothorpe" => t.iter().any(|x| x.starts_with(b"#:")),
        "brackets" => *br,
        "string" => *q,
        "char" => t.iter().any(|x| x[0] == b'?'),
        "racket" => t.iter().any(|x| x.starts_with(b"#%")),
        "digit" => t.iter().any(|x| x[0].is_ascii_digit()),
        _ => true,
    }
}

fn check_noninterference(acc: &mut Acc, rank: u64, text: &[u8]) {
    let toks = match loose_tokens(text) {
        Some(t) => t,
        None => {
            acc.evals += 1;
            acc.count("skipped-unspecified-boundaries");
            return;
        }
    };
    let mut digests = vec![0u64; N_PO as usize];
    for i in 0..N_PO {
        digests[i as usize] = digest(text, &PO::from_index(i));
    }
    acc.evals += N_PO;
    let mut any_ok = false;
    for i in 0..N_PO {
        let po = PO::from_index(i);
        let d = digests[i as usize];
        if d & 1 == 1 {
            any_ok = true;
        }
        if d == 0 {
            continue;
        }
        for (name, n) in po.neighbours() {
            let j = n.index();
            if j < i {
                continue; // each unordered pair once
            }
            let e = digests[j as usize];
            if e == 0 || e == d {
                continue;
            }
            acc.count("pairs-differing");
            // a '?' token under Emacs char syntax may swallow delimiters; then boundaries differ
            let char_swallow = (po.chr == 1 || n.chr == 1) && toks.0.iter().any(|x| x[0] == b'?');
            if governed(&toks, name) || char_swallow {
                continue;
            }
            let (h, pi, pj) = (hex(text), i, j);
            acc.violation(
                "non-interference",
                "ungoverned-option-changes-result",
                name,
                rank,
                format!("input={:?} option={} between [{}] and [{}]", show_bytes(text), name, po.describe(), n.describe()),
                format!("{} vs {}", parse_slice(text, po.to_lexpr()).short(), parse_slice(text, n.to_lexpr()).short()),
                || json!({"input_hex": h, "po": pi, "po2": pj, "option": name}),
            );
        }
    }
    if any_ok {
        acc.nontrivial += 1;
    }
    acc.outcome(&digests[1]);
}

pub fn replay(sub: &str, case: &J, acc: &mut Acc) {
    let input = unhex(case["input_hex"].as_str().unwrap_or(""));
    let po = PO::from_index(case["po"].as_u64().unwrap_or(0));
    match sub {
        "corpus-vs-reference" => check_against_reader(acc, "corpus-vs-reference", 0, &input, &po),
        "token-pairs" => {
            for src in 0..5 {
                check_against_reader_src(acc, "token-pairs", 0, &input, &po, src);
            }
        }
        "constructions" => {
            // replays re-run the whole comparison for the recorded (input, option set)
            let a = parse_slice(&input, po.to_lexpr());
            for (how, o) in [("sparse", po.to_lexpr_sparse()), ("from-elisp", po.to_lexpr_from_elisp()), ("default-preset", lexpr::parse::Options::default()), ("elisp-preset", lexpr::parse::Options::elisp()), ("new-preset", lexpr::parse::Options::new())] {
                let applicable = match how {
                    "default-preset" => po == PO::default_(),
                    "elisp-preset" => po == PO::elisp(),
                    "new-preset" => po == PO::new_empty(),
                    _ => true,
                };
                if applicable && parse_slice(&input, o) != a {
                    acc.violation("constructions", "construction-changes-reading", "construction-changes-reading", 0, format!("input={:?} opts=[{}] construction={}", show_bytes(&input), po.describe(), how), a.short(), || case.clone());
                }
            }
        }
        "alphabet-vs-reference" => check_against_reader(acc, "alphabet-vs-reference", 0, &input, &po),
        "non-interference" => check_noninterference(acc, 0, &input),
        _ => {}
    }
}

pub fn run(ctx: &Ctx) -> Report {
    let mut rep = Report::new(ctx, "exploration");
    rep.assume("the reference reader (DESIGN Appendix A) transcribes the documented grammar; it answers Unspecified wherever the documentation is silent and is never compared there");
    rep.assume("non-interference compares Ok values exactly and errors by category only");
    let thorough = ctx.tier.thorough();

    if ctx.want("corpus-vs-reference") {
        // the fixed token list plus the over-long number tokens and their near misses
        let mut tokens: Vec<String> = TOKENS.iter().map(|s| s.to_string()).collect();
        tokens.extend(crate::corpus::long_number_tokens().into_iter().filter_map(|t| String::from_utf8(t).ok()));
        let ntok = tokens.len() as u64;
        let per_tok = (POSITIONS.len() * WRAPS.len()) as u64;
        let total = ntok * per_tok * N_PO;
        let sub = Sub::new(
            "corpus-vs-reference",
            "every token of the corpus (each class with its near misses) in 7 syntactic positions (top level, list head, middle, last before ')', after a dot, last in #( ), inside [ ]) x {plain, ' ` , ,@} x all 1536 parser option sets: the implementation's result must match the reference reader wherever that is specified; non-trivial = the reference reader gives a definite answer that is not 'both reject'",
            &format!("{} tokens x {} contexts x 1536 option sets = {} cells", ntok, per_tok, total),
        );
        let accs = par_ranks(total, |rank, acc| {
            let pi = rank % N_PO;
            let c = rank / N_PO;
            let tok = &tokens[(c / per_tok) as usize];
            let pw = c % per_tok;
            let text = build_text(tok, (pw / WRAPS.len() as u64) as usize, (pw % WRAPS.len() as u64) as usize);
            let po = PO::from_index(pi);
            acc.sample(rank, || format!("{:?} [{}]", show_bytes(&text), po.describe()));
            check_against_reader(acc, "corpus-vs-reference", rank, &text, &po);
        });
        rep.absorb(sub, accs);
    }
    if ctx.want("constructions") {
        // every way of arriving at an option set reads every token the same way, the getters
        // report the set, and the presets are the documented sets
        let mut texts: Vec<Vec<u8>> = Vec::new();
        for tok in TOKENS {
            texts.push(build_text(tok, 0, 0));
            texts.push(build_text(tok, 2, 0));
        }
        // nesting right at the limit: the budget a parser starts with belongs to its construction
        // too (mutant: Parser::with_options starting with one level more than Parser::new)
        for t in crate::corpus::depth_boundary_texts() {
            if t.starts_with(b"(") && (t.ends_with(b"x)") || t.len() % 7 == 0) || t.starts_with(b"'") {
                texts.push(t);
            }
        }
        let nt = texts.len() as u64;
        let sub = Sub::new(
            "constructions",
            "for all 1536 option sets: the set built by calling every builder method explicitly, the set built from Options::new() by calling only the methods for options that differ from the documented empty set (additive keyword calls), and the set reached from Options::elisp() by overriding every option read every corpus token (top level and inside a list) identically, and the getters report the set; the presets Options::default() and Options::elisp() and the entry points from_str / from_slice / from_reader (and their _elisp variants) and the parser constructors without an options argument read every token (and nesting right at the limit) like the documented default / Emacs Lisp option sets built explicitly; non-trivial = every case",
            &format!("{} texts x 1536 option sets x 3 constructions + presets", nt),
        );
        let accs = par_ranks(nt * N_PO, |rank, acc| {
            let text = &texts[(rank / N_PO) as usize];
            let po = PO::from_index(rank % N_PO);
            acc.evals += 3;
            acc.nontrivial += 1;
            let a = parse_slice(text, po.to_lexpr());
            let case = || json!({"input_hex": hex(text), "po": po.index()});
            for (how, o) in [("sparse (only non-default options set)", po.to_lexpr_sparse()), ("from the elisp preset with every option overridden", po.to_lexpr_from_elisp())] {
                let b = parse_slice(text, o);
                if a != b {
                    acc.violation("constructions", "construction-changes-reading", "construction-changes-reading", rank, format!("input={:?} opts=[{}] construction={}", show_bytes(text), po.describe(), how), format!("explicit: {} ; {}: {}", a.short(), how, b.short()), case);
                }
                use lexpr::parse::{Brackets, CharSyntax, KeywordSyntax, NilSymbol, StringSyntax, TSymbol};
                let getters_ok = o.keyword_syntax(KeywordSyntax::Octothorpe) == (po.kw & crate::domains::KW_OCTO != 0)
                    && o.keyword_syntax(KeywordSyntax::ColonPrefix) == (po.kw & crate::domains::KW_PREFIX != 0)
                    && o.keyword_syntax(KeywordSyntax::ColonPostfix) == (po.kw & crate::domains::KW_POSTFIX != 0)
                    && matches!((o.nil_symbol(), po.nil), (NilSymbol::Default, 0) | (NilSymbol::EmptyList, 1) | (NilSymbol::Special, 2))
                    && matches!((o.t_symbol(), po.t), (TSymbol::Default, 0) | (TSymbol::True, 1))
                    && matches!((o.brackets(), po.brackets), (Brackets::List, 0) | (Brackets::Vector, 1))
                    && matches!((o.string_syntax(), po.string), (StringSyntax::R6RS, 0) | (StringSyntax::Elisp, 1))
                    && matches!((o.char_syntax(), po.chr), (CharSyntax::R6RS, 0) | (CharSyntax::Elisp, 1))
                    && o.racket_hash_percent_symbols() == po.racket
                    && o.leading_digit_symbols() == po.digit;
                if !getters_ok {
                    acc.violation("constructions", "getters-disagree", "getters-disagree", rank, format!("opts=[{}] construction={}", po.describe(), how), format!("{:?}", o), case);
                }
            }
            let presets: Vec<(&str, Outcome)> = if po == PO::default_() {
                let mut v = vec![("Options::default()", parse_slice(text, lexpr::parse::Options::default())), ("from_slice", crate::outcome::norm(guard(|| lexpr::from_slice(text)))), ("from_reader", crate::outcome::norm(guard(|| lexpr::from_reader(&text[..]))))];
                // the constructors without an options argument (Parser::new)
                fn one<'de, R: lexpr::parse::Read<'de>>(mut p: lexpr::parse::Parser<R>) -> Result<lexpr::Value, lexpr::parse::Error> {
                    let v = p.expect_value()?;
                    p.expect_end()?;
                    Ok(v)
                }
                v.push(("Parser::from_slice", crate::outcome::norm(guard(|| one(lexpr::parse::Parser::from_slice(text))))));
                v.push(("from_reader via Parser::from_reader", crate::outcome::norm(guard(|| one(lexpr::parse::Parser::from_reader(&text[..]))))));
                if let Ok(s) = std::str::from_utf8(text) {
                    v.push(("from_str", crate::outcome::norm(guard(|| lexpr::from_str(s)))));
                    v.push(("str::parse", crate::outcome::norm(guard(|| s.parse::<lexpr::Value>()))));
                    v.push(("Parser::from_str", crate::outcome::norm(guard(|| one(lexpr::parse::Parser::from_str(s))))));
                }
                v
            } else if po == PO::elisp() {
                let mut v = vec![("Options::elisp()", parse_slice(text, lexpr::parse::Options::elisp())), ("from_slice_elisp", crate::outcome::norm(guard(|| lexpr::parse::from_slice_elisp(text)))), ("from_reader_elisp", crate::outcome::norm(guard(|| lexpr::parse::from_reader_elisp(&text[..]))))];
                if let Ok(s) = std::str::from_utf8(text) {
                    v.push(("from_str_elisp", crate::outcome::norm(guard(|| lexpr::parse::from_str_elisp(s)))));
                }
                v
            } else if po == PO::new_empty() {
                vec![("Options::new()", parse_slice(text, lexpr::parse::Options::new()))]
            } else {
                vec![]
            };
            for (how, b) in presets {
                acc.evals += 1;
                acc.count("preset-comparisons");
                // same source on both sides (error positions may differ between sources)
                let a = if how.starts_with("from_reader") { crate::outcome::parse_reader(&text[..], po.to_lexpr()) } else { a.clone() };
                if a != b {
                    acc.violation("constructions", "preset-differs-from-documented-set", &format!("preset-differs-from-documented-set:{}", how), rank, format!("input={:?} preset={} documented=[{}]", show_bytes(text), how, po.describe()), format!("documented set: {} ; preset: {}", a.short(), b.short()), case);
                }
            }
            acc.outcome(&a.short().len().min(12));
            acc.sample(rank, || format!("{:?} [{}]", show_bytes(text), po.describe()));
        });
        rep.absorb(sub, accs);
    }
    if ctx.want("token-pairs") {
        // state carried from one token to the next (scratch buffers, look-ahead, flags): every
        // ordered pair of corpus tokens as neighbours in one list
        let mut tokens: Vec<String> = TOKENS.iter().map(|s| s.to_string()).collect();
        if thorough {
            tokens.extend(crate::corpus::long_number_tokens().into_iter().filter_map(|t| String::from_utf8(t).ok()));
        }
        let nt = tokens.len() as u64;
        let pos = crate::domains::po15();
        let npo = pos.len() as u64;
        let total = nt * nt * npo;
        let sub = Sub::new(
            "token-pairs",
            "every ordered pair (t1, t2) of corpus tokens as the text \"(t1 t2)\" x the 15 corner option sets, slice, stream and str source, against the reference reader: what one token leaves behind (scratch space, look-ahead, flags) must not change the reading of the next; non-trivial = the reference reader gives a definite answer that is not 'both reject'",
            &format!("{}^2 pairs x {} option sets x 3 sources", nt, npo),
        );
        let accs = par_ranks(total, |rank, acc| {
            let po = &pos[(rank % npo) as usize];
            let c = rank / npo;
            let (t1, t2) = (&tokens[(c / nt) as usize], &tokens[(c % nt) as usize]);
            let text = format!("({} {})", t1, t2).into_bytes();
            acc.sample(rank, || format!("{:?} [{}]", show_bytes(&text), po.describe()));
            for src in 0..5 {
                check_against_reader_src(acc, "token-pairs", rank, &text, po, src);
            }
        });
        rep.absorb(sub, accs);
    }
    if ctx.want("alphabet-vs-reference") {
        let k = if thorough { 5 } else { 4 };
        let n = count_upto(SIGMA.len() as u64, k);
        let pos = crate::domains::po15();
        let npo = pos.len() as u64;
        let sub = Sub::new(
            "alphabet-vs-reference",
            "binding of the reference reader to the implementation: every string of length <= k over the 40-symbol token alphabet x the 15 corner option sets, same comparison (counts of agree / unspecified are in the counters)",
            &format!("k = {}: {} strings x {} option sets", k, n, npo),
        );
        let accs = par_ranks(n * npo, |rank, acc| {
            let mut buf = Vec::new();
            let mut idx = Vec::new();
            unrank_string(rank / npo, SIGMA, &mut buf, &mut idx);
            let po = &pos[(rank % npo) as usize];
            acc.sample(rank, || format!("{:?} [{}]", show_bytes(&buf), po.describe()));
            check_against_reader(acc, "alphabet-vs-reference", rank, &buf, po);
        });
        rep.absorb(sub, accs);
    }
    if ctx.want("non-interference") {
        let k = if thorough { 4 } else { 3 };
        let n = count_upto(SIGMA.len() as u64, k);
        // plus the corpus tokens in context
        let mut extra: Vec<Vec<u8>> = Vec::new();
        for tok in TOKENS {
            for p in 0..POSITIONS.len() {
                extra.push(build_text(tok, p, 0));
            }
            extra.push(build_text(tok, 0, 1));
        }
        let total = n + extra.len() as u64;
        let sub = Sub::new(
            "non-interference",
            "pure differential: for every input and every pair of option sets differing in exactly one option, if the results differ then the input must contain (outside strings and comments) a token of the class that option names; inputs = all strings <= k over the token alphabet plus every corpus token in every position; all 1536 x 11 adjacent pairs; non-trivial = input accepted under at least one option set",
            &format!("k = {}: {} + {} inputs x 1536 option sets ({} parses), 8448 unordered adjacent pairs per input", k, n, extra.len(), total * N_PO),
        );
        let accs = par_ranks(total, |rank, acc| {
            let mut buf = Vec::new();
            let mut idx = Vec::new();
            let text: &[u8] = if rank < n {
                unrank_string(rank, SIGMA, &mut buf, &mut idx);
                &buf
            } else {
                &extra[(rank - n) as usize]
            };
            acc.sample(rank, || format!("{:?}", show_bytes(text)));
            check_noninterference(acc, rank, text);
        });
        rep.absorb(sub, accs);
    }
    rep
}
