//! C15 — list construction, traversal, conversion and indexing are consistent.
//! Complete enumeration of (xs, t) over a 13-element alphabet and 17 tails against ListModel.

use crate::model::list::normalise;
use crate::par::{count_upto, par_ranks};
use crate::report::{Acc, Ctx, Report, Sub};
use crate::rv::RV;
use crate::util::guard;
use lexpr::{Cons, Value};
use serde_json::{json, Value as J};

fn elem_alphabet() -> Vec<RV> {
    vec![
        RV::Nil,
        RV::Null,
        RV::Bool(true),
        RV::Int(5),
        RV::Float(1.5),
        RV::Char('c'),
        RV::str("s"),
        RV::sym("a"),
        RV::kw("k"),
        RV::Bytes(vec![1]),
        RV::Vector(vec![RV::Int(1)]),
        RV::list(vec![RV::Int(1), RV::Int(2)]),
        RV::append(vec![RV::Int(1)], RV::Int(2)),
    ]
}

fn tails() -> Vec<RV> {
    vec![
        RV::Null,
        RV::Nil,
        RV::Bool(false),
        RV::Int(-3),
        RV::Float(2.5),
        RV::Char('z'),
        RV::str("t"),
        RV::sym("tl"),
        RV::kw("tk"),
        RV::Bytes(vec![]),
        RV::Vector(vec![]),
        // tails that are themselves indexable by position: an index past the last cell must not
        // carry on into them (seed C15-c)
        RV::Vector(vec![RV::sym("va"), RV::sym("vb"), RV::sym("vc")]),
        RV::Bytes(vec![1, 2, 3]),
        RV::list(vec![RV::sym("x"), RV::sym("y")]),
        RV::append(vec![RV::sym("x")], RV::sym("y")),
        RV::list(vec![RV::Null]),
        RV::append(vec![RV::list(vec![RV::Int(1)])], RV::Int(2)),
    ]
}

fn unrank_xs(mut rank: u64, a: u64) -> Vec<usize> {
    let mut len = 0;
    let mut p = 1u64;
    while rank >= p {
        rank -= p;
        p *= a;
        len += 1;
    }
    let mut idx = vec![0usize; len];
    for i in (0..len).rev() {
        idx[i] = (rank % a) as usize;
        rank /= a;
    }
    idx
}

struct V<'a> {
    acc: &'a mut Acc,
    sub: &'static str,
    rank: u64,
    witness: String,
    case: J,
}
impl<'a> V<'a> {
    fn fail(&mut self, kind: &str, detail: String) {
        let case = self.case.clone();
        self.acc.violation(self.sub, kind, kind, self.rank, self.witness.clone(), detail, || case);
    }
}

/// All construction routes for (xs, t); each must produce the same value.
fn routes(xs: &[RV], t: &RV) -> Vec<(&'static str, Value)> {
    let xv: Vec<Value> = xs.iter().map(|x| x.to_value()).collect();
    let tv = t.to_value();
    let mut out = Vec::new();
    // 1 hand-built Cons::new chain
    let mut acc = tv.clone();
    for x in xv.iter().rev() {
        acc = Value::Cons(Cons::new(x.clone(), acc));
    }
    out.push(("cons-new-chain", acc));
    // 2 Value::append
    out.push(("Value::append", Value::append(xv.clone(), tv.clone())));
    // 2b the same through iterators that do not know their length (size_hint lower bound 0)
    out.push(("Value::append(lazy iterator)", Value::append(xv.clone().into_iter().filter(|_| true), tv.clone())));
    {
        let mut it = xv.clone().into_iter();
        out.push(("Value::append(from_fn)", Value::append(std::iter::from_fn(move || it.next()), tv.clone())));
    }
    if *t == RV::Null {
        out.push(("Value::list(lazy iterator)", Value::list(xv.clone().into_iter().filter(|_| true))));
    }
    // 3 Value::list (only when t is Null) or Value::list + set_cdr on the last cell
    if *t == RV::Null {
        out.push(("Value::list", Value::list(xv.clone())));
    } else if !xv.is_empty() {
        let mut l = Value::list(xv.clone());
        {
            let mut cell = l.as_cons_mut().unwrap();
            loop {
                if cell.cdr().is_cons() {
                    cell = cell.cdr_mut().as_cons_mut().unwrap();
                } else {
                    break;
                }
            }
            cell.set_cdr(tv.clone());
        }
        out.push(("Value::list+set_cdr", l));
    }
    // 4 From<(T, U)> nesting
    let mut acc = tv.clone();
    for x in xv.iter().rev() {
        acc = Value::from((x.clone(), acc));
    }
    out.push(("From<(T,U)>", acc));
    // 5 Value::cons nesting
    let mut acc = tv.clone();
    for x in xv.iter().rev() {
        acc = Value::cons(x.clone(), acc);
    }
    out.push(("Value::cons", acc));
    // 6 the mutators: a chain of placeholder cells filled in through set_car / set_cdr, and
    //   through the car_mut / cdr_mut references
    if !xv.is_empty() {
        for by_ref in [false, true] {
            let mut acc = Value::Null;
            for _ in 0..xv.len() {
                acc = Value::Cons(Cons::new(Value::Nil, acc));
            }
            {
                let mut cell = acc.as_cons_mut().unwrap();
                for (i, x) in xv.iter().enumerate() {
                    if by_ref {
                        *cell.car_mut() = x.clone();
                    } else {
                        cell.set_car(x.clone());
                    }
                    if i + 1 == xv.len() {
                        if by_ref {
                            *cell.cdr_mut() = tv.clone();
                        } else {
                            cell.set_cdr(tv.clone());
                        }
                        break;
                    }
                    cell = cell.cdr_mut().as_cons_mut().unwrap();
                }
            }
            out.push((if by_ref { "car_mut/cdr_mut" } else { "set_car/set_cdr" }, acc));
        }
        // 7 the consuming iterator's peek_mut: every cell rewritten in place before it is taken
        let mut acc = Value::Null;
        for _ in 0..xv.len() {
            acc = Value::Cons(Cons::new(Value::Nil, acc));
        }
        if let Value::Cons(c) = acc {
            let mut it = c.into_iter();
            let mut items: Vec<Value> = Vec::new();
            let mut k = 0;
            loop {
                match it.peek_mut() {
                    Some(cell) => cell.set_car(xv[k.min(xv.len() - 1)].clone()),
                    None => break,
                }
                match it.next() {
                    Some((car, _)) => items.push(car),
                    None => break,
                }
                k += 1;
            }
            out.push(("IntoIter::peek_mut", Value::append(items, tv.clone())));
        }
    }
    out
}

fn check_list(v: &mut V, xs: &[RV], t: &RV, check_routes: bool) {
    let (mx, mt) = normalise(xs, t);
    let n = mx.len();
    let built = routes(xs, t);
    let val = built[0].1.clone();
    if RV::from_value(&val) != RV::append(mx.clone(), mt.clone()) {
        v.fail("route-structure", format!("cons chain has structure {}", RV::from_value(&val)));
    }
    if check_routes {
        for (name, other) in &built[1..] {
            if *other != val || RV::from_value(other) != RV::from_value(&val) {
                v.fail("route-disagrees", format!("route {} built {} instead of {}", name, RV::from_value(other), RV::from_value(&val)));
            }
        }
    }
    let proper = mt == RV::Null;
    // predicates
    let (il, idl) = (val.is_list(), val.is_dotted_list());
    if n > 0 || mt == RV::Null {
        if il != proper {
            v.fail("is_list", format!("is_list() = {} for {}", il, RV::from_value(&val)));
        }
    } else if il {
        v.fail("is_list", format!("is_list() true for non-list {}", RV::from_value(&val)));
    }
    if idl == il {
        v.fail("predicates-not-complementary", format!("is_list() = {}, is_dotted_list() = {}", il, idl));
    }
    // Value-level conversions
    let tv = val.to_vec().map(|xs| xs.iter().map(RV::from_value).collect::<Vec<_>>());
    let trv = val.to_ref_vec().map(|xs| xs.iter().map(|x| RV::from_value(x)).collect::<Vec<_>>());
    let expect_vec = if (n > 0 || mt == RV::Null) && proper { Some(mx.clone()) } else { None };
    if tv != expect_vec {
        v.fail("Value::to_vec", format!("got {:?}", tv.map(|x| x.iter().map(|y| y.to_string()).collect::<Vec<_>>())));
    }
    if trv != expect_vec {
        v.fail("Value::to_ref_vec", format!("got {:?}", trv.map(|x| x.iter().map(|y| y.to_string()).collect::<Vec<_>>())));
    }
    // indexing
    let mut idxs: Vec<usize> = (0..=n + 3).collect();
    idxs.push(usize::MAX);
    if n > 12 {
        idxs = vec![0, 1, n / 2, n - 1, n, n + 1, n + 2, n + 3, usize::MAX];
    }
    for &i in &idxs {
        // with no elements the "list" is the tail value itself; a vector is indexable by position
        let expect = if n > 0 && i < n {
            Some(mx[i].clone())
        } else if n == 0 {
            match &mt {
                RV::Vector(items) => items.get(i).cloned(),
                _ => None,
            }
        } else {
            None
        };
        let got = val.get(i).map(RV::from_value);
        if got != expect {
            v.fail("get(usize)", format!("get({}) = {:?}, expected {:?}", i, got.map(|x| x.to_string()), expect.as_ref().map(|x| x.to_string())));
        }
        let got2 = RV::from_value(&val[i]);
        let expect2 = expect.clone().unwrap_or(RV::Nil);
        if got2 != expect2 {
            v.fail("index[usize]", format!("[{}] = {}, expected {}", i, got2, expect2));
        }
        let got3 = val.get(&i).map(RV::from_value);
        if got3 != expect {
            v.fail("get(&usize)", format!("get(&{}) disagrees", i));
        }
    }
    // list_iter
    let li = val.list_iter();
    if n == 0 {
        match (&mt, li) {
            (RV::Null, Some(mut it)) => {
                if !it.is_empty() || it.peek().is_some() || it.next().is_some() {
                    v.fail("list_iter-empty", "empty list iterator is not empty".into());
                }
            }
            (RV::Null, None) => v.fail("list_iter-empty", "list_iter() of () is None".into()),
            (_, Some(_)) => v.fail("list_iter-atom", "list_iter() of an atom is Some".into()),
            (_, None) => {}
        }
        return;
    }
    let cell = match val.as_cons() {
        Some(c) => c,
        None => {
            v.fail("as_cons", "non-empty list is not a cons".into());
            return;
        }
    };
    for (which, mut it) in [("Value::list_iter", li.unwrap()), ("Cons::list_iter", cell.list_iter())] {
        // expected protocol: xs'..., then (dotted) None, t', None / (proper) None
        let mut expected: Vec<Option<RV>> = mx.iter().cloned().map(Some).collect();
        if !proper {
            expected.push(None);
            expected.push(Some(mt.clone()));
        }
        let total = expected.len();
        for (k, e) in expected.iter().enumerate() {
            if it.is_empty() {
                v.fail(which, format!("is_empty() true before item {} of {}", k, total));
                break;
            }
            let pk = it.peek().map(RV::from_value);
            if pk != *e {
                v.fail(which, format!("peek() before item {}: {:?}, expected {:?}", k, pk.map(|x| x.to_string()), e.as_ref().map(|x| x.to_string())));
            }
            let nx = it.next().map(RV::from_value);
            if nx != *e {
                v.fail(which, format!("next() item {}: {:?}, expected {:?}", k, nx.map(|x| x.to_string()), e.as_ref().map(|x| x.to_string())));
                break;
            }
        }
        if !it.is_empty() {
            v.fail(which, "is_empty() false after the last item".into());
        }
        if it.peek().is_some() || it.next().is_some() || it.next().is_some() {
            v.fail(which, "yields items after exhaustion".into());
        }
    }
    // Cons-level conversions
    let (cv, ct) = cell.to_vec();
    if cv.iter().map(RV::from_value).collect::<Vec<_>>() != mx || RV::from_value(&ct) != mt {
        v.fail("Cons::to_vec", format!("tail {}", RV::from_value(&ct)));
    }
    let (rv, rt) = cell.to_ref_vec();
    if rv.iter().map(|x| RV::from_value(x)).collect::<Vec<_>>() != mx || RV::from_value(rt) != mt {
        v.fail("Cons::to_ref_vec", format!("tail {}", RV::from_value(rt)));
    }
    let (iv, it) = cell.clone().into_vec();
    if iv.iter().map(RV::from_value).collect::<Vec<_>>() != mx || RV::from_value(&it) != mt {
        v.fail("Cons::into_vec", format!("tail {}", RV::from_value(&it)));
    }
    // into_pair, cell by cell
    {
        let mut cur = val.clone();
        let mut got: Vec<RV> = Vec::new();
        loop {
            match cur {
                Value::Cons(c) => {
                    let (a, d) = c.into_pair();
                    got.push(RV::from_value(&a));
                    cur = d;
                    if got.len() > n + 2 {
                        break;
                    }
                }
                other => {
                    if got != mx || RV::from_value(&other) != mt {
                        v.fail("Cons::into_pair", format!("walk by into_pair gives {} elements and tail {}", got.len(), RV::from_value(&other)));
                    }
                    break;
                }
            }
        }
    }
    // cell iteration
    let mut cnt = 0usize;
    let mut iter = cell.iter();
    loop {
        let pk = iter.peek().map(|c| RV::from_value(c.car()));
        match iter.next() {
            Some(c) => {
                if cnt < n && RV::from_value(c.car()) != mx[cnt] {
                    v.fail("Cons::iter", format!("cell {} has car {}", cnt, RV::from_value(c.car())));
                }
                if pk != Some(RV::from_value(c.car())) {
                    v.fail("Cons::iter-peek", format!("peek before cell {} disagrees", cnt));
                }
                cnt += 1;
                if cnt > n + 2 {
                    break;
                }
            }
            None => {
                if pk.is_some() {
                    v.fail("Cons::iter-peek", "peek Some at end".into());
                }
                break;
            }
        }
    }
    if cnt != n {
        v.fail("Cons::iter", format!("visited {} cells, expected {}", cnt, n));
    }
    if (&*cell).into_iter().count() != n {
        v.fail("&Cons::into_iter", "cell count differs".into());
    }
    // consuming iterator
    let mut k = 0usize;
    let mut into = cell.clone().into_iter();
    loop {
        let pk = into.peek().map(|c| RV::from_value(c.car()));
        match into.next() {
            Some((car, rest)) => {
                if k >= n {
                    v.fail("Cons::into_iter", "yields more items than elements".into());
                    break;
                }
                if pk != Some(RV::from_value(&car)) {
                    v.fail("Cons::into_iter-peek", format!("peek before item {} disagrees", k));
                }
                if RV::from_value(&car) != mx[k] {
                    v.fail("Cons::into_iter", format!("item {} is {}", k, RV::from_value(&car)));
                }
                let expect_rest = if k + 1 == n { Some(mt.clone()) } else { None };
                if rest.as_ref().map(RV::from_value) != expect_rest {
                    v.fail("Cons::into_iter", format!("item {} carries tail {:?}, expected {:?}", k, rest.as_ref().map(|x| RV::from_value(x).to_string()), expect_rest.map(|x| x.to_string())));
                }
                k += 1;
            }
            None => break,
        }
    }
    if k != n {
        v.fail("Cons::into_iter", format!("yielded {} items, expected {}", k, n));
    }
    // a vector of the same elements indexes the same way
    let vecv = Value::Vector(mx.iter().map(|x| x.to_value()).collect::<Vec<_>>().into_boxed_slice());
    for &i in &idxs {
        let expect = if i < n { Some(mx[i].clone()) } else { None };
        if vecv.get(i).map(RV::from_value) != expect || RV::from_value(&vecv[i]) != expect.clone().unwrap_or(RV::Nil) {
            v.fail("vector-index", format!("vector index {} disagrees", i));
        }
    }
}


// ------------------------------------------------------------- iterator call histories

/// The five list iterators as state machines: every sequence of their operations of the given
/// length, executed on a fresh iterator, against a pointer-into-a-Vec model.
const ITER_KINDS: [&str; 5] = ["Value::list_iter", "Cons::list_iter", "Cons::iter", "Cons::into_iter", "Datum::list_iter"];

fn iter_ops(kind: usize) -> &'static [&'static str] {
    match kind {
        0 | 1 | 4 => &["is_empty", "peek", "next"],
        2 => &["peek", "next"],
        _ => &["peek", "peek_mut-set", "next"],
    }
}

fn check_iter_histories(v: &mut V, n: usize, tail: &RV, kind: usize, depth: usize) -> u64 {
    let xs: Vec<RV> = (0..n).map(|i| RV::Int(i as i128 + 1)).collect();
    let val = RV::append(xs.clone(), tail.clone()).to_value();
    let proper = *tail == RV::Null;
    // expected items of the element iterators
    let mut e: Vec<Option<RV>> = xs.iter().cloned().map(Some).collect();
    if !proper {
        e.push(None);
        e.push(Some(tail.clone()));
    }
    let show = |x: &Option<RV>| match x {
        Some(r) => format!("Some({})", r),
        None => "None".to_string(),
    };
    let ops = iter_ops(kind);
    let k = ops.len() as u64;
    let total = k.pow(depth as u32);
    let datum = if kind == 4 { lexpr::datum::from_str(&lexpr::to_string(&val).unwrap_or_default()).ok() } else { None };
    let mut runs = 0u64;
    for code in 0..total {
        runs += 1;
        let seq: Vec<usize> = (0..depth).map(|i| ((code / k.pow(i as u32)) % k) as usize).collect();
        let mut want: Vec<String> = Vec::new();
        let mut got: Vec<String> = Vec::new();
        match kind {
            0 | 1 | 4 => {
                let mut p = 0usize;
                for &o in &seq {
                    match ops[o] {
                        "is_empty" => want.push(format!("{}", p >= e.len())),
                        "peek" => want.push(if p < e.len() { show(&e[p]) } else { "None".into() }),
                        _ => {
                            want.push(if p < e.len() { show(&e[p]) } else { "None".into() });
                            if p < e.len() {
                                p += 1;
                            }
                        }
                    }
                }
                if kind == 4 {
                    let d = match &datum {
                        Some(d) => d,
                        None => return runs,
                    };
                    let mut it = match d.list_iter() {
                        Some(it) => it,
                        None => return runs,
                    };
                    for &o in &seq {
                        got.push(match ops[o] {
                            "is_empty" => format!("{}", it.is_empty()),
                            "peek" => show(&it.peek().map(|r| RV::from_value(r.value()))),
                            _ => show(&it.next().map(|r| RV::from_value(r.value()))),
                        });
                    }
                } else {
                    let mut it = if kind == 0 {
                        match val.list_iter() {
                            Some(it) => it,
                            None => return runs,
                        }
                    } else {
                        match val.as_cons() {
                            Some(c) => c.list_iter(),
                            None => return runs,
                        }
                    };
                    for &o in &seq {
                        got.push(match ops[o] {
                            "is_empty" => format!("{}", it.is_empty()),
                            "peek" => show(&it.peek().map(RV::from_value)),
                            _ => show(&it.next().map(RV::from_value)),
                        });
                    }
                }
            }
            2 => {
                let cell = match val.as_cons() {
                    Some(c) => c,
                    None => return runs,
                };
                let mut p = 0usize;
                let mut it = cell.iter();
                for &o in &seq {
                    let w = if p < n { format!("Some({})", xs[p]) } else { "None".into() };
                    want.push(w);
                    if ops[o] == "next" {
                        if p < n {
                            p += 1;
                        }
                        got.push(show(&it.next().map(|c| RV::from_value(c.car()))));
                    } else {
                        got.push(show(&it.peek().map(|c| RV::from_value(c.car()))));
                    }
                }
            }
            _ => {
                let cell = match val.as_cons() {
                    Some(c) => c.clone(),
                    None => return runs,
                };
                let mut cars = xs.clone();
                let mut p = 0usize;
                let mut it = cell.into_iter();
                for &o in &seq {
                    match ops[o] {
                        "peek" => {
                            want.push(if p < n { format!("Some({})", cars[p]) } else { "None".into() });
                            got.push(show(&it.peek().map(|c| RV::from_value(c.car()))));
                        }
                        "peek_mut-set" => {
                            if p < n {
                                cars[p] = RV::Int(99);
                            }
                            want.push(format!("{}", p < n));
                            got.push(match it.peek_mut() {
                                Some(c) => {
                                    c.set_car(Value::from(99));
                                    "true".into()
                                }
                                None => "false".into(),
                            });
                        }
                        _ => {
                            if p < n {
                                let rest = if p + 1 == n { format!("Some({})", tail) } else { "None".to_string() };
                                want.push(format!("Some(({}, {}))", cars[p], rest));
                                p += 1;
                            } else {
                                want.push("None".into());
                            }
                            got.push(match it.next() {
                                Some((car, rest)) => format!("Some(({}, {}))", RV::from_value(&car), show(&rest.as_ref().map(RV::from_value))),
                                None => "None".into(),
                            });
                        }
                    }
                }
            }
        }
        if want != got {
            let names: Vec<&str> = seq.iter().map(|&o| ops[o]).collect();
            let at = want.iter().zip(got.iter()).position(|(a, b)| a != b).unwrap_or(0);
            v.fail(&format!("history:{}", ITER_KINDS[kind]), format!("calls {:?}: call #{} ({}) answered {}, the model says {}", names, at + 1, names[at], got[at], want[at]));
            return runs;
        }
    }
    runs
}

// ---------------------------------------------------------------------------- alists

fn alist_entries() -> Vec<RV> {
    vec![
        RV::cons(RV::str("k"), RV::Int(1)),
        RV::cons(RV::sym("k"), RV::Int(2)),
        RV::cons(RV::kw("k"), RV::Int(3)),
        RV::cons(RV::Int(42), RV::Int(4)),
        RV::cons(RV::sym("other"), RV::Int(5)),
        RV::cons(RV::str("other"), RV::Null),
        RV::cons(RV::list(vec![RV::Int(1)]), RV::Int(7)),
        // compound keys that differ only in their last element / in their car / in their length
        RV::cons(RV::list(vec![RV::Int(1), RV::Int(2)]), RV::Int(12)),
        RV::cons(RV::list(vec![RV::Int(1), RV::Int(3)]), RV::Int(13)),
        RV::cons(RV::cons(RV::sym("a"), RV::Int(1)), RV::Int(14)),
        RV::cons(RV::cons(RV::sym("b"), RV::Int(1)), RV::Int(15)),
        RV::cons(RV::Vector(vec![RV::Int(1), RV::Int(2)]), RV::Int(16)),
        RV::Int(9),
        RV::Null,
        RV::sym("k"),
        RV::Vector(vec![RV::sym("k"), RV::Int(8)]),
    ]
}
fn alist_tails() -> Vec<RV> {
    vec![RV::Null, RV::Int(0), RV::sym("k"), RV::cons(RV::cons(RV::sym("k"), RV::Int(6)), RV::Null), RV::cons(RV::cons(RV::Int(42), RV::Int(10)), RV::Int(11))]
}

fn name_of(v: &RV) -> Option<&str> {
    match v {
        RV::Str(s) | RV::Sym(s) | RV::Kw(s) => Some(s),
        _ => None,
    }
}

fn check_alist(v: &mut V, entries: &[RV], t: &RV) {
    let (mx, _mt) = normalise(entries, t);
    let val = RV::append(entries.to_vec(), t.clone()).to_value();
    let by_name = |name: &str| -> Option<RV> {
        for e in &mx {
            if let RV::Cons(k, d) = e {
                if name_of(k) == Some(name) {
                    return Some((**d).clone());
                }
            }
        }
        None
    };
    let by_value = |key: &RV| -> Option<RV> {
        for e in &mx {
            if let RV::Cons(k, d) = e {
                if **k == *key {
                    return Some((**d).clone());
                }
            }
        }
        None
    };
    for name in ["k", "other", "missing", ""] {
        let expect = by_name(name);
        let owned = name.to_string();
        let r = &name;
        let gots = [
            ("get(&str)", val.get(name).map(RV::from_value)),
            ("get(String)", val.get(owned.clone()).map(RV::from_value)),
            ("get(&String)", val.get(&owned).map(RV::from_value)),
            ("get(&&str)", val.get(r).map(RV::from_value)),
        ];
        for (w, g) in gots {
            if g != expect {
                v.fail(w, format!("lookup {:?}: {:?}, expected {:?}", name, g.map(|x| x.to_string()), expect.as_ref().map(|x| x.to_string())));
            }
        }
        let e2 = expect.clone().unwrap_or(RV::Nil);
        if RV::from_value(&val[name]) != e2 || RV::from_value(&val[owned.clone()]) != e2 || RV::from_value(&val[&owned]) != e2 {
            v.fail("index[str]", format!("[{:?}] disagrees with {}", name, e2));
        }
    }
    for key in [
        RV::str("k"),
        RV::sym("k"),
        RV::kw("k"),
        RV::Int(42),
        RV::Int(43),
        RV::list(vec![RV::Int(1)]),
        RV::Null,
        RV::list(vec![RV::Int(1), RV::Int(2)]),
        RV::list(vec![RV::Int(1), RV::Int(3)]),
        RV::list(vec![RV::Int(1), RV::Int(4)]),
        RV::list(vec![RV::Int(2), RV::Int(3)]),
        RV::append(vec![RV::Int(1)], RV::Int(2)),
        RV::cons(RV::sym("a"), RV::Int(1)),
        RV::cons(RV::sym("b"), RV::Int(1)),
        RV::cons(RV::sym("c"), RV::Int(1)),
        RV::cons(RV::sym("a"), RV::Int(2)),
        RV::Vector(vec![RV::Int(1), RV::Int(2)]),
        RV::Vector(vec![RV::Int(1), RV::Int(3)]),
    ] {
        let expect = by_value(&key);
        let kv = key.to_value();
        let g = val.get(kv.clone()).map(RV::from_value);
        let g2 = val.get(&kv).map(RV::from_value);
        if g != expect || g2 != expect {
            v.fail("get(Value)", format!("lookup {}: {:?}, expected {:?}", key, g.map(|x| x.to_string()), expect.as_ref().map(|x| x.to_string())));
        }
        if RV::from_value(&val[kv.clone()]) != expect.clone().unwrap_or(RV::Nil) {
            v.fail("index[Value]", format!("[{}] disagrees", key));
        }
    }
}

fn check_nonlist(v: &mut V, target: &RV) {
    let val = target.to_value();
    let owned = "k".to_string();
    let key = Value::symbol("k");
    let checks: Vec<(&str, Option<RV>, RV)> = vec![
        ("usize 0", val.get(0usize).map(RV::from_value), RV::from_value(&val[0usize])),
        ("usize MAX", val.get(usize::MAX).map(RV::from_value), RV::from_value(&val[usize::MAX])),
        ("&str", val.get("k").map(RV::from_value), RV::from_value(&val["k"])),
        ("String", val.get(owned.clone()).map(RV::from_value), RV::from_value(&val[owned.clone()])),
        ("&String", val.get(&owned).map(RV::from_value), RV::from_value(&val[&owned])),
        ("Value", val.get(key.clone()).map(RV::from_value), RV::from_value(&val[key.clone()])),
        ("&Value", val.get(&key).map(RV::from_value), RV::from_value(&val[&key])),
    ];
    for (w, g, i) in checks {
        // vectors answer usize indices; everything else is None / Nil
        let expect = match (target, w) {
            (RV::Vector(xs), "usize 0") => xs.get(0).cloned(),
            _ => None,
        };
        if g != expect || i != expect.clone().unwrap_or(RV::Nil) {
            v.fail("nonlist-index", format!("index {} on {}: get = {:?}, [] = {}", w, target, g.map(|x| x.to_string()), i));
        }
    }
}

fn run_case(sub: &'static str, case: &J, rank: u64, acc: &mut Acc) {
    let alpha = elem_alphabet();
    let tl = tails();
    match sub {
        "accessors" | "long-lists" => {
            let (xs, t, witness): (Vec<RV>, RV, String) = if sub == "accessors" {
                let idx: Vec<usize> = case["xs"].as_array().unwrap().iter().map(|x| x.as_u64().unwrap() as usize).collect();
                let ti = case["t"].as_u64().unwrap() as usize;
                let xs: Vec<RV> = idx.iter().map(|&i| alpha[i].clone()).collect();
                let w = format!("xs={} t={}", RV::Vector(xs.clone()), tl[ti]);
                (xs, tl[ti].clone(), w)
            } else {
                let n = case["n"].as_u64().unwrap() as usize;
                let ti = case["t"].as_u64().unwrap() as usize;
                let xs: Vec<RV> = (0..n).map(|i| alpha[i % alpha.len()].clone()).collect();
                (xs, tl[ti].clone(), format!("n={} rotating pattern, t={}", n, tl[ti]))
            };
            let mut v = V { acc, sub, rank, witness, case: case.clone() };
            let r = guard(|| check_list(&mut v, &xs, &t, true));
            if let Err(p) = r {
                v.fail("panic", p);
            }
        }
        "alists" => {
            let ents = alist_entries();
            let ats = alist_tails();
            let idx: Vec<usize> = case["entries"].as_array().unwrap().iter().map(|x| x.as_u64().unwrap() as usize).collect();
            let ti = case["t"].as_u64().unwrap() as usize;
            let es: Vec<RV> = idx.iter().map(|&i| ents[i].clone()).collect();
            let witness = format!("alist={}", RV::append(es.clone(), ats[ti].clone()));
            let mut v = V { acc, sub, rank, witness, case: case.clone() };
            let r = guard(|| check_alist(&mut v, &es, &ats[ti]));
            if let Err(p) = r {
                v.fail("panic", p);
            }
        }
        "nonlist-targets" => {
            let i = case["target"].as_u64().unwrap() as usize;
            let mut targets = alpha.clone();
            targets.extend(tl.iter().cloned());
            let t = targets[i].clone();
            if matches!(t, RV::Cons(_, _)) {
                return;
            }
            let mut v = V { acc, sub, rank, witness: format!("target={}", t), case: case.clone() };
            let r = guard(|| check_nonlist(&mut v, &t));
            if let Err(p) = r {
                v.fail("panic", p);
            }
        }
        _ => {}
    }
}

pub fn replay(sub: &str, case: &J, acc: &mut Acc) {
    if sub == "iterator-histories" {
        let tls = [RV::Null, RV::sym("t"), RV::Vector(vec![RV::Int(7)])];
        let (kind, n, ti, depth) = (case["iter_kind"].as_u64().unwrap_or(0) as usize, case["n"].as_u64().unwrap_or(0) as usize, case["tail"].as_u64().unwrap_or(0) as usize, case["depth"].as_u64().unwrap_or(7) as usize);
        let mut v = V { acc, sub: "iterator-histories", rank: 0, witness: format!("{} over {} element(s), tail {}", ITER_KINDS[kind % 5], n, tls[ti % 3]), case: case.clone() };
        let _ = guard(std::panic::AssertUnwindSafe(|| check_iter_histories(&mut v, n, &tls[ti % 3], kind % 5, depth)));
        return;
    }
    let s: &'static str = match sub {
        "accessors" => "accessors",
        "long-lists" => "long-lists",
        "alists" => "alists",
        "nonlist-targets" => "nonlist-targets",
        _ => return,
    };
    run_case(s, case, 0, acc);
}

pub fn run(ctx: &Ctx) -> Report {
    let mut rep = Report::new(ctx, "exploration");
    rep.assume("RV (the harness value tree) and Vec are the trusted reference; values are built with Cons::new and the public enum constructors");
    let a = elem_alphabet().len() as u64;
    let nt = tails().len() as u64;
    let maxlen = 4u32;

    if ctx.want("accessors") {
        let nx = count_upto(a, maxlen);
        let total = nx * nt;
        let sub = Sub::new(
            "accessors",
            "every element sequence xs of length 0..=4 over a 13-value alphabet (one per kind, a nested proper and a nested dotted list) x 17 tails (empty list, one atom per kind, empty and non-empty vectors and byte vectors, lists that merge); all construction routes and all ten accessors compared with the Vec model; non-trivial = at least one element or a merging tail",
            &format!("13^<=4 x 17 = {} cases, indices 0..=len+3 (past the end of a 3-element vector tail) and usize::MAX", total),
        );
        let accs = par_ranks(total, |rank, acc| {
            let xr = rank / nt;
            let ti = rank % nt;
            let idx = unrank_xs(xr, a);
            let case = json!({"xs": idx, "t": ti});
            acc.evals += 1;
            if !idx.is_empty() || ti >= 11 {
                acc.nontrivial += 1;
            }
            acc.outcome(&(idx.len(), ti));
            acc.sample(rank, || format!("xs indices {:?}, tail #{}", idx, ti));
            run_case("accessors", &case, rank, acc);
        });
        rep.absorb(sub, accs);
    }
    if ctx.want("long-lists") {
        let lens: Vec<u64> = if ctx.tier.thorough() { vec![5, 6, 7, 10, 100, 1000, 10_000, 100_000] } else { vec![5, 10, 100, 10_000] };
        let sub = Sub::new("long-lists", "rotating-pattern lists of the stated lengths x 17 tails, same oracle", &format!("lengths {:?}", lens));
        let total = lens.len() as u64 * nt;
        let accs = par_ranks(total, |rank, acc| {
            let n = lens[(rank / nt) as usize];
            let ti = rank % nt;
            acc.evals += 1;
            acc.nontrivial += 1;
            acc.outcome(&(n, ti));
            acc.sample(rank, || format!("n={} tail #{}", n, ti));
            run_case("long-lists", &json!({"n": n, "t": ti}), rank, acc);
        });
        rep.absorb(sub, accs);
    }
    if ctx.want("iterator-histories") {
        let depth = if ctx.tier.thorough() { 9 } else { 7 };
        let tls = [RV::Null, RV::sym("t"), RV::Vector(vec![RV::Int(7)])];
        let total = (4 * tls.len() * ITER_KINDS.len()) as u64;
        let sub = Sub::new("iterator-histories", "the five list iterators as state machines (Value::list_iter, Cons::list_iter: is_empty / peek / next; Cons::iter: peek / next; Cons::into_iter: peek / peek_mut + set_car / next; Datum::list_iter: is_empty / peek / next): every sequence of operations of the stated length on a fresh iterator over a list of 0..=3 elements with an empty, a symbol or a vector tail, every answer compared with a pointer-into-a-Vec model (incl. the None-then-tail protocol, answers after exhaustion, mutation through peek_mut visible to next); non-trivial = every execution", &format!("depth {}: 4 lengths x 3 tails x 5 iterators, 3^{} or 2^{} call sequences each", depth, depth, depth));
        let accs = par_ranks(total, |rank, acc| {
            let r = rank as usize;
            let kind = r % ITER_KINDS.len();
            let ti = (r / ITER_KINDS.len()) % tls.len();
            let n = r / ITER_KINDS.len() / tls.len();
            acc.sample(rank, || format!("{} over {} element(s), tail {}", ITER_KINDS[kind], n, tls[ti]));
            let case = json!({"iter_kind": kind, "n": n, "tail": ti, "depth": depth});
            let mut v = V { acc, sub: "iterator-histories", rank, witness: format!("{} over {} element(s), tail {}", ITER_KINDS[kind], n, tls[ti]), case };
            let res = guard(std::panic::AssertUnwindSafe(|| check_iter_histories(&mut v, n, &tls[ti], kind, depth)));
            match res {
                Ok(runs) => {
                    acc.evals += runs;
                    acc.nontrivial += runs;
                    acc.outcome(&(kind, n, ti));
                }
                Err(p) => {
                    let case = json!({"iter_kind": kind, "n": n, "tail": ti, "depth": depth});
                    acc.violation("iterator-histories", "panic", "panic", rank, format!("{} over {} element(s)", ITER_KINDS[kind], n), p, || case);
                }
            }
        });
        rep.absorb(sub, accs);
    }
    if ctx.want("alists") {
        let ne = alist_entries().len() as u64;
        let nat = alist_tails().len() as u64;
        let nx = count_upto(ne, 3);
        let total = nx * nat;
        let sub = Sub::new(
            "alists",
            "every association list of <= 3 entries over 11 entry forms (string/symbol/keyword keys of the same name, number key, list key, other names, non-pair entries) x 5 tails (proper, improper, merging); lookups by &str, String, &String, &&str and by Value; model = cdr of the first pair entry whose key matches; non-trivial = at least one entry",
            &format!("11^<=3 x 5 = {} alists x 11 lookups", total),
        );
        let accs = par_ranks(total, |rank, acc| {
            let idx = unrank_xs(rank / nat, ne);
            let ti = rank % nat;
            acc.evals += 1;
            if !idx.is_empty() {
                acc.nontrivial += 1;
            }
            acc.outcome(&(idx.clone(), ti));
            acc.sample(rank, || format!("entries {:?}, tail #{}", idx, ti));
            run_case("alists", &json!({"entries": idx, "t": ti}), rank, acc);
        });
        rep.absorb(sub, accs);
    }
    if ctx.want("nonlist-targets") {
        let total = (elem_alphabet().len() + tails().len()) as u64;
        let sub = Sub::new("nonlist-targets", "every non-list value of the alphabets x every index type (usize 0, usize::MAX, &str, String, &String, Value, &Value): get is None, [] is nil, no panic", &format!("{} targets x 7 index forms", total));
        let accs = par_ranks(total, |rank, acc| {
            acc.evals += 1;
            acc.nontrivial += 1;
            acc.outcome(&rank);
            acc.sample(rank, || format!("target #{}", rank));
            run_case("nonlist-targets", &json!({"target": rank}), rank, acc);
        });
        rep.absorb(sub, accs);
    }
    rep
}
