//! C09 — `sexp!` builds the value the parser reads from the same S-expression.
//! Exhaustive generation of invocations from an abstract syntax; each one is really compiled
//! (against the tree under test) and run.

use crate::domains::{shapes, Shape};
use crate::report::{Acc, Ctx, Report, Sub};
use serde_json::{json, Value as J};
use std::collections::{BTreeMap, HashMap};
use std::process::Command;

#[derive(Clone, Debug, PartialEq)]
enum Sx {
    Int(i64),
    Float(&'static str),
    Str(&'static str, &'static str), // (rust literal body, scheme literal body)
    Char(&'static str, &'static str), // (rust char literal, scheme char text)
    True,
    False,
    Nil,
    Sym(&'static str),
    QSym(&'static str),
    Punct(&'static str),
    Kw(u8, &'static str), // 0: #:name, 1: :name, 2: #:"name"
    Unq(usize, bool),    // index into UNQ, parenthesised?
    List(Vec<Sx>),
    Dotted(Vec<Sx>, Box<Sx>),
    Vector(Vec<Sx>),
}

/// Unquoted Rust expressions: (name of a variable defined in the generated program, its type)
const UNQ: &[(&str, &str)] = &[
    ("x_u8", "u8"),
    ("x_i8", "i8"),
    ("x_u16", "u16"),
    ("x_i16", "i16"),
    ("x_u32", "u32"),
    ("x_i32", "i32"),
    ("x_u64", "u64"),
    ("x_i64", "i64"),
    ("x_f32", "f32"),
    ("x_f64", "f64"),
    ("x_str", "&str"),
    ("x_string", "String"),
    ("x_char", "char"),
    ("x_bool", "bool"),
    ("x_bytes", "&[u8]"),
    ("x_bytevec", "Vec<u8>"),
    ("x_value", "Value"),
    ("x_list", "Value (a proper list)"),
    ("x_dotted", "Value (a dotted list)"),
    ("x_cons", "Cons"),
    ("x_pair", "(i32, &str)"),
    ("x_vec", "Vec<Value>"),
];

const PRELUDE: &str = r#"
#![allow(unused, clippy::all)]
use lexpr::{sexp, Cons, Value};

pub fn vars() -> (u8, i8, u16, i16, u32, i32, u64, i64, f32, f64, &'static str, String, char, bool, &'static [u8], Vec<u8>, Value, Value, Value, Cons, (i32, &'static str), Vec<Value>) {
    (200, -100, 60000, -30000, 4000000000, -2000000000, u64::MAX, i64::MIN, 0.5, 1e21, "s t", "λ".to_string(), 'λ', true, &[1u8, 255][..], vec![0u8, 7], Value::symbol("v"),
     hand(vec![Value::from(1), Value::symbol("b")], Value::Null), hand(vec![Value::from(1)], Value::symbol("t")), Cons::new(Value::from(1), Value::symbol("d")), (7, "p"), vec![Value::from(1), Value::Nil])
}

/// Cons chain built by hand (never Value::list / append): elements, then a tail that merges if it is a list.
pub fn hand(xs: Vec<Value>, tail: Value) -> Value {
    let mut acc = tail;
    for x in xs.into_iter().rev() {
        acc = Value::Cons(Cons::new(x, acc));
    }
    acc
}
pub fn p(text: &str) -> Value {
    match lexpr::from_str(text) {
        Ok(v) => v,
        Err(e) => Value::string(format!("<<the parser rejects the reference text {:?}: {}>>", text, e)),
    }
}
pub fn chk(id: u32, got: Value, want: Value) {
    if got == want {
        println!("{} ok", id);
    } else {
        println!("{} FAIL macro={} reference={}", id, got, want);
    }
}
"#;

impl Sx {
    fn tokens(&self) -> String {
        match self {
            Sx::Int(i) => i.to_string(),
            Sx::Float(t) => t.to_string(),
            Sx::Str(r, _) => format!("\"{}\"", r),
            Sx::Char(r, _) => r.to_string(),
            Sx::True => "#t".into(),
            Sx::False => "#f".into(),
            Sx::Nil => "#nil".into(),
            Sx::Sym(s) => s.to_string(),
            Sx::QSym(s) => format!("#\"{}\"", s),
            Sx::Punct(s) => s.to_string(),
            Sx::Kw(0, s) => format!("#:{}", s),
            Sx::Kw(1, s) => format!(":{}", s),
            Sx::Kw(2, s) => format!("#:\"{}\"", s),
            Sx::Kw(_, s) => format!(":\"{}\"", s),
            Sx::Unq(i, false) => format!(",{}", UNQ[*i].0),
            Sx::Unq(i, true) => format!(",({}.clone())", UNQ[*i].0),
            Sx::List(xs) => format!("({})", xs.iter().map(|x| x.tokens()).collect::<Vec<_>>().join(" ")),
            Sx::Dotted(xs, t) => format!("({} . {})", xs.iter().map(|x| x.tokens()).collect::<Vec<_>>().join(" "), t.tokens()),
            Sx::Vector(xs) => format!("#({})", xs.iter().map(|x| x.tokens()).collect::<Vec<_>>().join(" ")),
        }
    }
    /// Equivalent text for the default parser (None if the form contains an unquote).
    fn text(&self) -> Option<String> {
        Some(match self {
            Sx::Int(i) => i.to_string(),
            Sx::Float(t) => t.to_string(),
            Sx::Str(_, s) => format!("\"{}\"", s),
            Sx::Char(_, s) => s.to_string(),
            Sx::True => "#t".into(),
            Sx::False => "#f".into(),
            Sx::Nil => "#nil".into(),
            Sx::Sym(s) | Sx::QSym(s) | Sx::Punct(s) => s.to_string(),
            Sx::Kw(_, s) => format!("#:{}", s),
            Sx::Unq(_, _) => return None,
            Sx::List(xs) => format!("({})", xs.iter().map(|x| x.text()).collect::<Option<Vec<_>>>()?.join(" ")),
            Sx::Dotted(xs, t) => format!("({} . {})", xs.iter().map(|x| x.text()).collect::<Option<Vec<_>>>()?.join(" "), t.text()?),
            Sx::Vector(xs) => format!("#({})", xs.iter().map(|x| x.text()).collect::<Option<Vec<_>>>()?.join(" ")),
        })
    }
    /// Rust expression that builds the expected value by hand (used when unquotes are present).
    fn code(&self) -> String {
        match self {
            Sx::Unq(i, _) => format!("Value::from({}.clone())", UNQ[*i].0),
            Sx::List(xs) => format!("hand(vec![{}], Value::Null)", xs.iter().map(|x| x.code()).collect::<Vec<_>>().join(", ")),
            Sx::Dotted(xs, t) => format!("hand(vec![{}], {})", xs.iter().map(|x| x.code()).collect::<Vec<_>>().join(", "), t.code()),
            Sx::Vector(xs) => format!("Value::Vector(vec![{}].into_boxed_slice())", xs.iter().map(|x| x.code()).collect::<Vec<_>>().join(", ")),
            other => format!("p({:?})", other.text().unwrap()),
        }
    }
    fn has_unq(&self) -> bool {
        self.text().is_none()
    }
    /// Forms the Rust tokenizer cannot distinguish from something else (excluded, counted).
    fn ambiguous(&self) -> bool {
        fn seq_amb(xs: &[Sx]) -> bool {
            xs.windows(2).any(|w| match (&w[0], &w[1]) {
                // `- 1` and `-1` are the same token stream
                (Sx::Punct("-"), Sx::Int(_)) | (Sx::Punct("-"), Sx::Float(_)) => true,
                // `: name` / `: "s"` is the keyword spelling
                (Sx::Punct(":"), Sx::Sym(_)) | (Sx::Punct(":"), Sx::Str(_, _)) | (Sx::Punct(":"), Sx::True) | (Sx::Punct(":"), Sx::False) | (Sx::Punct(":"), Sx::Nil) => true,
                _ => false,
            }) || xs.iter().any(|x| x.ambiguous())
        }
        match self {
            Sx::List(xs) | Sx::Vector(xs) => seq_amb(xs),
            Sx::Dotted(xs, t) => {
                let mut v = xs.clone();
                v.push((**t).clone());
                seq_amb(&v) || matches!((xs.last(), &**t), (Some(Sx::Punct("-")), Sx::Int(_)))
            }
            _ => false,
        }
    }
    fn kind(&self) -> &'static str {
        match self {
            Sx::Int(_) => "int",
            Sx::Float(_) => "float",
            Sx::Str(_, _) => "string",
            Sx::Char(_, _) => "char",
            Sx::True | Sx::False | Sx::Nil => "token",
            Sx::Sym(_) => "symbol",
            Sx::QSym(_) => "quoted-symbol",
            Sx::Punct(_) => "punct-symbol",
            Sx::Kw(_, _) => "keyword",
            Sx::Unq(_, _) => "unquote",
            Sx::List(_) => "list",
            Sx::Dotted(_, _) => "dotted",
            Sx::Vector(_) => "vector",
        }
    }
}

fn atoms() -> Vec<Sx> {
    let mut v = vec![
        Sx::Int(0),
        Sx::Int(42),
        Sx::Int(-7),
        Sx::Int(2147483647),
        Sx::Int(-2147483647),
        Sx::Float("1.5"),
        Sx::Float("-2.5"),
        Sx::Float("1.0e3"),
        // sign x exponent sign: the minus of a negative literal is a separate Rust token, the
        // minus of a negative exponent is part of the literal
        Sx::Float("1e-7"),
        Sx::Float("-1e-7"),
        Sx::Float("-2.5e+3"),
        Sx::Float("-1.0e21"),
        Sx::Str("s", "s"),
        Sx::Str("a b\\n\\\"q\\\\", "a b\\n\\\"q\\\\"),
        Sx::Str("λ€", "λ€"),
        Sx::Str("", ""),
        Sx::Char("'c'", "#\\c"),
        Sx::Char("'λ'", "#\\λ"),
        Sx::Char("'('", "#\\("),
        Sx::Char("' '", "#\\space"),
        Sx::Char("'\\n'", "#\\xa"),
        Sx::True,
        Sx::False,
        Sx::Nil,
        Sx::Sym("a"),
        Sx::Sym("foo_bar1"),
        Sx::Sym("λx"),
        // identifiers that are words of other notations: still plain symbols here
        Sx::Sym("true"),
        Sx::Sym("false"),
        Sx::Sym("nil"),
        Sx::Sym("t"),
        Sx::Sym("f"),
        Sx::Sym("null"),
        Sx::Sym("quote"),
        Sx::QSym("kebab-sym"),
        Sx::QSym("a.b"),
        Sx::Kw(0, "k"),
        Sx::Kw(1, "k"),
        Sx::Kw(2, "k-w"),
        Sx::Kw(3, "k-w"),
        // quoted names with multi-byte characters (byte length != character count; seed C09-c)
        Sx::QSym("λ"),
        Sx::QSym("naïve-mode"),
        Sx::QSym("a→😀"),
        Sx::Kw(2, "λ-kw"),
        Sx::Kw(3, "é"),
        Sx::Kw(0, "λ"),
        Sx::Kw(1, "λx"),
    ];
    for p in ["+", "-", "*", "/", "<", "<=", "=>", "->", "==", "...", "..", "!", "?", "@", "^", "~", "&", "%", "$", "::", ":", "=", ">", "!$%&*+-./:<=>?@^~", "<=>", "-+", "&&"] {
        v.push(Sx::Punct(p));
    }
    v
}

fn atoms12() -> Vec<Sx> {
    vec![Sx::Int(1), Sx::Int(-7), Sx::Float("1.5"), Sx::Str("s", "s"), Sx::Char("'c'", "#\\c"), Sx::Nil, Sx::Sym("a"), Sx::Punct("+"), Sx::Punct("-"), Sx::Punct("..."), Sx::Punct("<="), Sx::Kw(1, "k")]
}

fn atoms5() -> Vec<Sx> {
    vec![Sx::Int(1), Sx::Sym("a"), Sx::Punct("-"), Sx::Punct("..."), Sx::Str("s", "s")]
}

fn build_shape(s: &Shape, leaves: &mut dyn Iterator<Item = Sx>) -> Sx {
    match s {
        Shape::Leaf => leaves.next().unwrap(),
        Shape::List(xs) => Sx::List(xs.iter().map(|x| build_shape(x, leaves)).collect()),
        Shape::Vector(xs) => Sx::Vector(xs.iter().map(|x| build_shape(x, leaves)).collect()),
        Shape::Dotted(xs, t) => {
            let v: Vec<Sx> = xs.iter().map(|x| build_shape(x, leaves)).collect();
            Sx::Dotted(v, Box::new(build_shape(t, leaves)))
        }
    }
}

fn programs(thorough: bool) -> (Vec<Sx>, BTreeMap<String, u64>) {
    let mut out: Vec<Sx> = Vec::new();
    let a = atoms();
    out.extend(a.iter().cloned());
    out.push(Sx::List(vec![]));
    out.push(Sx::Vector(vec![]));
    // every ordered pair in (a b), (a . b); #(a b) over the 12-atom subset (thorough: all atoms)
    let a12 = atoms12();
    for x in &a {
        out.push(Sx::List(vec![x.clone()]));
        out.push(Sx::Vector(vec![x.clone()]));
        for y in &a {
            out.push(Sx::List(vec![x.clone(), y.clone()]));
            out.push(Sx::Dotted(vec![x.clone()], Box::new(y.clone())));
            if thorough {
                out.push(Sx::Vector(vec![x.clone(), y.clone()]));
            }
        }
    }
    for x in &a12 {
        for y in &a12 {
            out.push(Sx::Vector(vec![x.clone(), y.clone()]));
        }
    }
    // every triple over 12 atoms in (a b c), (a b . c)
    for x in &a12 {
        for y in &a12 {
            for z in &a12 {
                out.push(Sx::List(vec![x.clone(), y.clone(), z.clone()]));
                out.push(Sx::Dotted(vec![x.clone(), y.clone()], Box::new(z.clone())));
                if thorough {
                    out.push(Sx::Vector(vec![x.clone(), y.clone(), z.clone()]));
                }
            }
        }
    }
    // every shape with 2 leaves over 5 atoms, 3 leaves over 2 atoms (thorough: 5), 4 leaves over 2 atoms
    // (thorough only): dotted tails that are lists / dotted lists / vectors must flatten
    let a5 = atoms5();
    let small = vec![Sx::Sym("a"), Sx::Punct("...")];
    for k in 2..=(if thorough { 4usize } else { 3 }) {
        let leaves: &Vec<Sx> = if k == 2 || (thorough && k == 3) { &a5 } else { &small };
        for s in shapes(k, 2) {
            let n = leaves.len();
            let total = n.pow(k as u32);
            for i in 0..total {
                let mut ls = Vec::new();
                let mut r = i;
                for _ in 0..k {
                    ls.push(leaves[r % n].clone());
                    r /= n;
                }
                out.push(build_shape(&s, &mut ls.into_iter()));
            }
        }
    }
    // every shape with up to 4 (thorough: 5) leaves with pairwise distinct leaves 1, 2, 3, ...: an
    // error in the ORDER in which nested dotted tails are flattened is invisible with equal
    // leaves (seed C09-d3)
    for k in 2..=(if thorough { 5usize } else { 4 }) {
        for s in shapes(k, if thorough && k <= 4 { 3 } else { 2 }) {
            let ls: Vec<Sx> = (1..=k as i64).map(Sx::Int).collect();
            out.push(build_shape(&s, &mut ls.into_iter()));
        }
    }
    // depth-5 spines
    let mut spine = Sx::Sym("x");
    for d in 0..5 {
        spine = match d % 3 {
            0 => Sx::List(vec![Sx::Punct("+"), spine, Sx::Int(d)]),
            1 => Sx::Vector(vec![spine, Sx::Punct("...")]),
            _ => Sx::Dotted(vec![Sx::Kw(1, "k")], Box::new(spine)),
        };
        out.push(spine.clone());
    }
    // unquotes: every From type at every position, incl. dotted tails whose value is itself a list
    for i in 0..UNQ.len() {
        for paren in [false, true] {
            let u = Sx::Unq(i, paren);
            out.push(u.clone());
            out.push(Sx::List(vec![u.clone()]));
            out.push(Sx::List(vec![Sx::Sym("a"), u.clone()]));
            out.push(Sx::List(vec![u.clone(), Sx::Sym("b")]));
            out.push(Sx::List(vec![Sx::Punct("+"), u.clone(), Sx::Int(1)]));
            out.push(Sx::Dotted(vec![Sx::Sym("a")], Box::new(u.clone())));
            out.push(Sx::Dotted(vec![Sx::Sym("a"), Sx::Int(2)], Box::new(u.clone())));
            out.push(Sx::Dotted(vec![u.clone()], Box::new(Sx::Sym("t"))));
            out.push(Sx::Dotted(vec![Sx::Unq(i, true)], Box::new(u.clone())));
            out.push(Sx::Vector(vec![u.clone(), Sx::Sym("b")]));
            out.push(Sx::List(vec![Sx::List(vec![Sx::Sym("k")]), Sx::Dotted(vec![Sx::Sym("answer")], Box::new(u.clone()))]));
            out.push(Sx::Dotted(vec![Sx::Sym("a")], Box::new(Sx::Dotted(vec![Sx::Sym("b")], Box::new(u.clone())))));
            // an unquote directly followed by a group: the group is the next datum, not a call
            // (seed C09-g2)
            out.push(Sx::List(vec![u.clone(), Sx::List(vec![Sx::Int(1), Sx::Int(2)])]));
            out.push(Sx::List(vec![Sx::Sym("a"), u.clone(), Sx::List(vec![]), Sx::Sym("b")]));
            if i < 3 || i + 3 >= UNQ.len() {
                out.push(Sx::Vector(vec![u.clone(), Sx::Dotted(vec![Sx::Sym("x")], Box::new(Sx::Sym("y")))]));
                out.push(Sx::List(vec![u.clone(), Sx::Vector(vec![Sx::Sym("x")])]));
                out.push(Sx::List(vec![u.clone(), Sx::Str("s", "s")]));
                out.push(Sx::List(vec![u.clone(), Sx::Kw(0, "k")]));
                out.push(Sx::List(vec![u.clone(), Sx::Punct("+"), Sx::Int(1)]));
                out.push(Sx::List(vec![u.clone(), Sx::Punct("<="), Sx::Punct("...")]));
                out.push(Sx::List(vec![Sx::Unq(i, true), Sx::Unq(i, true), Sx::List(vec![Sx::Unq(i, true)])]));
                out.push(Sx::Dotted(vec![u.clone()], Box::new(Sx::List(vec![Sx::Int(1), Sx::Int(2)]))));
                out.push(Sx::List(vec![u.clone(), Sx::True, Sx::Nil, Sx::Char("'c'", "#\\c")]));
            }
        }
    }
    // exclusions
    let mut excluded: BTreeMap<String, u64> = BTreeMap::new();
    let mut kept = Vec::new();
    for p in out {
        if p.ambiguous() {
            *excluded.entry("adjacent tokens the Rust tokenizer cannot distinguish ('-' before a number, ':' before a name)".into()).or_insert(0) += 1;
        } else {
            kept.push(p);
        }
    }
    // dedup by token text
    let mut seen = std::collections::HashSet::new();
    kept.retain(|p| seen.insert(p.tokens()));
    (kept, excluded)
}

fn write_crate(dir: &str, repo: &str, progs: &[Sx], skip: &std::collections::HashSet<usize>) -> Vec<(String, Vec<usize>)> {
    let _ = std::fs::create_dir_all(format!("{}/src", dir));
    let manifest = format!(
        "[package]\nname = \"c09gen\"\nversion = \"0.0.0\"\nedition = \"2021\"\n\n[dependencies]\nlexpr = {{ path = \"{}/lexpr\", features = [\"sexp-macro\"] }}\n\n[profile.dev]\ndebug = false\nopt-level = 0\nincremental = false\n\n[workspace]\n",
        repo
    );
    let mpath = format!("{}/Cargo.toml", dir);
    if std::fs::read_to_string(&mpath).ok().as_deref() != Some(manifest.as_str()) {
        std::fs::write(&mpath, manifest).expect("write manifest");
    }
    let per = 1500;
    let mut files: Vec<(String, Vec<usize>)> = Vec::new();
    let mut main = String::from(PRELUDE);
    for (fi, chunk) in progs.chunks(per).enumerate() {
        let name = format!("c{}", fi);
        // one function per invocation: rustc then reports the errors of all of them in one build
        let mut src = String::from("use crate::*;\n");
        let mut ids = vec![usize::MAX; 2]; // line number -> case id (lines are 1-based)
        let mut calls = String::new();
        for (j, p) in chunk.iter().enumerate() {
            let id = fi * per + j;
            if skip.contains(&id) {
                src.push_str("// (removed: does not compile)\n");
            } else if p.has_unq() {
                // unquoted expressions are moved into the macro: fresh variables per case, expectation first
                src.push_str(&format!("#[rustfmt::skip] fn k{}() {{ let (x_u8, x_i8, x_u16, x_i16, x_u32, x_i32, x_u64, x_i64, x_f32, x_f64, x_str, x_string, x_char, x_bool, x_bytes, x_bytevec, x_value, x_list, x_dotted, x_cons, x_pair, x_vec) = vars(); let want = {}; chk({}, sexp!({}), want); }}\n", id, p.code(), id, p.tokens()));
                calls.push_str(&format!("    k{}();\n", id));
            } else {
                src.push_str(&format!("#[rustfmt::skip] fn k{}() {{ chk({}, sexp!({}), p({:?})); }}\n", id, id, p.tokens(), p.text().unwrap()));
                calls.push_str(&format!("    k{}();\n", id));
            }
            ids.push(id);
        }
        src.push_str("pub fn run() {\n");
        src.push_str(&calls);
        src.push_str("}\n");
        let path = format!("{}/src/{}.rs", dir, name);
        if std::fs::read_to_string(&path).ok().as_deref() != Some(src.as_str()) {
            std::fs::write(&path, src).expect("write cases");
        }
        main.push_str(&format!("mod {};\n", name));
        files.push((name, ids));
    }
    main.push_str("fn main() {\n");
    for (name, _) in &files {
        main.push_str(&format!("    {}::run();\n", name));
    }
    main.push_str("}\n");
    let path = format!("{}/src/main.rs", dir);
    if std::fs::read_to_string(&path).ok().as_deref() != Some(main.as_str()) {
        std::fs::write(&path, main).expect("write main");
    }
    files
}

/// cargo build; returns (success, per-case compile errors)
fn build(dir: &str, lock_from: &str, files: &[(String, Vec<usize>)]) -> (bool, HashMap<usize, String>) {
    let _ = std::fs::copy(lock_from, format!("{}/Cargo.lock", dir));
    let out = Command::new("timeout")
        .args(["900", "cargo", "build", "--offline", "--message-format=short", "--manifest-path", &format!("{}/Cargo.toml", dir), "--target-dir", &format!("{}/target", dir)])
        .env("CARGO_NET_OFFLINE", "true")
        .output()
        .unwrap_or_else(|e| {
            eprintln!("MACHINERY: cannot run cargo: {}", e);
            std::process::exit(2)
        });
    let stderr = String::from_utf8_lossy(&out.stderr).to_string();
    let mut errs: HashMap<usize, String> = HashMap::new();
    for line in stderr.lines() {
        // src/c0.rs:123:45: error: message   (or error[E0600]: …)
        if !line.contains(": error") {
            continue;
        }
        let mut it = line.splitn(4, ':');
        let (file, ln) = (it.next().unwrap_or(""), it.next().unwrap_or(""));
        let rest = line.splitn(4, ':').nth(3).unwrap_or("").trim().to_string();
        let fname = file.rsplit('/').next().unwrap_or("").trim_end_matches(".rs");
        if let (Some((_, ids)), Ok(l)) = (files.iter().find(|(n, _)| n == fname), ln.trim().parse::<usize>()) {
            if let Some(&id) = ids.get(l) {
                if id != usize::MAX {
                    errs.entry(id).or_insert(rest);
                }
            }
        }
    }
    if !out.status.success() && errs.is_empty() {
        eprintln!("MACHINERY: the generated crate does not build and no error could be attributed to a case:\n{}", crate::util::trunc(&stderr, 3000));
        std::process::exit(2);
    }
    (out.status.success(), errs)
}

pub fn replay(_sub: &str, case: &J, acc: &mut Acc) {
    // a recorded invocation is re-generated, compiled on its own and run
    let want = case["tokens"].as_str().unwrap_or("");
    let (progs, _) = programs(true);
    let p = match progs.iter().find(|p| p.tokens() == want) {
        Some(p) => p.clone(),
        None => {
            eprintln!("replay: invocation not in the generated set any more");
            return;
        }
    };
    let repo = std::env::var("VERIF_REPO").unwrap_or_else(|_| "/repo".into());
    let dir = format!("{}/c09replay", std::env::var("MC_TGT").unwrap_or_else(|_| "/verif/target".into()));
    run_programs(acc, &[p], &dir, &repo);
}

fn class_of(p: &Sx) -> String {
    fn walk(p: &Sx, dots: &mut bool, minus: &mut bool, unq: &mut bool, kw: &mut bool) {
        match p {
            Sx::List(xs) | Sx::Vector(xs) => xs.iter().for_each(|x| walk(x, dots, minus, unq, kw)),
            Sx::Dotted(xs, t) => {
                xs.iter().for_each(|x| walk(x, dots, minus, unq, kw));
                walk(t, dots, minus, unq, kw)
            }
            Sx::Punct("...") | Sx::Punct("..") => *dots = true,
            Sx::Punct("-") => *minus = true,
            Sx::Unq(_, _) => *unq = true,
            Sx::Kw(_, _) => *kw = true,
            _ => {}
        }
    }
    let (mut d, mut m, mut u, mut k) = (false, false, false, false);
    walk(p, &mut d, &mut m, &mut u, &mut k);
    format!("{}{}{}{}{}", p.kind(), if d { "+dot-symbol" } else { "" }, if m { "+minus-symbol" } else { "" }, if u { "+unquote" } else { "" }, if k { "+keyword" } else { "" })
}

fn run_programs(acc: &mut Acc, progs: &[Sx], dir: &str, repo: &str) {
    let lock = format!("{}/harness/Cargo.lock", std::env::var("VERIF_DIR").unwrap_or_else(|_| "/verif".into()));
    let mut skip = std::collections::HashSet::new();
    let files = write_crate(dir, repo, progs, &skip);
    let (ok, errs) = build(dir, &lock, &files);
    let mut compile_errs = errs;
    if !ok {
        // drop the invocations that do not compile and build again (twice at most)
        // rustc reports errors phase by phase (macro expansion, then types), so this can take a few rounds
        for _ in 0..8 {
            skip.extend(compile_errs.keys().copied());
            let files = write_crate(dir, repo, progs, &skip);
            let (ok2, more) = build(dir, &lock, &files);
            for (k, v) in more {
                compile_errs.entry(k).or_insert(v);
            }
            if ok2 {
                break;
            }
        }
    }
    for (id, msg) in &compile_errs {
        let p = &progs[*id];
        acc.evals += 1;
        acc.nontrivial += 1;
        let toks = p.tokens();
        acc.violation("programs", "documented-syntax-does-not-compile", &format!("does-not-compile:{}", class_of(p)), *id as u64, format!("sexp!({})", toks), format!("rustc: {}", msg), || json!({"tokens": toks}));
    }
    // run
    let bin = format!("{}/target/debug/c09gen", dir);
    let out = Command::new(&bin).output().unwrap_or_else(|e| {
        eprintln!("MACHINERY: cannot run the generated program {}: {}", bin, e);
        std::process::exit(2)
    });
    if !out.status.success() {
        eprintln!("MACHINERY: the generated program failed: {}", crate::util::trunc(&String::from_utf8_lossy(&out.stderr), 2000));
        std::process::exit(2);
    }
    let stdout = String::from_utf8_lossy(&out.stdout);
    let mut seen = 0usize;
    for line in stdout.lines() {
        let mut it = line.splitn(3, ' ');
        let id: usize = match it.next().and_then(|x| x.parse().ok()) {
            Some(i) => i,
            None => continue,
        };
        let verdict = it.next().unwrap_or("");
        let rest = it.next().unwrap_or("");
        seen += 1;
        acc.evals += 1;
        let p = &progs[id];
        if !matches!(p, Sx::List(_) | Sx::Dotted(_, _) | Sx::Vector(_)) || true {
            acc.nontrivial += 1;
        }
        acc.outcome(&class_of(p));
        if id < 3 || id % (progs.len() / 10).max(1) == 0 {
            acc.samples.push((id as u64, format!("sexp!({})", p.tokens())));
        }
        if verdict != "ok" {
            let toks = p.tokens();
            let kind = if rest.contains("<<the parser rejects") { "reference-text-rejected" } else { "macro-differs-from-parser" };
            acc.violation("programs", kind, &format!("{}:{}", kind, class_of(p)), id as u64, format!("sexp!({})  vs text {:?}", toks, p.text().unwrap_or_else(|| "(unquote: hand-built expectation)".into())), rest.to_string(), || json!({"tokens": toks}));
        }
    }
    if seen + compile_errs.len() != progs.len() {
        eprintln!("MACHINERY: {} of {} generated invocations reported back", seen + compile_errs.len(), progs.len());
        std::process::exit(2);
    }
}

pub fn run(ctx: &Ctx) -> Report {
    let mut rep = Report::new(ctx, "exploration");
    rep.assume("each enumerated program is really compiled with rustc against the tree under test; documented syntax that does not compile is a violation; the reference value is lexpr::from_str of the equivalent text, or — for unquotes — a cons chain built by hand around Value::from(expr)");
    let thorough = ctx.tier.thorough();
    let (progs, excluded) = programs(thorough);
    for (k, v) in &excluded {
        rep.note(format!("excluded from generation: {} x {}", v, k));
    }
    let sub = Sub::new(
        "programs",
        "every atom of the documented syntax (integers within i32 with and without '-', floats, strings incl. escapes and non-ASCII, Rust char literals, #t #f #nil, identifier symbols, #\"…\" symbols, 28 punctuation-only symbols incl. ... .. :: and the full !$%&*+-./:<=>?@^~, the three keyword spellings) alone; every ordered pair of atoms in (a b), (a . b), #(a b); every triple over 12 atoms in (a b c), (a b . c); every shape with 2..=4 leaves over 5 atoms (tails that are lists, dotted lists, vectors: must flatten); depth-5 spines; every From type unquoted as ,x and ,(expr) at every position incl. dotted tails whose value is itself a list; non-trivial = every program",
        &format!("{} distinct invocations, each compiled and run", progs.len()),
    );
    let tgt = std::env::var("MC_TGT").unwrap_or_else(|_| format!("{}/target", ctx.verif_dir));
    let dir = format!("{}/c09gen-{}", tgt, ctx.tier.name());
    let mut acc = Acc::new();
    run_programs(&mut acc, &progs, &dir, &ctx.repo);
    let mut sub = sub;
    for (k, v) in excluded {
        sub.counters.insert(format!("excluded: {}", k), v);
    }
    rep.absorb(sub, vec![acc]);
    rep
}
