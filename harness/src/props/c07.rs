//! C07 — every sink receives exactly the printed text; write errors surface.
//! E2 (choice-tree exploration of sink answers) + uniform short-write sinks + a fault at every
//! output offset, over enumerated values and printer option sets.

use crate::domains::{a12, actx, shapes, str_domain, PR, N_PR};
use crate::engine::choice::{explore, CtlWriter, UniformWriter};
use crate::par::par_ranks;
use crate::report::{Acc, Ctx, Report, Sub};
use crate::rv::{show_bytes, RV};
use crate::util::{guard, trunc};
use lexpr::print::{DefaultFormatter, Printer};
use lexpr::Value;
use serde_json::{json, Value as J};
use std::fmt::Write as FmtWrite;
use std::io;

/// Entry points that print into an io::Write.
const ENTRY_DEFAULT: &[&str] = &["to_writer", "Printer::new", "Printer::with_formatter(DefaultFormatter)"];
const ENTRY_CUSTOM: &[&str] = &["to_writer_custom", "Printer::with_options"];

fn print_into<W: io::Write>(entry: &str, w: W, v: &Value, opts: Option<&PR>) -> io::Result<()> {
    match entry {
        "to_writer" => lexpr::to_writer(w, v),
        "Printer::new" => Printer::new(w).print(v),
        "Printer::with_formatter(DefaultFormatter)" => Printer::with_formatter(w, DefaultFormatter).print(v),
        "to_writer_custom" => lexpr::print::to_writer_custom(w, v, opts.unwrap().to_lexpr()),
        "Printer::with_options" => Printer::with_options(w, opts.unwrap().to_lexpr()).print(v),
        _ => unreachable!(),
    }
}

fn expected_text(v: &Value, opts: Option<&PR>) -> Result<Vec<u8>, String> {
    guard(|| match opts {
        None => lexpr::to_string(v).map(|s| s.into_bytes()),
        Some(o) => lexpr::print::to_string_custom(v, o.to_lexpr()).map(|s| s.into_bytes()),
    })
    .and_then(|r| r.map_err(|e| format!("to_string failed: {}", e)))
}

/// The oracle of the statement.
fn judge(t: &[u8], data: &[u8], refused: bool, ok: bool) -> Option<(&'static str, String)> {
    if !t.starts_with(data) {
        return Some(("sink-not-a-prefix", format!("sink holds {:?}, which is not a prefix of {:?}", show_bytes(data), show_bytes(t))));
    }
    if ok && data != t {
        return Some(("ok-but-truncated", format!("print returned Ok but the sink holds {:?} instead of {:?}", show_bytes(data), show_bytes(t))));
    }
    if refused && ok {
        return Some(("error-swallowed", "the sink refused a write (error or zero bytes accepted) but print returned Ok".to_string()));
    }
    None
}

fn values(ctx: &Ctx) -> Vec<RV> {
    let mut v = actx();
    // integers of every digit count 1..=20, both signs
    let mut p: i128 = 1;
    for d in 1..=20 {
        let x = if d == 20 { u64::MAX as i128 } else { p * 10 - 1 };
        v.push(RV::Int(x));
        v.push(RV::Int(p));
        if d <= 19 {
            let nx = if d == 19 { i64::MIN as i128 } else { -(p * 10 - 1) };
            v.push(RV::Int(nx));
            v.push(RV::Int(-p));
        }
        p *= 10;
    }
    // byte vectors of length 0..=3 (thorough 4) over {0, 9, 10, 99, 100, 255}
    let oct = [0u8, 9, 10, 99, 100, 255];
    let maxlen = if ctx.tier.thorough() { 4 } else { 3 };
    let n = crate::par::count_upto(6, maxlen);
    for mut rank in 0..n {
        let mut len = 0;
        let mut pw = 1u64;
        while rank >= pw {
            rank -= pw;
            pw *= 6;
            len += 1;
        }
        let mut b = vec![0u8; len];
        for i in (0..len).rev() {
            b[i] = oct[(rank % 6) as usize];
            rank /= 6;
        }
        v.push(RV::Bytes(b));
    }
    for s in str_domain(2) {
        v.push(RV::Str(s));
    }
    let atoms = a12();
    for s in shapes(2, 2) {
        for a in &atoms {
            for b in &atoms {
                v.push(s.build(&mut vec![a.clone(), b.clone()].into_iter()));
            }
        }
    }
    v
}

/// Values whose printed form is long enough for any batching or buffering a formatter may do
/// (seed C07-g1: byte vectors of more than 64 octets written in batches by one formatter only).
fn long_c07() -> Vec<RV> {
    let mut v = Vec::new();
    for n in [15usize, 16, 17, 31, 32, 33, 63, 64, 65, 66, 127, 128, 129, 130, 255, 256, 257] {
        v.push(RV::Bytes((0..n).map(|i| (i * 37 + n) as u8).collect()));
    }
    for n in [64usize, 65, 129, 257] {
        v.push(RV::Str("aλ\"\n€".repeat(n / 5 + 1)));
        v.push(RV::sym(&"s-y".repeat(n / 3 + 1)));
        v.push(RV::list((0..n as i128).map(|i| RV::Int(i * 1000003 - 500)).collect()));
        v.push(RV::Vector((0..n).map(|i| if i % 3 == 0 { RV::Char('λ') } else { RV::Float(i as f64 + 0.5) }).collect()));
        v.push(RV::append((0..n).map(|i| RV::kw(&format!("k{}", i))).collect(), RV::sym("tail")));
    }
    v
}

fn pr_corner() -> Vec<PR> {
    let d = PR::default_();
    let mut v = vec![d, PR::elisp()];
    for i in 0..N_PR {
        let p = PR::from_index(i);
        let diff = (p.kw != d.kw) as u8 + (p.nil != d.nil) as u8 + (p.bool_ != d.bool_) as u8 + (p.vector != d.vector) as u8 + (p.bytes != d.bytes) as u8 + (p.string != d.string) as u8 + (p.chr != d.chr) as u8;
        if diff == 1 {
            v.push(p);
        }
    }
    v.dedup();
    v
}

struct Case<'a> {
    m: &'a RV,
    entry: &'static str,
    opts: Option<PR>,
}

impl<'a> Case<'a> {
    fn witness(&self) -> String {
        format!("entry={} opts=[{}] value={}", self.entry, self.opts.map(|o| o.describe()).unwrap_or_else(|| "default".into()), self.m)
    }
    fn json(&self, extra: J) -> J {
        json!({"value": self.m.to_string(), "entry": self.entry, "opts": self.opts.map(|o| o.index()), "schedule": extra})
    }
}

/// Uniform sinks: at most k bytes per call (k = 1, 2, 3), and a fault (error / zero) at every
/// output offset with k = 1 and k = unbounded.
fn run_uniform(acc: &mut Acc, rank: u64, c: &Case, only: Option<&J>) {
    let v = c.m.to_value();
    let t = match expected_text(&v, c.opts.as_ref()) {
        Ok(t) => t,
        Err(e) => {
            acc.violation("uniform-sinks", "reference-print-failed", "reference", rank, c.witness(), e, || c.json(json!(null)));
            return;
        }
    };
    let mut scheds: Vec<(usize, Option<usize>, bool)> = Vec::new();
    for k in [1usize, 2, 3, usize::MAX] {
        scheds.push((k, None, false));
    }
    for off in 0..=t.len() {
        for k in [1usize, usize::MAX] {
            scheds.push((k, Some(off), false));
            scheds.push((k, Some(off), true));
        }
    }
    for (k, fail_at, zero) in scheds {
        let sj = json!({"k": if k == usize::MAX { 0 } else { k }, "fail_at": fail_at, "zero": zero});
        if let Some(o) = only {
            if *o != sj {
                continue;
            }
        }
        let mut w = UniformWriter { k, fail_at, fail_zero: zero, data: Vec::new(), refused: false };
        let r = guard(|| print_into(c.entry, &mut w, &v, c.opts.as_ref()));
        acc.evals += 1;
        acc.outcome(&(w.data.len() == t.len(), w.refused, r.as_ref().map(|x| x.is_ok()).unwrap_or(false)));
        if fail_at.is_some() || k != usize::MAX {
            acc.nontrivial += 1;
        }
        match r {
            Err(p) => acc.violation("uniform-sinks", "panic", "panic", rank, c.witness(), p, || c.json(sj.clone())),
            Ok(res) => {
                if let Some((kind, detail)) = judge(&t, &w.data, w.refused, res.is_ok()) {
                    let cls = format!("{}:{}", kind, c.entry);
                    acc.violation("uniform-sinks", kind, &cls, rank, format!("{} sink=[k={} fail_at={:?} zero={}]", c.witness(), k as isize, fail_at, zero), detail, || c.json(sj.clone()));
                }
                // a sink that never refused and accepts k >= 1 bytes per call must be served completely
                if !w.refused && res.is_err() {
                    acc.violation("uniform-sinks", "spurious-error", "spurious-error", rank, c.witness(), format!("print failed on a sink that never refused: {:?}", res.err()), || c.json(sj.clone()));
                }
            }
        }
    }
}

/// E2: all schedules with <= bound deviations from accept-all.
fn run_dfs(acc: &mut Acc, rank: u64, c: &Case, bound: usize, only: Option<Vec<u8>>) {
    let v = c.m.to_value();
    let t = match expected_text(&v, c.opts.as_ref()) {
        Ok(t) => t,
        Err(_) => return,
    };
    let mut first = true;
    let mut body = |ex: &crate::engine::choice::Shared| {
        let mut w = CtlWriter::new(ex);
        let r = guard(|| print_into(c.entry, &mut w, &v, c.opts.as_ref()));
        let sched = ex.borrow().choices.clone();
        acc.evals += 1;
        acc.transitions += sched.len() as u64;
        acc.states += 1;
        if sched.iter().any(|c| *c != 0) {
            acc.nontrivial += 1;
        }
        acc.outcome(&(w.data.len() == t.len(), w.refused, r.as_ref().map(|x| x.is_ok()).unwrap_or(false)));
        match r {
            Err(p) => acc.violation("schedules", "panic", "panic", rank, c.witness(), p, || c.json(json!(sched))),
            Ok(res) => {
                if let Some((kind, detail)) = judge(&t, &w.data, w.refused, res.is_ok()) {
                    let cls = format!("{}:{}", kind, c.entry);
                    acc.violation("schedules", kind, &cls, rank, format!("{} schedule={:?}", c.witness(), sched), detail, || c.json(json!(sched)));
                }
                if !w.refused && res.is_err() {
                    acc.violation("schedules", "spurious-error", "spurious-error", rank, format!("{} schedule={:?}", c.witness(), sched), "print failed on a sink that never refused".into(), || c.json(json!(sched)));
                }
            }
        }
        // determinism: the first schedule of every case is replayed and must give identical observations
        if first {
            first = false;
            let ex2: crate::engine::choice::Shared = std::rc::Rc::new(std::cell::RefCell::new(crate::engine::choice::Explorer::with_prefix(sched.clone(), ex.borrow().menus.clone())));
            let mut w2 = CtlWriter::new(&ex2);
            let _ = guard(|| print_into(c.entry, &mut w2, &v, c.opts.as_ref()));
            if w2.data != w.data || ex2.borrow().choices != sched {
                eprintln!("MACHINERY: replaying a schedule gave different observations (uncontrolled nondeterminism)");
                std::process::exit(2);
            }
        }
    };
    match only {
        Some(prefix) => {
            // replay exactly one schedule (menus are re-derived; an out-of-range choice is a hard error)
            let ex: crate::engine::choice::Shared = std::rc::Rc::new(std::cell::RefCell::new(crate::engine::choice::Explorer::with_prefix(prefix, Vec::new())));
            body(&ex);
        }
        None => {
            let st = explore(bound, 200_000, &mut body);
            if st.capped {
                acc.count("schedule-cap-hit");
            }
        }
    }
}

struct FmtSink {
    data: String,
    fail_after_calls: Option<usize>,
    calls: usize,
    refused: bool,
}
impl std::fmt::Write for FmtSink {
    fn write_str(&mut self, s: &str) -> std::fmt::Result {
        if let Some(n) = self.fail_after_calls {
            if self.calls >= n {
                self.refused = true;
                return Err(std::fmt::Error);
            }
        }
        self.calls += 1;
        self.data.push_str(s);
        Ok(())
    }
}

/// Display: `write!` into a fmt sink that fails at the n-th write_str call, for every n.
fn run_display(acc: &mut Acc, rank: u64, m: &RV) {
    let v = m.to_value();
    let c = Case { m, entry: "Display", opts: None };
    let t = match expected_text(&v, None) {
        Ok(t) => t,
        Err(_) => return,
    };
    let mut probe = FmtSink { data: String::new(), fail_after_calls: None, calls: 0, refused: false };
    let r = guard(|| write!(probe, "{}", v));
    acc.evals += 1;
    match r {
        Err(p) => {
            acc.violation("display", "panic", "panic", rank, c.witness(), p, || c.json(json!(null)));
            return;
        }
        Ok(res) => {
            if res.is_err() || probe.data.as_bytes() != &t[..] {
                acc.violation("display", "display-differs", "display-differs", rank, c.witness(), format!("Display produced {:?}, to_string {:?}", probe.data, show_bytes(&t)), || c.json(json!(null)));
                return;
            }
        }
    }
    let to_string_fmt = guard(|| format!("{}", v));
    if to_string_fmt.as_ref().map(|s| s.as_bytes() == &t[..]).unwrap_or(false) == false {
        acc.violation("display", "format-differs", "format-differs", rank, c.witness(), "format!(\"{}\") differs from to_string".into(), || c.json(json!(null)));
    }
    let ncalls = probe.calls;
    for n in 0..ncalls {
        let mut s = FmtSink { data: String::new(), fail_after_calls: Some(n), calls: 0, refused: false };
        let r = guard(|| write!(s, "{}", v));
        acc.evals += 1;
        acc.nontrivial += 1;
        acc.outcome(&(n == 0, r.as_ref().map(|x| x.is_ok()).unwrap_or(false)));
        match r {
            Err(p) => acc.violation("display", "panic", "panic", rank, c.witness(), p, || c.json(json!(n))),
            Ok(res) => {
                if let Some((kind, detail)) = judge(&t, s.data.as_bytes(), s.refused, res.is_ok()) {
                    acc.violation("display", kind, kind, rank, format!("{} fail_at_call={}", c.witness(), n), detail, || c.json(json!(n)));
                }
            }
        }
    }
}

fn find_value(vals: &[RV], want: &str) -> Option<RV> {
    vals.iter().find(|m| m.to_string() == want).cloned()
}

pub fn replay(sub: &str, case: &J, acc: &mut Acc) {
    let ctx_vals = {
        // thorough domain is a superset
        let fake = Ctx { prop: "C07".into(), tier: crate::report::Tier::Thorough, seed: 0, verif_dir: String::new(), repo: String::new(), hooks: false, nofast_bin: None, only: None, threads: 1 };
        let mut v = values(&fake);
        v.extend(formatter_values());
        v.extend(long_c07());
        v.extend(crate::props::c01::long_values());
        v
    };
    let m = match find_value(&ctx_vals, case["value"].as_str().unwrap_or("")) {
        Some(m) => m,
        None => {
            eprintln!("replay: value not in the domain any more");
            return;
        }
    };
    let entry: &'static str = match case["entry"].as_str().unwrap_or("") {
        "to_writer" => "to_writer",
        "Printer::new" => "Printer::new",
        "Printer::with_formatter(DefaultFormatter)" => "Printer::with_formatter(DefaultFormatter)",
        "to_writer_custom" => "to_writer_custom",
        "Printer::with_options" => "Printer::with_options",
        _ => "Display",
    };
    let opts = case["opts"].as_u64().map(PR::from_index);
    let c = Case { m: &m, entry, opts };
    match sub {
        "uniform-sinks" => run_uniform(acc, 0, &c, Some(&case["schedule"])),
        "schedules" => {
            let sched: Vec<u8> = case["schedule"].as_array().map(|a| a.iter().map(|x| x.as_u64().unwrap_or(0) as u8).collect()).unwrap_or_default();
            run_dfs(acc, 0, &c, 3, Some(sched));
        }
        "display" => run_display(acc, 0, &m),
        "formatter-agreement" => run_formatter_agreement(acc, 0, &m),
        "passthrough" => {
            check_passthrough(acc, 0, &m, false);
            check_passthrough(acc, 0, &m, true);
        }
        _ => {}
    }
}

/// One printer object used again after a print that failed: the second print delivers exactly
/// its own text after whatever prefix of the first text the sink had accepted (seed C07-f1: a
/// formatter that keeps a half-written token in a buffer of its own).
fn check_printer_reuse(acc: &mut Acc, rank: u64, m1: &RV, m2: &RV, p: &PR) {
    struct FailOnce {
        data: Vec<u8>,
        fail_at: usize,
        fired: bool,
        k: usize,
    }
    impl std::io::Write for FailOnce {
        fn write(&mut self, buf: &[u8]) -> std::io::Result<usize> {
            if buf.is_empty() {
                return Ok(0);
            }
            if !self.fired && self.data.len() >= self.fail_at {
                self.fired = true;
                return Err(std::io::Error::new(crate::engine::choice::sink_fault_kind(self.data.len()), "injected write error"));
            }
            let mut n = buf.len().min(self.k);
            if !self.fired {
                n = n.min(self.fail_at - self.data.len());
            }
            self.data.extend_from_slice(&buf[..n]);
            Ok(n)
        }
        fn flush(&mut self) -> std::io::Result<()> {
            Ok(())
        }
    }
    let (v1, v2) = (m1.to_value(), m2.to_value());
    let o = p.to_lexpr();
    let (t1, t2) = match (lexpr::print::to_string_custom(&v1, o), lexpr::print::to_string_custom(&v2, o)) {
        (Ok(a), Ok(b)) => (a, b),
        _ => return,
    };
    for fail_at in 0..t1.len() {
        for k in [1usize, 64] {
            acc.evals += 1;
            let mut sink = FailOnce { data: Vec::new(), fail_at, fired: false, k };
            let res = guard(std::panic::AssertUnwindSafe(|| {
                let mut pr = Printer::with_options(&mut sink, o);
                let r1 = pr.print(&v1).is_ok();
                let r2 = pr.print(&v2).is_ok();
                (r1, r2)
            }));
            let w = || format!("first={} second={} opts=[{}] fail_at={} k={}", trunc(&m1.to_string(), 60), trunc(&m2.to_string(), 60), p.describe(), fail_at, k);
            let case = || json!({"reuse": [m1.to_string(), m2.to_string()], "opts": p.index()});
            match res {
                Err(pn) => acc.violation("printer-reuse", "panic", "panic", rank, w(), pn, case),
                Ok((r1, r2)) => {
                    acc.nontrivial += 1;
                    acc.outcome(&(r1, r2));
                    let mut want: Vec<u8> = t1.as_bytes()[..fail_at].to_vec();
                    want.extend_from_slice(t2.as_bytes());
                    if r1 {
                        acc.violation("printer-reuse", "error-not-reported", "error-not-reported", rank, w(), "the first print hit the injected error but returned Ok".into(), case);
                    } else if !r2 || sink.data != want {
                        acc.violation("printer-reuse", "second-print-differs", "second-print-differs", rank, w(), format!("after the failed print the sink holds {:?}; the second print returned {} and the sink then holds {:?}, expected {:?}", show_bytes(&t1.as_bytes()[..fail_at]), if r2 { "Ok" } else { "Err" }, show_bytes(&sink.data), show_bytes(&want)), case);
                    }
                }
            }
        }
    }
}

fn check_passthrough(acc: &mut Acc, rank: u64, m: &RV, custom: bool) {
    use std::io::Write;
    let v = m.to_value();
    let t = match lexpr::to_string(&v) {
        Ok(t) => t,
        Err(_) => return,
    };
    for k in [1usize, 3, usize::MAX] {
        acc.evals += 1;
        acc.nontrivial += 1;
        let r = guard(|| {
            let sink = UniformWriter { k, fail_at: None, fail_zero: false, data: Vec::new(), refused: false };
            fn drive<W: std::io::Write, F: lexpr::print::Formatter>(mut pr: Printer<W, F>, v: &Value) -> (std::io::Result<()>, std::io::Result<usize>, W) {
                let r = (|| {
                    pr.write_all(b"; raw \xce\xbb\n")?;
                    pr.print(v)?;
                    Ok(())
                })();
                let n = pr.write(b" raw2 ");
                let r = r.and_then(|_| pr.flush()).and_then(|_| pr.print(v));
                (r, n, pr.into_inner())
            }
            if custom {
                drive(Printer::with_options(sink, lexpr::print::Options::default()), &v)
            } else {
                drive(Printer::new(sink), &v)
            }
        });
        let case = || json!({"value": m.to_string(), "entry": "passthrough", "opts": null, "schedule": null});
        match r {
            Err(p) => acc.violation("passthrough", "panic", "panic", rank, format!("value={}", m), p, case),
            Ok((res, n, sink)) => {
                let acc2 = 6usize.min(k);
                let mut want = b"; raw \xce\xbb\n".to_vec();
                want.extend_from_slice(t.as_bytes());
                want.extend_from_slice(&b" raw2 "[..acc2]);
                want.extend_from_slice(t.as_bytes());
                acc.outcome(&(k.min(4), res.is_ok()));
                if res.is_err() || n.as_ref().ok() != Some(&acc2) || sink.data != want {
                    acc.violation("passthrough", "passthrough-differs", "passthrough-differs", rank, format!("value={} custom={} k={}", trunc(&m.to_string(), 120), custom, k as isize), format!("result {:?}, raw write returned {:?} (sink accepts {}), sink holds {:?}, expected {:?}", res.map_err(|e| e.to_string()), n.map_err(|e| e.to_string()), acc2, trunc(&show_bytes(&sink.data), 200), trunc(&show_bytes(&want), 200)), case);
                }
            }
        }
    }
}

fn formatter_values() -> Vec<RV> {
    let mut v = actx();
    let ax = actx();
    for s in shapes(2, 2) {
        for a in &ax {
            for b in &ax {
                v.push(s.build(&mut vec![a.clone(), b.clone()].into_iter()));
            }
        }
    }
    let atoms = a12();
    for s in shapes(3, 2) {
        for a in &atoms {
            for b in &atoms {
                for c in &atoms {
                    v.push(s.build(&mut vec![a.clone(), b.clone(), c.clone()].into_iter()));
                }
            }
        }
    }
    for s in str_domain(3) {
        v.push(RV::Str(s));
    }
    // the two formatters have separate code for every atom kind: every octet, every integer
    // digit-count boundary, every character class (seed C07-c: octet 200 in the customised one)
    for b in 0..=255u8 {
        v.push(RV::Bytes(vec![b]));
        v.push(RV::Bytes(vec![b, 255 - b, b]));
    }
    for x in crate::domains::n64() {
        v.push(RV::Int(x));
    }
    for f in crate::domains::f64_lattice(99, 7) {
        v.push(RV::Float(f));
    }
    for cp in (0u32..0x300).chain([0x7ff, 0x800, 0xd7ff, 0xe000, 0xffff, 0x10000, 0x10ffff]) {
        if let Some(c) = char::from_u32(cp) {
            v.push(RV::Char(c));
            v.push(RV::Str(c.to_string()));
        }
    }
    v.extend(long_c07());
    v.extend(crate::props::c01::long_values());
    v
}

/// E1: default formatter vs customised formatter with default options, byte for byte; and the
/// four output forms (to_string, to_vec, to_writer into a Vec, Display) agree.
fn run_formatter_agreement(acc: &mut Acc, rank: u64, m: &RV) {
    let v = m.to_value();
    let r = guard(|| {
        let a = lexpr::to_vec(&v).ok();
        let b = lexpr::print::to_vec_custom(&v, lexpr::print::Options::default()).ok();
        let c = lexpr::to_string(&v).ok().map(|s| s.into_bytes());
        let d = lexpr::print::to_string_custom(&v, lexpr::print::Options::default()).ok().map(|s| s.into_bytes());
        let mut e = Vec::new();
        let e = lexpr::to_writer(&mut e, &v).ok().map(|_| e);
        (a, b, c, d, e)
    });
    acc.evals += 1;
    if true {
        acc.nontrivial += 1;
    }
    let case = || json!({"value": m.to_string(), "entry": "to_vec", "opts": null, "schedule": null});
    match r {
        Err(p) => acc.violation("formatter-agreement", "panic", "panic", rank, format!("value={}", m), p, case),
        Ok((a, b, c, d, e)) => {
            acc.outcome(&a.as_ref().map(|x| x.len()));
            if a.is_none() || a != b || a != c || a != d || a != e {
                acc.violation(
                    "formatter-agreement",
                    "default-vs-customised",
                    "default-vs-customised",
                    rank,
                    format!("value={}", m),
                    format!("to_vec={:?} to_vec_custom(default)={:?} to_string={:?} to_string_custom={:?} to_writer={:?}", a.map(|x| show_bytes(&x)), b.map(|x| show_bytes(&x)), c.map(|x| show_bytes(&x)), d.map(|x| show_bytes(&x)), e.map(|x| show_bytes(&x))),
                    case,
                );
            }
        }
    }
}

pub fn run(ctx: &Ctx) -> Report {
    let mut rep = Report::new(ctx, "fault_enumeration");
    rep.assume("the reference text is what to_string / to_string_custom return for the same value and options (the statement's own reference)");
    rep.assume("io::Write::write_all and fmt machinery of std are trusted; Interrupted from a writer is not injected (outside the statement)");
    let vals = values(ctx);
    let corner = pr_corner();
    let ax = actx();

    // (value, entry, opts) triples
    let mut triples: Vec<(usize, &'static str, Option<PR>)> = Vec::new();
    for (i, _) in vals.iter().enumerate() {
        for e in ENTRY_DEFAULT {
            triples.push((i, e, None));
        }
        for p in &corner {
            for e in ENTRY_CUSTOM {
                triples.push((i, e, Some(*p)));
            }
        }
    }
    // all 576 option sets on the context atoms
    let base = vals.len();
    let mut vals_all = vals.clone();
    vals_all.extend(ax.iter().cloned());
    // long values: uniform sinks only (the deviation-bounded schedules stay on the short ones)
    let long = long_c07();
    let base_long = vals_all.len();
    vals_all.extend(long.iter().cloned());
    for (j, _) in long.iter().enumerate() {
        for e in ENTRY_DEFAULT {
            triples.push((base_long + j, e, None));
        }
        for p in [PR::default_(), PR::elisp()] {
            for e in ENTRY_CUSTOM {
                triples.push((base_long + j, e, Some(p)));
            }
        }
    }
    for (j, _) in ax.iter().enumerate() {
        for pi in 0..N_PR {
            let p = PR::from_index(pi);
            if corner.contains(&p) {
                continue;
            }
            triples.push((base + j, "to_writer_custom", Some(p)));
        }
    }

    if ctx.want("uniform-sinks") {
        let sub = Sub::new(
            "uniform-sinks",
            "every (value, print entry point, printer options) triple x sinks accepting at most k bytes per call (k=1,2,3,unbounded) and a hard error / zero-byte acceptance at every output offset 0..=len (with k=1 and unbounded); oracle: sink is a prefix of to_string's text, Ok implies the whole text, any refusal implies Err; non-trivial = the sink deviates from accept-all",
            &format!("{} values (context atoms, integers of every digit count, byte vectors <= {} octets, strings <= 2 over the trouble alphabet, all two-leaf shapes over 12 atoms) x 3 default entry points + {} corner option sets x 2 custom entry points; all 576 option sets on the {} context atoms", vals.len(), if ctx.tier.thorough() { 4 } else { 3 }, corner.len(), ax.len()),
        );
        let accs = par_ranks(triples.len() as u64, |rank, acc| {
            let (vi, entry, opts) = triples[rank as usize];
            let c = Case { m: &vals_all[vi], entry, opts };
            acc.sample(rank, || c.witness());
            run_uniform(acc, rank, &c, None);
        });
        rep.absorb(sub, accs);
    }
    if ctx.want("schedules") {
        let bound = if ctx.tier.thorough() { 3 } else { 2 };
        // DFS on a thinner triple set in quick (every value, default + customised-default + elisp), all triples in thorough
        let tr: Vec<(usize, &'static str, Option<PR>)> = if ctx.tier.thorough() {
            triples.iter().filter(|t| t.0 < base).cloned().collect()
        } else {
            triples.iter().filter(|t| t.0 < base && (t.2.is_none() && t.1 == "to_writer" || t.1 == "to_writer_custom" && (t.2 == Some(PR::default_()) || t.2 == Some(PR::elisp())))).cloned().collect()
        };
        let mut sub = Sub::new(
            "schedules",
            "E2 choice tree: the sink answers each write with accept-all (default), accept 1 / 2 / len-1 bytes, accept 0, or a hard error; every schedule with at most `bound` deviations is executed; the first schedule of each case is replayed and must reproduce identical observations; non-trivial = at least one deviation",
            &format!("deviation bound {} completed; {} (value, entry, options) triples; cap 200000 schedules per triple", bound, tr.len()),
        );
        let accs = par_ranks(tr.len() as u64, |rank, acc| {
            let (vi, entry, opts) = tr[rank as usize];
            let c = Case { m: &vals_all[vi], entry, opts };
            acc.sample(rank, || c.witness());
            run_dfs(acc, rank, &c, bound, None);
        });
        let capped: u64 = accs.iter().map(|a| a.counters.get("schedule-cap-hit").copied().unwrap_or(0)).sum();
        if capped > 0 {
            sub.cap(format!("{} triples hit the 200000-schedule cap", capped));
        }
        rep.absorb(sub, accs);
    }
    if ctx.want("display") {
        let sub = Sub::new("display", "Display / format! for every value: same text as to_string; a fmt sink failing at the n-th write_str call for every n: write! returns Err and the sink holds a prefix; non-trivial = a failing sink", &format!("{} values (the short ones and the long byte vectors / strings / lists)", vals.len() + long_c07().len()));
        let dv: Vec<RV> = vals.iter().cloned().chain(long_c07()).collect();
        let accs = par_ranks(dv.len() as u64, |rank, acc| {
            acc.sample(rank, || trunc(&dv[rank as usize].to_string(), 200));
            run_display(acc, rank, &dv[rank as usize]);
        });
        rep.absorb(sub, accs);
    }
    if ctx.want("printer-reuse") {
        let firsts: Vec<RV> = vec![RV::Char('λ'), RV::Char('\x7f'), RV::Char('a'), RV::str("a\"λ\n"), RV::sym("sym-bol"), RV::kw("kw"), RV::Int(-12345), RV::Float(1.5e21), RV::Bytes(vec![1, 200]), RV::list(vec![RV::Char('\0'), RV::str("s")]), RV::Vector(vec![RV::Int(12345), RV::Nil])];
        let seconds: Vec<RV> = vec![RV::list(vec![RV::Char('\x7f'), RV::Int(1)]), RV::str("x"), RV::Int(42)];
        let total = (firsts.len() * seconds.len() * corner.len()) as u64;
        let sub = Sub::new("printer-reuse", "one Printer::with_options object used twice: the first print hits a one-time sink error at every offset (sink taking 1 or 64 bytes per call), the second print on the same printer then delivers exactly its own text after the accepted prefix of the first; 11 first values (every atom kind, a list, a vector) x 3 second values x the corner printer option sets", &format!("{} (first, second, options) triples", total));
        let accs = par_ranks(total, |rank, acc| {
            let r = rank as usize;
            let p = &corner[r % corner.len()];
            let m2 = &seconds[(r / corner.len()) % seconds.len()];
            let m1 = &firsts[r / corner.len() / seconds.len()];
            acc.sample(rank, || format!("{} then {} [{}]", m1, m2, p.describe()));
            check_printer_reuse(acc, rank, m1, m2, p);
        });
        rep.absorb(sub, accs);
    }
    if ctx.want("passthrough") {
        // Printer is itself an io::Write that hands bytes to its sink unchanged; prints and raw
        // writes on one printer interleave in call order, and into_inner returns the sink
        let vs: Vec<RV> = actx().into_iter().chain(long_c07().into_iter().take(6)).collect();
        let total = (vs.len() * 2) as u64;
        let sub = Sub::new("passthrough", "on one Printer (default and customised): raw write_all, print, raw write (return value = the sink's), flush, print again, into_inner — over sinks taking 1, 3 or all bytes per call: the sink holds exactly raw1 + text + accepted part of raw2 + text, every write's return value is the sink's; non-trivial = every case", &format!("{} values x 2 printers x 3 sinks", vs.len()));
        let accs = par_ranks(total, |rank, acc| {
            let m = &vs[(rank / 2) as usize];
            let custom = rank % 2 == 1;
            acc.sample(rank, || format!("{} custom={}", trunc(&m.to_string(), 80), custom));
            check_passthrough(acc, rank, m, custom);
        });
        rep.absorb(sub, accs);
    }
    if ctx.want("serde-writers") {
        // the Serde front end has its own to_writer / to_writer_custom (seed C07-g2)
        let fam = crate::serde_fam::family_core();
        let budget = crate::props::c04::budget(false);
        let mut cases: Vec<(usize, usize)> = Vec::new();
        for (ti, r) in fam.iter().enumerate() {
            let n = r.count(&budget);
            let step = if ctx.tier.thorough() { 1 } else { (n / 40).max(1) };
            let mut i = 0;
            while i < n {
                cases.push((ti, i));
                i += step;
            }
        }
        let sub = Sub::new("serde-writers", "serde_lexpr::to_writer and to_writer_custom(elisp) for inhabitants of every core Serde type: sinks accepting at most k bytes per call (k=1,2,3,5,unbounded) and a hard error / zero-byte acceptance at every output offset (k=1 and unbounded); oracle as for uniform-sinks, reference text = serde_lexpr::to_string / to_string_custom; non-trivial = every case", &format!("{} (type, inhabitant) pairs over {} types", cases.len(), fam.len()));
        let accs = par_ranks(cases.len() as u64, |rank, acc| {
            let (ti, i) = cases[rank as usize];
            let r = &fam[ti];
            acc.sample(rank, || format!("{} = {}", r.name(), r.describe(&budget, i)));
            let (fails, runs) = r.writers(&budget, i);
            acc.evals += runs;
            acc.nontrivial += runs;
            acc.outcome(&(ti, runs.min(64)));
            for (kind, detail) in fails.into_iter().take(3) {
                let cls = kind.clone();
                acc.violation("serde-writers", &kind, &cls, rank, format!("{} = {}", r.name(), r.describe(&budget, i)), detail, || json!({"serde_type": ti, "inhabitant": i}));
            }
        });
        rep.absorb(sub, accs);
    }
    if ctx.want("formatter-agreement") {
        let fv = formatter_values();
        let sub = Sub::new("formatter-agreement", "to_vec == to_vec_custom(default options) == to_string == to_string_custom(default) == to_writer into a Vec, byte for byte; non-trivial = every case", &format!("{} values (context atoms, all two-leaf shapes over them, all three-leaf shapes over A12, strings <= 3, every octet in one- and three-octet byte vectors, the N64 integer boundaries, a float lattice, every scalar below U+0300 and the UTF-8 length boundaries as char and string)", fv.len()));
        let accs = par_ranks(fv.len() as u64, |rank, acc| {
            acc.sample(rank, || fv[rank as usize].to_string());
            run_formatter_agreement(acc, rank, &fv[rank as usize]);
        });
        rep.absorb(sub, accs);
    }
    rep
}
