//! C19 — error locations are in bounds; truncation is reported as EOF.

use crate::corpus::{corpus_all, corpus_g};
use crate::domains::{bytes_upto3, po15, PO, N_B3, SIGMA};
use crate::engine::choice::ChunkReader;
use crate::model::pos::location_in_bounds;
use crate::par::{count_upto, par_ranks, unrank_string};
use crate::report::{Acc, Ctx, Report, Sub};
use crate::rv::{hex, show_bytes, unhex};
use crate::util::guard;
use lexpr::parse::error::Category;
use lexpr::parse::Error;
use serde_json::{json, Value as J};
use std::io;

fn check_error(acc: &mut Acc, sub: &str, rank: u64, input: &[u8], po: &PO, src: &str, e: Error) {
    let cat = e.classify();
    let (h, pi) = (hex(input), po.index());
    let case = || json!({"input_hex": h, "po": pi});
    let w = || format!("source={} input={:?} opts=[{}]", src, show_bytes(input), po.describe());
    let msg = e.to_string();
    match (cat, e.location()) {
        (Category::Io, _) => {}
        (_, None) => acc.violation(sub, "no-location", "no-location", rank, w(), format!("syntax/EOF error without a location: {}", msg), case),
        (_, Some(l)) => {
            if !location_in_bounds(input, l.line(), l.column()) {
                let kind = msg.split(" at line").next().unwrap_or("").to_string();
                acc.violation(sub, "location-out-of-bounds", &format!("location-out-of-bounds:{}:{}", src, kind), rank, w(), format!("{} — the input has {} line(s); line {} has {:?} bytes", msg, crate::model::pos::line_count(input), l.line(), crate::model::pos::line_len(input, l.line())), case);
            }
        }
    }
    // the category predicates are the category (a streaming caller asks is_eof())
    let preds = (e.is_io(), e.is_syntax(), e.is_eof());
    let want_preds = (cat == Category::Io, cat == Category::Syntax, cat == Category::Eof);
    if preds != want_preds {
        acc.violation(sub, "category-predicates", "category-predicates", rank, w(), format!("classify() = {:?} but (is_io, is_syntax, is_eof) = {:?}", cat, preds), case);
    }
    // conversion to io::Error
    let ioe: io::Error = e.into();
    let want = match cat {
        Category::Syntax => Some(io::ErrorKind::InvalidData),
        Category::Eof => Some(io::ErrorKind::UnexpectedEof),
        Category::Io => None,
    };
    if let Some(k) = want {
        if ioe.kind() != k {
            acc.violation(sub, "io-error-kind", &format!("io-error-kind:{:?}", cat), rank, w(), format!("{:?} error converts to io::ErrorKind::{:?}, documented {:?}", cat, ioe.kind(), k), case);
        }
        // the original error is preserved as the source
        if ioe.get_ref().map(|r| r.to_string()) != Some(msg.clone()) {
            acc.violation(sub, "io-error-payload", "io-error-payload", rank, w(), "io::Error::from(err) does not wrap the parse error".into(), case);
        }
    }
    acc.outcome(&(cat == Category::Eof, src.len()));
}

/// Conversion clause for I/O: a reader that fails with kind K and a payload at offset k. If the
/// parse fails with an Io-category error, io::Error::from(err) must be that error again (kind and
/// payload); whether the failure must surface at all is C06's business and is not judged here.
fn check_io_conversion(acc: &mut Acc, rank: u64, text: &[u8], po: &PO) {
    use crate::engine::choice::{fault_kind, FaultReader, Payload};
    let o = po.to_lexpr();
    for k in 0..=text.len() {
        for sticky in [true, false] {
            let payload = (rank << 16) ^ ((k as u64) << 1) ^ sticky as u64;
            acc.evals += 1;
            let r = guard(|| lexpr::from_reader_custom(FaultReader { data: text, pos: 0, chunk: 2, fail_at: k, sticky, fired: 0, payload }, o));
            if let Ok(Err(e)) = r {
                if e.classify() != Category::Io {
                    continue;
                }
                acc.nontrivial += 1;
                let want_kind = fault_kind(payload);
                let has_loc = e.location().is_some();
                let ioe: io::Error = e.into();
                let got_payload = ioe.get_ref().and_then(|x| x.downcast_ref::<Payload>()).map(|p| p.0);
                acc.outcome(&(ioe.kind(), has_loc));
                if ioe.kind() != want_kind || got_payload != Some(payload) {
                    let (h, pi) = (hex(text), po.index());
                    acc.violation("io-conversion", "io-error-not-the-original", &format!("io-error-not-the-original:{:?}", want_kind), rank, format!("text={:?} fail_at={} sticky={} injected kind={:?}", show_bytes(text), k, sticky, want_kind), format!("io::Error::from(err) has kind {:?} and payload {:?}; the reader failed with kind {:?} and payload {}", ioe.kind(), got_payload, want_kind, payload), || json!({"io_text_hex": h, "po": pi, "rank": rank}));
                }
            }
        }
    }
}

fn check_locations(acc: &mut Acc, sub: &str, rank: u64, input: &[u8], po: &PO) {
    let o = po.to_lexpr();
    acc.evals += 1;
    let mut any_err = false;
    if let Ok(Err(e)) = guard(|| lexpr::from_slice_custom(input, o)) {
        any_err = true;
        check_error(acc, sub, rank, input, po, "slice", e);
    }
    if let Ok(Err(e)) = guard(|| lexpr::from_reader_custom(ChunkReader { data: input, pos: 0, chunk: 1 }, o)) {
        check_error(acc, sub, rank, input, po, "reader", e);
    }
    if let Ok(s) = std::str::from_utf8(input) {
        if let Ok(Err(e)) = guard(|| lexpr::from_str_custom(s, o)) {
            check_error(acc, sub, rank, input, po, "str", e);
        }
    }
    if let Ok(Err(e)) = guard(|| lexpr::datum::from_slice_custom(input, o)) {
        check_error(acc, sub, rank, input, po, "datum-slice", e);
    }
    if let Ok(Err(e)) = guard(|| lexpr::datum::from_reader_custom(input, o)) {
        check_error(acc, sub, rank, input, po, "datum-reader", e);
    }
    if any_err {
        acc.nontrivial += 1;
    }
}

/// Location clause on a stream that fails transiently: the reader refuses `times` consecutive
/// calls before byte k and then carries on; the caller repeats the call on the same parser. The
/// locations of all syntax / EOF errors of the run must still be within the input (positions
/// count delivered bytes, not calls of the reader: seeds C11-f2, C19-g1).
fn check_locations_flaky(acc: &mut Acc, rank: u64, input: &[u8], po: &PO) {
    struct Flaky<'a> {
        data: &'a [u8],
        pos: usize,
        fail_at: usize,
        left: usize,
    }
    impl<'a> io::Read for Flaky<'a> {
        fn read(&mut self, buf: &mut [u8]) -> io::Result<usize> {
            if buf.is_empty() {
                return Ok(0);
            }
            if self.pos >= self.fail_at && self.left > 0 {
                self.left -= 1;
                return Err(io::Error::new(io::ErrorKind::WouldBlock, "injected transient read error"));
            }
            if self.pos >= self.data.len() {
                return Ok(0);
            }
            buf[0] = self.data[self.pos];
            self.pos += 1;
            Ok(1)
        }
    }
    let o = po.to_lexpr();
    for k in 0..=input.len() {
        for times in 1..=3usize {
            acc.evals += 1;
            let reader = Flaky { data: input, pos: 0, fail_at: k, left: times };
            let errs = guard(std::panic::AssertUnwindSafe(move || {
                let mut p = lexpr::parse::Parser::from_reader_custom(reader, o);
                let mut errs: Vec<Error> = Vec::new();
                for _ in 0..(input.len() + times + 4) {
                    match p.next_value() {
                        Ok(Some(_)) => {}
                        Ok(None) => break,
                        Err(e) => errs.push(e),
                    }
                }
                errs
            }));
            if let Ok(errs) = errs {
                for e in errs {
                    if e.classify() == Category::Io {
                        continue;
                    }
                    acc.nontrivial += 1;
                    if let Some(l) = e.location() {
                        acc.outcome(&(l.line().min(4), times));
                        if !location_in_bounds(input, l.line(), l.column()) {
                            let (h, pi) = (hex(input), po.index());
                            acc.violation("locations-flaky", "location-out-of-bounds", "location-out-of-bounds:after-transient-read-errors", rank, format!("input={:?} opts=[{}] {} transient read error(s) before byte {}", show_bytes(input), po.describe(), times, k), format!("{} — the input has {} line(s); line {} has {:?} bytes", e, crate::model::pos::line_count(input), l.line(), crate::model::pos::line_len(input, l.line())), || json!({"flaky_hex": h, "po": pi}));
                            return;
                        }
                    }
                }
            }
        }
    }
}

/// Truncation: every proper prefix of a text that parses; if the prefix does not parse, the error
/// category must be Eof.
fn check_truncations(acc: &mut Acc, rank: u64, text: &[u8], po: &PO) {
    check_truncations_sub(acc, "truncation", rank, text, po)
}

fn check_truncations_sub(acc: &mut Acc, sub: &str, rank: u64, text: &[u8], po: &PO) {
    let o = po.to_lexpr();
    match guard(|| lexpr::from_slice_custom(text, o)) {
        Ok(Ok(_)) => {}
        _ => {
            acc.evals += 1;
            acc.count("text-does-not-parse-under-these-options");
            return;
        }
    }
    for k in 0..text.len() {
        let p = &text[..k];
        acc.evals += 1;
        let results: [(&str, Result<Result<(), Error>, String>); 3] = [
            ("slice", guard(|| lexpr::from_slice_custom(p, o).map(drop))),
            ("reader", guard(|| lexpr::from_reader_custom(p, o).map(drop))),
            ("datum-slice", guard(|| lexpr::datum::from_slice_custom(p, o).map(drop))),
        ];
        for (src, r) in results {
            match r {
                Ok(Err(e)) => {
                    acc.nontrivial += 1;
                    let cat = e.classify();
                    acc.outcome(&(cat == Category::Eof));
                    // both ways of asking: classify() and the is_eof() predicate a streaming caller uses
                    if cat != Category::Eof || !e.is_eof() || e.is_syntax() {
                        let msg = e.to_string();
                        let kind = msg.split(" at line").next().unwrap_or("").to_string();
                        let (h, pi) = (hex(text), po.index());
                        acc.violation(
                            sub,
                            "truncation-not-eof",
                            &format!("truncation-not-eof:{}:{}", src, kind),
                            rank,
                            format!("source={} prefix={:?} of text={:?} opts=[{}]", src, show_bytes(p), crate::util::trunc(&show_bytes(text), 80), po.describe()),
                            format!("the prefix of a well-formed datum does not parse, but the error is {:?}: {}", cat, msg),
                            || json!({"input_hex": h, "po": pi, "k": k}),
                        );
                    }
                }
                _ => {}
            }
        }
    }
}

/// Exhaustive form of the truncation clause over the token alphabet: a string that fails with a
/// non-EOF category must have no extension that parses.
fn check_truncation_alphabet(acc: &mut Acc, rank: u64, p: &[u8], po: &PO, ext_len: u32) {
    let o = po.to_lexpr();
    acc.evals += 1;
    let cat = match guard(|| lexpr::from_slice_custom(p, o)) {
        Ok(Err(e)) => e.classify(),
        _ => return,
    };
    if cat == Category::Eof {
        acc.count("prefix-fails-with-eof");
        return;
    }
    acc.nontrivial += 1;
    let n = count_upto(SIGMA.len() as u64, ext_len);
    let mut buf = Vec::new();
    let mut idx = Vec::new();
    let mut full = p.to_vec();
    for r in 1..n {
        unrank_string(r, SIGMA, &mut buf, &mut idx);
        full.truncate(p.len());
        full.extend_from_slice(&buf);
        acc.evals += 1;
        if let Ok(Ok(_)) = guard(|| lexpr::from_slice_custom(&full, o)) {
            let (h, pi) = (hex(&full), po.index());
            let msg = match lexpr::from_slice_custom(p, o) {
                Err(e) => e.to_string(),
                Ok(_) => String::new(),
            };
            let kind = msg.split(" at line").next().unwrap_or("").to_string();
            acc.violation(
                "truncation-alphabet",
                "truncation-not-eof",
                &format!("truncation-not-eof:{}", kind),
                rank,
                format!("prefix={:?} of text={:?} opts=[{}]", show_bytes(p), show_bytes(&full), po.describe()),
                format!("the text parses, its prefix fails with a {:?} error: {}", cat, msg),
                || json!({"input_hex": h, "po": pi, "k": p.len()}),
            );
            return;
        }
    }
    acc.outcome(&(cat == Category::Syntax));
}

pub fn replay(sub: &str, case: &J, acc: &mut Acc) {
    let input = unhex(case["input_hex"].as_str().unwrap_or(""));
    let po = PO::from_index(case["po"].as_u64().unwrap_or(0));
    if let Some(h) = case["flaky_hex"].as_str() {
        check_locations_flaky(acc, 0, &unhex(h), &po);
        return;
    }
    if let Some(h) = case["io_text_hex"].as_str() {
        check_io_conversion(acc, case["rank"].as_u64().unwrap_or(0), &unhex(h), &po);
        return;
    }
    if sub == "truncation" || sub == "truncation-alphabet" || sub == "truncation-utf8" {
        check_truncations(acc, 0, &input, &po);
        // only the recorded prefix matters, but reporting every failing prefix of the text is fine
    } else {
        check_locations(acc, sub, 0, &input, &po);
    }
}

fn multiline_inputs() -> Vec<Vec<u8>> {
    let heads: [&str; 6] = ["", "a\n", "λ\n\n", "; c\n(a\n", "\"x\ny\"\n", "(a\n b\n"];
    let bad: [&str; 22] = [")", "(a", "#", "#n", "\"abc", "\"\\q\"", "#\\spac", "1.5.6", "(a . b c)", "(a]", "#u8(256)", "\\", "\"\\x110000;\"", "a\n)", "(\n", "#(\n\n", "'", "(a .\n", "#x", "1e", "\u{ff}", "(λ . "];
    let tails: [&str; 4] = ["", "\n", " x", "\n\n; c"];
    let mut v = Vec::new();
    for h in heads {
        for b in bad {
            for t in tails {
                v.push(format!("{}{}{}", h, b, t).into_bytes());
            }
        }
    }
    v.push(b"\xff".to_vec());
    v.push(b"a\n\xce".to_vec());
    v.push(b"(a\n\"\xff\")".to_vec());
    v
}

pub fn run(ctx: &Ctx) -> Report {
    let mut rep = Report::new(ctx, "exploration");
    rep.assume("PosModel: 1-based lines split at LF, 0-based byte columns; in bounds = 1 <= line <= lines+1 and column <= len(line)+1");
    rep.assume("'truncation' is computed from the definition: a proper byte prefix of a text that the parser accepts as a single datum under the same options");
    let thorough = ctx.tier.thorough();
    let two = [PO::default_(), PO::elisp()];

    if ctx.want("io-conversion") {
        let texts: Vec<Vec<u8>> = corpus_g(false).into_iter().map(|x| x.0).filter(|t| t.len() <= 24).collect();
        let sub = Sub::new("io-conversion", "a reader failing at every byte offset of every corpus text of at most 24 bytes (sticky and transient, the error kinds rotating over Other, UnexpectedEof, InvalidData, BrokenPipe, TimedOut, WouldBlock), default and Emacs Lisp options: an Io-category parse error converts to an io::Error of the reader's kind carrying the reader's payload; non-trivial = an Io error surfaced", &format!("{} texts x 2 option sets", texts.len()));
        let accs = par_ranks(texts.len() as u64 * 2, |rank, acc| {
            let t = &texts[(rank / 2) as usize];
            acc.sample(rank, || format!("{:?}", show_bytes(t)));
            check_io_conversion(acc, rank, t, &two[(rank % 2) as usize]);
        });
        rep.absorb(sub, accs);
    }
    if ctx.want("locations-B3") {
        let sub = Sub::new("locations-B3", "every byte string of length <= 3 x {default, elisp}: for each failing parse (value and datum entry points; slice, 1-byte reader, str when UTF-8) the location is in bounds and io::Error::from has the documented kind and wraps the error; non-trivial = the input fails to parse", &format!("{} cells", N_B3 * 2));
        let accs = par_ranks(N_B3 * 2, |rank, acc| {
            let mut buf = Vec::with_capacity(3);
            bytes_upto3(rank / 2, &mut buf);
            let po = &two[(rank % 2) as usize];
            acc.sample(rank, || format!("{:?} [{}]", show_bytes(&buf), po.describe()));
            check_locations(acc, "locations-B3", rank, &buf, po);
        });
        rep.absorb(sub, accs);
    }
    if ctx.want("locations-T") {
        let pos = po15();
        let npo = pos.len() as u64;
        let k = if thorough { 5 } else { 4 };
        let n = count_upto(SIGMA.len() as u64, k);
        let sub = Sub::new("locations-T", "every string of length <= k over the token alphabet (which contains LF, so errors on lines 2..k occur) x the 15 corner option sets, same oracle", &format!("k = {}: {} x {}", k, n, npo));
        let accs = par_ranks(n * npo, |rank, acc| {
            let mut buf = Vec::new();
            let mut idx = Vec::new();
            unrank_string(rank / npo, SIGMA, &mut buf, &mut idx);
            let po = &pos[(rank % npo) as usize];
            acc.sample(rank, || format!("{:?} [{}]", show_bytes(&buf), po.describe()));
            check_locations(acc, "locations-T", rank, &buf, po);
        });
        rep.absorb(sub, accs);
    }
    if ctx.want("locations-multiline") {
        let mut inputs = multiline_inputs();
        inputs.extend(corpus_all(thorough));
        let n = inputs.len() as u64;
        let sub = Sub::new("locations-multiline", "multi-line inputs with the error on lines 1-4 (non-ASCII lines before it, trailing lines after it) and the whole corpus incl. the malformed pool x {default, elisp}", &format!("{} inputs x 2", n));
        let accs = par_ranks(n * 2, |rank, acc| {
            let input = &inputs[(rank / 2) as usize];
            acc.sample(rank, || format!("{:?}", crate::util::trunc(&show_bytes(input), 60)));
            check_locations(acc, "locations-multiline", rank, input, &two[(rank % 2) as usize]);
        });
        rep.absorb(sub, accs);
    }
    if ctx.want("locations-flaky") {
        let mut inputs = multiline_inputs();
        inputs.extend(corpus_all(thorough));
        inputs.retain(|t| t.len() <= 48);
        let n = inputs.len() as u64;
        let sub = Sub::new("locations-flaky", "the multi-line inputs and corpus texts of at most 48 bytes read from a stream that refuses 1, 2 or 3 consecutive calls before byte k (every k) and then carries on, the caller repeating next_value on the same parser: every syntax / EOF error of the run has a location within the input; non-trivial = such an error", &format!("{} inputs x 2 option sets x every offset x 3", n));
        let accs = par_ranks(n * 2, |rank, acc| {
            let input = &inputs[(rank / 2) as usize];
            acc.sample(rank, || format!("{:?}", crate::util::trunc(&show_bytes(input), 60)));
            check_locations_flaky(acc, rank, input, &two[(rank % 2) as usize]);
        });
        rep.absorb(sub, accs);
    }
    if ctx.want("truncation") {
        let g = corpus_g(thorough);
        let n = g.len() as u64;
        let opts: Vec<PO> = vec![PO::default_(), PO::elisp(), PO { racket: true, kw: 7, ..PO::default_() }];
        let no = opts.len() as u64;
        let sub = Sub::new("truncation", "every proper byte prefix of every text of the grammar corpus G that parses as a single datum (every token kind: #nil #t #f, all four radixes with signs, decimals with fraction and exponent, every character name and #\\x form, strings with each escape form of both dialects, both byte-vector prefixes, the four shorthands, non-ASCII symbols/strings/chars, lists, dotted lists, vectors, brackets, comments) under default, elisp and an all-keywords+racket option set; slice, reader and datum entry points: a prefix that does not parse must fail with the EOF category; non-trivial = the prefix does not parse", &format!("{} texts x {} option sets, every prefix", n, no));
        let accs = par_ranks(n * no, |rank, acc| {
            let (t, _) = &g[(rank / no) as usize];
            acc.sample(rank, || format!("{:?}", crate::util::trunc(&show_bytes(t), 60)));
            check_truncations(acc, rank, t, &opts[(rank % no) as usize]);
        });
        rep.absorb(sub, accs);
    }
    if ctx.want("truncation-utf8") {
        // multi-byte characters at every alignment: every sequence of 1..=3 units over characters of
        // 1, 2, 3 and 4 UTF-8 bytes, in symbol, keyword, string, character and list context
        let units = ["a", "é", "λ", "日", "€", "😀"];
        let mut texts: Vec<Vec<u8>> = Vec::new();
        let n = units.len();
        for len in 1..=3usize {
            for i in 0..n.pow(len as u32) {
                let mut r = i;
                let mut body = String::new();
                for _ in 0..len {
                    body.push_str(units[r % n]);
                    r /= n;
                }
                let first_alpha = body.chars().next().map(|c| c.is_alphabetic()).unwrap_or(false);
                if first_alpha {
                    texts.push(body.clone().into_bytes());
                    texts.push(format!("#:{}", body).into_bytes());
                    texts.push(format!("(x {} y)", body).into_bytes());
                    texts.push(format!("-{}", body).into_bytes());
                }
                texts.push(format!("\"{}\"", body).into_bytes());
                texts.push(format!("s{}", body).into_bytes());
                if len == 1 {
                    texts.push(format!("#\\{}", body).into_bytes());
                    texts.push(format!("?{}", body).into_bytes());
                }
            }
        }
        let opts: Vec<PO> = vec![PO::default_(), PO::elisp()];
        let no = opts.len() as u64;
        let sub = Sub::new("truncation-utf8", "every proper byte prefix of symbols, keywords, strings, characters and list elements made of 1..=3 characters of 1, 2, 3 and 4 UTF-8 bytes (a é λ 日 € 😀) — every alignment of a cut inside a multi-byte character after another multi-byte character; default and elisp; slice, reader and datum entry points; non-trivial = the prefix does not parse", &format!("{} texts x {} option sets, every prefix", texts.len(), no));
        let accs = par_ranks(texts.len() as u64 * no, |rank, acc| {
            let t = &texts[(rank / no) as usize];
            acc.sample(rank, || format!("{:?}", show_bytes(t)));
            check_truncations_sub(acc, "truncation-utf8", rank, t, &opts[(rank % no) as usize]);
        });
        rep.absorb(sub, accs);
    }
    if ctx.want("truncation-alphabet") {
        let k = if thorough { 4 } else { 3 };
        let n = count_upto(SIGMA.len() as u64, k);
        let sub = Sub::new("truncation-alphabet", "exhaustive form over the token alphabet: every string p of length <= k that fails with a non-EOF category x every extension of 1..=2 alphabet symbols: no extension may parse (otherwise p is a truncation reported as malformed); {default, elisp}; non-trivial = p fails with a non-EOF category", &format!("k = {}: {} prefixes x 1640 extensions x 2 option sets", k, n));
        let accs = par_ranks(n * 2, |rank, acc| {
            let mut buf = Vec::new();
            let mut idx = Vec::new();
            unrank_string(rank / 2, SIGMA, &mut buf, &mut idx);
            acc.sample(rank, || format!("{:?}", show_bytes(&buf)));
            check_truncation_alphabet(acc, rank, &buf, &two[(rank % 2) as usize], 2);
        });
        rep.absorb(sub, accs);
    }
    rep
}
