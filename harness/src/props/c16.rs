//! C16 — stack use does not grow with the number of list elements.
//! Every list-walking operation runs in a child process, in a thread with a small fixed stack, on
//! n elements with n*16 bytes far beyond that stack: an operation with per-element recursion
//! must overflow (threshold argument, DESIGN 5/C16), one that completes has none.

use crate::engine::child::{run_children, run_children_retry, ChildObs};
use crate::report::{Acc, Ctx, Report, Sub};
use lexpr::{Cons, Value};
use serde_json::{json, Value as J};

pub const OPS: &[&str] = &[
    "build-only",
    "drop",
    "clone",
    "eq",
    // == between two long lists in every relation: the number of stack frames must not depend on
    // where, or how often, they differ (seed C16-b: one frame per mismatching position)
    "ne-everywhere",
    "ne-alternate",
    "ne-first",
    "ne-last",
    "ne-tail",
    "ne-length",
    "datum-tail-owned-drop",
    // long datums whose elements are compound (pairs, vectors): ==, clone, drop
    "datum-compound-pairs",
    "datum-compound-vectors",
    // the same list written in fully dotted notation (1 . (1 . (1 . ()))): every element is one
    // nesting level, so the parser's bound must stop it (or it must be read without recursion)
    "parse-dotted-notation-value",
    "parse-dotted-notation-datum",
    "datum-ne-everywhere",
    "datum-ne-last",
    "to_string",
    "to_vec-print",
    "to_writer",
    "display",
    "value.to_vec",
    "value.to_ref_vec",
    "cons.to_vec",
    "cons.to_ref_vec",
    "cons.into_vec",
    "iter-count",
    "iter-half",
    "list_iter-exhaust",
    "list_iter-half",
    "into_iter-exhaust",
    "into_iter-half",
    "get-last",
    "index-last",
    "get-usize-max",
    "alist-miss-str",
    "alist-miss-value",
    "is_list",
    "is_dotted_list",
    "parse-str-value",
    "parse-slice-value",
    "parse-reader-value",
    "parse-reader-datum",
    "parse-str-datum",
    "datum-drop",
    "datum-clone",
    "datum-eq",
    "datum-list_iter",
    "datum-into-value",
    // the pair-wise walk through Ref::as_pair, asking every tail for its span (seed C16-g2: the
    // span of a tail computed on demand by recursing down the rest of the list)
    "datum-ref-walk",
    "datum-tail-span",
    "datum-span",
    "serde-to_value",
    "serde-from_value",
    "serde-from_str",
    "serde-to_string",
    // a long list in every position a Serde visitor can meet it: skipped (unknown field,
    // IgnoredAny), as a struct field, inside an Option, as a map of n entries (seed C16-c)
    "serde-ignored-any",
    "serde-unknown-field",
    "serde-unknown-field-str",
    "serde-struct-field",
    "serde-option-vec",
    "serde-map-from_value",
    "serde-map-to_value",
    "serde-tuple-elements",
    // a long list that is REJECTED (the error path describes the offending value)
    "serde-reject-as-string",
    "serde-reject-as-bool",
    "serde-reject-nested",
    // consumers of the cell iterator that ask for size_hint (collect, extend)
    "iter-collect",
    "iter-filter-collect",
    "iter-size_hint",
    // long lists of dot-initial symbols (the list parsers scan these themselves)
    "parse-dot-symbols-value",
    "parse-dot-symbols-datum",
];

#[derive(serde_derive::Serialize, serde_derive::Deserialize)]
struct OnlyId {
    id: u64,
}
#[derive(serde_derive::Serialize, serde_derive::Deserialize)]
struct WithVec {
    id: u64,
    v: Vec<u64>,
}

/// The other operand of a `ne-*` comparison: same shape as `build("cons-new", ..)`, differing
/// from it as the pattern says.
fn build_other(pattern: &str, n: usize, dotted: bool) -> Value {
    let tail = match (pattern, dotted) {
        ("tail", true) => Value::Null,
        ("tail", false) => Value::symbol("t"),
        (_, true) => Value::symbol("t"),
        (_, false) => Value::Null,
    };
    let len = if pattern == "length" { n - 1 } else { n };
    let mut acc = tail;
    for i in (0..len).rev() {
        let differ = match pattern {
            "everywhere" => true,
            "alternate" => i % 2 == 0,
            "first" => i == 0,
            "last" => i == len - 1,
            _ => false,
        };
        let x = if differ { (i + 1) % 10 } else { i % 10 } as u64;
        acc = Value::Cons(Cons::new(Value::from(x), acc));
    }
    acc
}

fn text_other(pattern: &str, n: usize, dotted: bool) -> String {
    let mut s = String::with_capacity(n * 3 + 8);
    s.push('(');
    for i in 0..n {
        if i > 0 {
            s.push(' ');
        }
        let differ = pattern == "everywhere" || (pattern == "last" && i == n - 1);
        s.push(char::from(b'0' + ((if differ { i + 1 } else { i }) % 10) as u8));
    }
    if dotted {
        s.push_str(" . t");
    }
    s.push(')');
    s
}

fn text_of(n: usize, dotted: bool) -> String {
    let mut s = String::with_capacity(n * 3 + 8);
    s.push('(');
    for i in 0..n {
        if i > 0 {
            s.push(' ');
        }
        s.push(char::from(b'0' + (i % 10) as u8));
    }
    if dotted {
        s.push_str(" . t");
    }
    s.push(')');
    s
}

/// Element of a uniform list of the given kind (operations whose code looks at the elements —
/// drop, clone, == — are also run on long runs of every kind of element).
fn elem_of(kind: &str) -> Value {
    match kind {
        "nil" => Value::Nil,
        "null" => Value::Null,
        "bool" => Value::Bool(false),
        "float" => Value::from(1.5),
        "char" => Value::Char('c'),
        "string" => Value::string("s"),
        "symbol" => Value::symbol("a"),
        "keyword" => Value::keyword("k"),
        "bytes" => Value::bytes(vec![1u8]),
        "vector" => Value::Vector(vec![Value::Nil].into_boxed_slice()),
        "pair" => Value::Cons(Cons::new(Value::Nil, Value::Nil)),
        _ => Value::from(7u64),
    }
}

fn build_uniform(kind: &str, n: usize, dotted: bool) -> Value {
    let mut acc = if dotted { Value::symbol("t") } else { Value::Null };
    for _ in 0..n {
        acc = Value::Cons(Cons::new(elem_of(kind), acc));
    }
    acc
}

fn build(route: &str, n: usize, dotted: bool) -> Value {
    let tail = if dotted { Value::symbol("t") } else { Value::Null };
    if let Some(kind) = route.strip_prefix("uniform-") {
        return build_uniform(kind, n, dotted);
    }
    match route {
        "constructor" => Value::append((0..n).map(|i| Value::from((i % 10) as u64)), tail),
        "cons-new" => {
            let mut acc = tail;
            for i in (0..n).rev() {
                acc = Value::Cons(Cons::new(Value::from((i % 10) as u64), acc));
            }
            acc
        }
        "parser" => lexpr::from_str(&text_of(n, dotted)).expect("parse long list"),
        "serde" => {
            let v: Vec<u64> = (0..n).map(|i| (i % 10) as u64).collect();
            let mut val = serde_lexpr::to_value(&v).expect("serde to_value");
            if dotted {
                // attach the dotted tail by hand
                let mut cell = val.as_cons_mut().unwrap();
                while cell.cdr().is_cons() {
                    cell = cell.cdr_mut().as_cons_mut().unwrap();
                }
                cell.set_cdr(Value::symbol("t"));
            }
            val
        }
        _ => panic!("unknown route"),
    }
}

/// Runs inside the child process, in a thread with the case's stack size.
pub fn child_listop(c: &J) -> String {
    let op = c["op"].as_str().unwrap_or("");
    let route = c["route"].as_str().unwrap_or("constructor");
    let n = c["n"].as_u64().unwrap_or(8) as usize;
    let dotted = c["shape"].as_str() == Some("dotted");
    let r = crate::util::guard(|| -> String {
        // parse / serde-text operations start from text, everything else from a built value
        match op {
            "parse-str-value" => {
                let t = text_of(n, dotted);
                let v = lexpr::from_str(&t).expect("parse");
                let d = v.as_cons().map(|c| c.iter().count()).unwrap_or(0);
                std::mem::forget(v);
                return format!("ok {}", d);
            }
            "parse-slice-value" => {
                let t = text_of(n, dotted);
                let v = lexpr::from_slice(t.as_bytes()).expect("parse");
                let d = v.as_cons().map(|c| c.iter().count()).unwrap_or(0);
                std::mem::forget(v);
                return format!("ok {}", d);
            }
            "parse-reader-value" => {
                let t = text_of(n, dotted);
                let v = lexpr::from_reader(t.as_bytes()).expect("parse");
                let d = v.as_cons().map(|c| c.iter().count()).unwrap_or(0);
                std::mem::forget(v);
                return format!("ok {}", d);
            }
            "parse-dotted-notation-value" | "parse-dotted-notation-datum" => {
                let mut t = String::with_capacity(n * 7 + 4);
                for _ in 0..n {
                    t.push_str("(1 . ");
                }
                t.push_str("()");
                for _ in 0..n {
                    t.push(')');
                }
                // accepted or rejected — it has to come back
                let r = if op.ends_with("value") { lexpr::from_reader(t.as_bytes()).map(std::mem::forget).is_ok() } else { lexpr::datum::from_reader(t.as_bytes()).map(std::mem::forget).is_ok() };
                return format!("ok {}", r as usize);
            }
            "datum-compound-pairs" | "datum-compound-vectors" => {
                let elem = if op.ends_with("pairs") { "(k . 1)" } else { "#(1 2)" };
                let mut t = String::with_capacity(n * 8 + 8);
                t.push('(');
                for i in 0..n {
                    if i > 0 {
                        t.push(' ');
                    }
                    t.push_str(elem);
                }
                if dotted {
                    t.push_str(" . t");
                }
                t.push(')');
                let d = lexpr::datum::from_reader(t.as_bytes()).expect("parse");
                let e = lexpr::datum::from_reader(t.as_bytes()).expect("parse");
                if d != e {
                    return "err == returned false for two parses of the same text".into();
                }
                let c = d.clone();
                let k = c.value().as_cons().map(|c| c.iter().count()).unwrap_or(0);
                drop(c);
                drop(e);
                drop(d);
                return format!("ok {}", k);
            }
            "datum-tail-owned-drop" => {
                // an owned datum made from the tail of a long list (its span tree starts at an
                // inner cell), cloned and dropped
                let d = lexpr::datum::from_reader(text_of(n, dotted).as_bytes()).expect("parse");
                let tail = lexpr::datum::Datum::from(d.as_ref().as_pair().expect("pair").1);
                let c = tail.clone();
                let k = c.value().as_cons().map(|c| c.iter().count()).unwrap_or(0);
                drop(c);
                drop(tail);
                std::mem::forget(d);
                return format!("ok {}", k + 1);
            }
            "datum-ne-everywhere" | "datum-ne-last" => {
                let pattern = op.strip_prefix("datum-ne-").unwrap();
                let d = lexpr::datum::from_reader(text_of(n, dotted).as_bytes()).expect("parse");
                let e = lexpr::datum::from_reader(text_other(pattern, n, dotted).as_bytes()).expect("parse");
                let same = d == e;
                std::mem::forget(d);
                std::mem::forget(e);
                return if same { "err == returned true for different data".into() } else { "ok 0".into() };
            }
            "parse-reader-datum" | "parse-str-datum" | "datum-drop" | "datum-clone" | "datum-eq" | "datum-list_iter" | "datum-into-value" | "datum-ref-walk" | "datum-tail-span" | "datum-span" => {
                let t = text_of(n, dotted);
                let parse = |t: &str| if op == "parse-str-datum" { lexpr::datum::from_str(t).expect("parse") } else { lexpr::datum::from_reader(t.as_bytes()).expect("parse") };
                let d = parse(&t);
                let res = match op {
                    "datum-drop" => {
                        drop(d);
                        return "ok dropped".into();
                    }
                    "datum-clone" => {
                        let c = d.clone();
                        let k = c.value().as_cons().map(|c| c.iter().count()).unwrap_or(0);
                        std::mem::forget(c);
                        k
                    }
                    "datum-eq" => {
                        let e = parse(&t);
                        let same = d == e;
                        std::mem::forget(e);
                        if !same {
                            std::mem::forget(d);
                            return "err == returned false for two parses of the same text".into();
                        }
                        1
                    }
                    "datum-span" => {
                        let sp = d.span();
                        (sp.end().line() >= sp.start().line()) as usize
                    }
                    "datum-tail-span" => {
                        let r = d.as_ref();
                        let (car, cdr) = r.as_pair().expect("as_pair");
                        let (a, b) = (car.span(), cdr.span());
                        let _ = (a.start(), b.start(), b.end());
                        1
                    }
                    "datum-ref-walk" => {
                        let mut r = d.as_ref();
                        let mut k = 0usize;
                        while let Some((car, cdr)) = r.as_pair() {
                            k += 1;
                            // spans of a sample of the cells (every cell would be quadratic if a
                            // span were computed by walking, which is not for this check to say)
                            if k < 4 || k % 65536 == 0 {
                                let _ = (car.span(), cdr.span(), cdr.list_iter().is_some());
                            }
                            r = cdr;
                        }
                        k
                    }
                    "datum-list_iter" => {
                        let mut it = d.list_iter().expect("list_iter");
                        let mut k = 0usize;
                        while let Some(_) = it.next() {
                            k += 1;
                        }
                        k
                    }
                    "datum-into-value" => {
                        let v: Value = d.into();
                        let k = v.as_cons().map(|c| c.iter().count()).unwrap_or(0);
                        std::mem::forget(v);
                        return format!("ok {}", k);
                    }
                    _ => d.value().as_cons().map(|c| c.iter().count()).unwrap_or(0),
                };
                std::mem::forget(d);
                return format!("ok {}", res);
            }
            "serde-to_value" => {
                let v: Vec<u64> = (0..n).map(|i| (i % 10) as u64).collect();
                let val = serde_lexpr::to_value(&v).expect("to_value");
                let k = val.as_cons().map(|c| c.iter().count()).unwrap_or(0);
                std::mem::forget(val);
                return format!("ok {}", k);
            }
            "serde-from_value" => {
                let val = build("cons-new", n, false);
                let v: Vec<u64> = serde_lexpr::from_value(&val).expect("from_value");
                std::mem::forget(val);
                return format!("ok {}", v.len());
            }
            "serde-from_str" => {
                let t = text_of(n, false);
                let v: Vec<u64> = serde_lexpr::from_str(&t).expect("from_str");
                return format!("ok {}", v.len());
            }
            "serde-ignored-any" => {
                let val = build("cons-new", n, false);
                let _: serde::de::IgnoredAny = serde_lexpr::from_value(&val).expect("IgnoredAny");
                std::mem::forget(val);
                return format!("ok {}", n);
            }
            "serde-unknown-field" | "serde-struct-field" => {
                // ((id . 7) (v 0 1 2 ...))
                let val = Value::list(vec![Value::cons(Value::symbol("id"), Value::from(7u64)), Value::cons(Value::symbol("v"), build("cons-new", n, false))]);
                let k = if op == "serde-unknown-field" {
                    let x: OnlyId = serde_lexpr::from_value(&val).expect("from_value");
                    (x.id == 7) as usize * n
                } else {
                    let x: WithVec = serde_lexpr::from_value(&val).expect("from_value");
                    x.v.len() + (x.id as usize - 7)
                };
                std::mem::forget(val);
                return format!("ok {}", k);
            }
            "serde-unknown-field-str" => {
                let t = format!("((id . 7) (v . {}))", text_of(n, false));
                let x: OnlyId = serde_lexpr::from_str(&t).expect("from_str");
                return format!("ok {}", (x.id == 7) as usize * n);
            }
            "serde-option-vec" => {
                let val = Value::list(vec![build("cons-new", n, false)]);
                let x: Option<Vec<u64>> = serde_lexpr::from_value(&val).expect("from_value");
                std::mem::forget(val);
                return format!("ok {}", x.map(|v| v.len()).unwrap_or(0));
            }
            "serde-map-from_value" | "serde-map-to_value" => {
                let m: std::collections::BTreeMap<u64, u64> = (0..n as u64).map(|i| (i, i % 10)).collect();
                let val = serde_lexpr::to_value(&m).expect("to_value");
                let k = if op == "serde-map-to_value" {
                    val.as_cons().map(|c| c.iter().count()).unwrap_or(0)
                } else {
                    let back: std::collections::BTreeMap<u64, u64> = serde_lexpr::from_value(&val).expect("from_value");
                    back.len()
                };
                std::mem::forget(val);
                return format!("ok {}", k);
            }
            "serde-tuple-elements" => {
                // a long list of pairs read as Vec<(u64, u64)> (every element a vector)
                let v: Vec<(u64, u64)> = (0..n as u64).map(|i| (i, i % 10)).collect();
                let val = serde_lexpr::to_value(&v).expect("to_value");
                let back: Vec<(u64, u64)> = serde_lexpr::from_value(&val).expect("from_value");
                std::mem::forget(val);
                return format!("ok {}", back.len());
            }
            "serde-reject-as-string" | "serde-reject-as-bool" | "serde-reject-nested" => {
                let val = build("cons-new", n, dotted);
                let rejected = match op {
                    "serde-reject-as-string" => serde_lexpr::from_value::<String>(&val).is_err(),
                    "serde-reject-as-bool" => serde_lexpr::from_value::<bool>(&val).is_err(),
                    _ => {
                        let outer = Value::list(vec![Value::cons(Value::symbol("id"), val.clone())]);
                        let r = serde_lexpr::from_value::<OnlyId>(&outer).is_err();
                        std::mem::forget(outer);
                        r
                    }
                };
                std::mem::forget(val);
                return if rejected { format!("ok {}", n) } else { "err a list was accepted as a scalar".into() };
            }
            "parse-dot-symbols-value" | "parse-dot-symbols-datum" => {
                let mut t = String::with_capacity(n * 4 + 16);
                t.push_str("(head");
                for i in 0..n {
                    t.push_str(if i % 2 == 0 { " ..." } else { " .x" });
                }
                if dotted {
                    t.push_str(" . end");
                }
                t.push(')');
                let k = if op.ends_with("value") {
                    let v = lexpr::from_reader(t.as_bytes()).expect("parse");
                    let k = v.as_cons().map(|c| c.iter().count()).unwrap_or(0);
                    std::mem::forget(v);
                    k
                } else {
                    let d = lexpr::datum::from_reader(t.as_bytes()).expect("parse");
                    let k = d.value().as_cons().map(|c| c.iter().count()).unwrap_or(0);
                    std::mem::forget(d);
                    k
                };
                return format!("ok {}", k - 1);
            }
            "serde-to_string" => {
                let v: Vec<u64> = (0..n).map(|i| (i % 10) as u64).collect();
                let s = serde_lexpr::to_string(&v).expect("to_string");
                return format!("ok {}", s.len());
            }
            _ => {}
        }
        let v = build(route, n, dotted);
        let digest: usize = match op {
            "build-only" => v.as_cons().map(|c| c.iter().count()).unwrap_or(0),
            "drop" => {
                drop(v);
                return "ok dropped".into();
            }
            "clone" => {
                let c = v.clone();
                let k = c.as_cons().map(|c| c.iter().count()).unwrap_or(0);
                std::mem::forget(c);
                k
            }
            "eq" => {
                let w = build(route, n, dotted);
                let same = v == w;
                std::mem::forget(w);
                if !same {
                    std::mem::forget(v);
                    return "err == returned false for equal lists".into();
                }
                1
            }
            "ne-everywhere" | "ne-alternate" | "ne-first" | "ne-last" | "ne-tail" | "ne-length" => {
                let w = build_other(op.strip_prefix("ne-").unwrap(), n, dotted);
                let same = v == w;
                let same2 = w == v;
                std::mem::forget(w);
                std::mem::forget(v);
                return if same || same2 { "err == returned true for different lists".into() } else { "ok 0".into() };
            }
            "to_string" => lexpr::to_string(&v).expect("print").len(),
            "to_vec-print" => lexpr::to_vec(&v).expect("print").len(),
            "to_writer" => {
                let mut sink = std::io::sink();
                lexpr::to_writer(&mut sink, &v).expect("print");
                1
            }
            "display" => format!("{}", v).len(),
            "value.to_vec" => v.to_vec().map(|x| x.len()).unwrap_or(usize::MAX),
            "value.to_ref_vec" => v.to_ref_vec().map(|x| x.len()).unwrap_or(usize::MAX),
            "cons.to_vec" => v.as_cons().unwrap().to_vec().0.len(),
            "cons.to_ref_vec" => v.as_cons().unwrap().to_ref_vec().0.len(),
            "cons.into_vec" => {
                return match v {
                    Value::Cons(c) => {
                        let (xs, t) = c.into_vec();
                        let k = xs.len();
                        std::mem::forget(xs);
                        std::mem::forget(t);
                        format!("ok {}", k)
                    }
                    _ => "err not a cons".into(),
                };
            }
            "iter-count" => v.as_cons().unwrap().iter().count(),
            "iter-collect" => v.as_cons().unwrap().iter().collect::<Vec<_>>().len(),
            "iter-filter-collect" => {
                let mut out: Vec<&lexpr::Cons> = Vec::new();
                out.extend(v.as_cons().unwrap().iter().filter(|_| true));
                out.len()
            }
            "iter-size_hint" => {
                let (lo, hi) = v.as_cons().unwrap().iter().size_hint();
                if lo > n || hi.map(|h| h < n).unwrap_or(false) {
                    usize::MAX
                } else {
                    n
                }
            }
            "iter-half" => v.as_cons().unwrap().iter().take(n / 2).count(),
            "list_iter-exhaust" => {
                let mut it = v.list_iter().unwrap();
                let mut k = 0;
                loop {
                    match it.next() {
                        Some(_) => k += 1,
                        None => {
                            if it.is_empty() {
                                break;
                            }
                        }
                    }
                }
                k
            }
            "list_iter-half" => v.list_iter().unwrap().take(n / 2).count(),
            "into_iter-exhaust" => {
                return match v {
                    Value::Cons(c) => format!("ok {}", c.into_iter().count()),
                    _ => "err not a cons".into(),
                };
            }
            "into_iter-half" => {
                return match v {
                    Value::Cons(c) => {
                        let mut it = c.into_iter();
                        let mut k = 0;
                        for _ in 0..n / 2 {
                            if it.next().is_some() {
                                k += 1;
                            }
                        }
                        drop(it);
                        format!("ok {}", k)
                    }
                    _ => "err not a cons".into(),
                };
            }
            "get-last" => v.get(n - 1).map(|_| 1).unwrap_or(0),
            "index-last" => (!v[n - 1].is_nil()) as usize,
            "get-usize-max" => v.get(usize::MAX).map(|_| 1).unwrap_or(0),
            "alist-miss-str" => v.get("missing").map(|_| 1).unwrap_or(0),
            "alist-miss-value" => v.get(Value::symbol("missing")).map(|_| 1).unwrap_or(0),
            "is_list" => v.is_list() as usize,
            "is_dotted_list" => v.is_dotted_list() as usize,
            other => return format!("err unknown op {}", other),
        };
        std::mem::forget(v);
        format!("ok {}", digest)
    });
    match r {
        Ok(s) => s,
        Err(p) => format!("panic {}", p),
    }
}

fn routes_for(op: &str) -> Vec<&'static str> {
    if op.starts_with("parse-") || op.starts_with("datum-") || op.starts_with("serde-") {
        vec!["text"]
    } else if op == "drop" || op == "clone" || op == "eq" {
        vec!["constructor", "cons-new", "parser", "serde", "uniform-nil", "uniform-null", "uniform-bool", "uniform-float", "uniform-char", "uniform-string", "uniform-symbol", "uniform-keyword", "uniform-bytes", "uniform-vector", "uniform-pair"]
    } else if op.starts_with("ne-") {
        vec!["constructor", "cons-new", "parser"]
    } else if op == "build-only" {
        vec!["constructor", "cons-new", "parser", "serde"]
    } else if op == "to_string" || op == "cons.into_vec" || op == "into_iter-half" || op == "list_iter-half" || op == "cons.to_vec" {
        vec!["constructor", "uniform-nil", "uniform-pair", "uniform-string"]
    } else {
        vec!["constructor"]
    }
}

fn quadratic(op: &str) -> bool {
    // datum parsing from str/slice recomputes the position from the start of the input
    op == "parse-str-datum"
}

pub fn replay(_sub: &str, case: &J, acc: &mut Acc) {
    let obs = run_children(&[case.clone()], 1, 120, "replay");
    judge(acc, 0, case, &obs[0]);
}

fn judge(acc: &mut Acc, rank: u64, c: &J, obs: &ChildObs) {
    acc.evals += 1;
    let op = c["op"].as_str().unwrap_or("");
    let w = format!("op={} shape={} route={} n={} stack={}KiB", op, c["shape"].as_str().unwrap_or(""), c["route"].as_str().unwrap_or(""), c["n"], c["stack"].as_u64().unwrap_or(0) / 1024);
    acc.outcome(&std::mem::discriminant(obs));
    match obs {
        ChildObs::Returned(s) if s.starts_with("ok") => {
            if c["n"].as_u64().unwrap_or(0) > 1000 {
                acc.nontrivial += 1;
            }
            // the operation's answer, where it is a function of n (C15's oracle at large n)
            let n = c["n"].as_u64().unwrap_or(0);
            let dotted = c["shape"].as_str() == Some("dotted");
            let expect: Option<u64> = match op {
                "build-only" | "clone" | "parse-str-value" | "parse-slice-value" | "parse-reader-value" | "parse-reader-datum" | "parse-str-datum" | "datum-clone" | "datum-tail-owned-drop" | "datum-compound-pairs" | "datum-compound-vectors" | "datum-into-value" | "serde-to_value" | "serde-from_value"
                | "serde-from_str" | "serde-ignored-any" | "serde-unknown-field" | "serde-unknown-field-str" | "serde-struct-field" | "serde-option-vec" | "serde-map-from_value" | "serde-map-to_value" | "serde-tuple-elements" | "serde-reject-as-string" | "serde-reject-as-bool" | "serde-reject-nested" | "iter-collect" | "iter-filter-collect" | "iter-size_hint" | "parse-dot-symbols-value" | "parse-dot-symbols-datum" | "cons.to_vec" | "cons.to_ref_vec" | "cons.into_vec" | "iter-count" | "into_iter-exhaust" => Some(n),
                "value.to_vec" | "value.to_ref_vec" => Some(n),
                // list_iter-exhaust continues past the first None and counts the tail of a dotted list;
                // the datum loop stops at the first None
                "list_iter-exhaust" => Some(if dotted { n + 1 } else { n }),
                "datum-list_iter" | "datum-ref-walk" => Some(n),
                "datum-tail-span" | "datum-span" => Some(1),
                "iter-half" | "list_iter-half" | "into_iter-half" => Some(n / 2),
                "get-last" | "index-last" | "eq" | "datum-eq" => Some(1),
                "get-usize-max" | "alist-miss-str" | "alist-miss-value" => Some(0),
                "is_list" => Some(!dotted as u64),
                "is_dotted_list" => Some(dotted as u64),
                _ => None,
            };
            if let (Some(want), Some(got)) = (expect, s.strip_prefix("ok ").and_then(|x| x.parse::<u64>().ok())) {
                if want != got {
                    acc.violation("operations", "wrong-answer", &format!("wrong-answer:{}", op), rank, w, format!("the operation answered {}, expected {}", got, want), || c.clone());
                }
            }
        }
        ChildObs::Returned(s) => acc.violation("operations", "operation-failed", &format!("operation-failed:{}", op), rank, w, s.clone(), || c.clone()),
        ChildObs::Panicked(p) => acc.violation("operations", "panic", &format!("panic:{}", op), rank, w, p.clone(), || c.clone()),
        ChildObs::Died(how) if how.contains("signal 9") => acc.count("inconclusive-killed"),
        ChildObs::Died(how) => acc.violation("operations", "stack-overflow", &format!("stack-overflow:{}", op), rank, w, format!("the process died ({}): stack use grows with the number of elements", how), || c.clone()),
        ChildObs::TimedOut(_) => acc.count("inconclusive-timeout"),
    }
}

pub fn run(ctx: &Ctx) -> Report {
    let mut rep = Report::new(ctx, "exploration");
    rep.assume("threshold argument: any per-element recursion needs at least 16 bytes of stack per element, and n*16 exceeds the thread's stack in every configuration, so an operation that completes has no per-element recursion; sub-linear growth would not be detected");
    rep.assume("values are leaked (mem::forget) after each operation so that only the operation under test — not drop — runs on the small stack; drop is an operation of its own");
    let thorough = ctx.tier.thorough();
    let mut cases: Vec<J> = Vec::new();
    let configs: Vec<(usize, usize)> = if thorough { vec![(2 << 20, 8), (2 << 20, 1 << 20), (2 << 20, 1 << 22)] } else { vec![(2 << 20, 8), (2 << 20, 1 << 20)] };
    for &(stack, n) in &configs {
        for op in OPS {
            for shape in ["proper", "dotted"] {
                if shape == "dotted" && (op.starts_with("serde-") || *op == "value.to_vec" || *op == "value.to_ref_vec") {
                    continue;
                }
                for route in routes_for(op) {
                    let (stack, n) = if quadratic(op) && n > 8 { (256 << 10, 1 << 15) } else { (stack, n) };
                    cases.push(json!({"kind": "listop", "op": op, "shape": shape, "route": route, "n": n, "stack": stack}));
                }
            }
        }
    }
    let sub = Sub::new(
        "operations",
        "every public operation that walks a list (parse from str/slice/reader as value and datum, print to String/Vec/writer/Display, the to_vec family, the three iterators exhausted and dropped half-way, positional and association indexing, is_list, clone, == (equal operands and operands differing everywhere / at alternate positions / first / last element / tail / length), drop; Datum clone/==/drop/list_iter/into Value; Serde to_value/from_value/from_str/to_string, and a long list skipped as an unknown field / IgnoredAny, as a struct field, in an Option, a map of n entries, n tuples) x {proper, dotted} x construction routes (Value::append, Cons::new chain, parser, Serde), each in a child process on a thread with the stated stack; a baseline at n = 8 shows the constant part fits; non-trivial = completed at n > 1000",
        &format!("{} cases; (stack, n) in {:?}; the O(n^2) datum-from-str parse at (256 KiB, 2^15)", cases.len(), configs),
    );
    // at most 8 children at a time (a 2^22-element list and its copy need several hundred MiB);
    // an observation that says nothing about the code (killed by the kernel for memory, no answer
    // in time on a loaded machine) is repeated alone with a long limit
    let obs = run_children_retry(&cases, ctx.threads.min(8), 180, 1200, "c16");
    let inconclusive: Vec<String> = cases.iter().zip(obs.iter()).filter(|(_, o)| o.inconclusive()).map(|(c, o)| format!("{} -> {}", c, o.short())).collect();
    if !inconclusive.is_empty() {
        // C16 is about stack use: an operation that is slow or is killed for memory decides nothing
        eprintln!("MACHINERY: {} case(s) gave no usable observation even when run alone: {}", inconclusive.len(), inconclusive.join(" ; "));
        std::process::exit(2);
    }
    let mut acc = Acc::new();
    for (i, (c, o)) in cases.iter().zip(obs.iter()).enumerate() {
        if i < 3 || i % (cases.len() / 8).max(1) == 0 {
            acc.samples.push((i as u64, format!("{} -> {}", c, o.short())));
        }
        judge(&mut acc, i as u64, c, o);
    }
    rep.absorb(sub, vec![acc]);
    rep
}
