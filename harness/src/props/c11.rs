//! C11 — source spans delimit exactly the text of each datum.

use crate::domains::{a12, actx, shapes, triv, PO, PR};
use crate::engine::choice::ChunkReader;
use crate::model::fold::fold;
use crate::model::pos::offset_of;
use crate::model::tokens::{layout, Layout, Node, NodeKind};
use crate::par::par_ranks;
use crate::props::c02::{allowed, mk_vals, Val};
use crate::report::{Acc, Ctx, Report, Sub};
use crate::roundtrip::cmp_roundtrip;
use crate::rv::{hex, show_bytes, unhex, RV};
use crate::util::{guard, trunc};
use lexpr::datum::{Datum, Ref};
use serde_json::{json, Value as J};
use std::io::BufReader;

type Sp = ((usize, usize), (usize, usize));

fn span_of(r: &Ref) -> Sp {
    let s = r.span();
    ((s.start().line(), s.start().column()), (s.end().line(), s.end().column()))
}

/// Flattened span tree: (path, span) in traversal order.
fn flatten(r: Ref, path: String, out: &mut Vec<(String, Sp)>) {
    out.push((path.clone(), span_of(&r)));
    if let Some(it) = r.vector_iter() {
        for (i, c) in it.enumerate() {
            flatten(c, format!("{}/v{}", path, i), out);
        }
    } else if r.value().is_cons() {
        if let Some(mut it) = r.list_iter() {
            let mut i = 0;
            loop {
                match it.next() {
                    Some(c) => {
                        flatten(c, format!("{}/{}", path, i), out);
                        i += 1;
                    }
                    None => {
                        if it.is_empty() {
                            break;
                        }
                    }
                }
                if i > 100_000 {
                    break;
                }
            }
        }
    }
}

struct Cx<'a> {
    acc: &'a mut Acc,
    sub: &'a str,
    rank: u64,
    input: &'a [u8],
    po: &'a PO,
    src: &'a str,
    fails: Vec<(String, String)>,
}

impl<'a> Cx<'a> {
    fn fail(&mut self, kind: &str, detail: String) {
        self.fails.push((kind.to_string(), detail));
    }
}

/// Generic clauses for one sub-datum; returns its byte range if it is well formed.
fn clauses(cx: &mut Cx, r: &Ref, path: &str, parent: Option<(usize, usize)>, prev_end: Option<usize>) -> Option<(usize, usize)> {
    let sp = span_of(r);
    let st = offset_of(cx.input, sp.0 .0, sp.0 .1);
    let en = offset_of(cx.input, sp.1 .0, sp.1 .1);
    let (st, en) = match (st, en) {
        (Some(s), Some(e)) => (s, e),
        _ => {
            cx.fail("span-outside-input", format!("{}: span {:?} does not lie inside the input", path, sp));
            return None;
        }
    };
    if st >= en {
        cx.fail("span-empty-or-inverted", format!("{}: span {:?} = bytes {}..{}", path, sp, st, en));
        return None;
    }
    if let Some((ps, pe)) = parent {
        if st < ps || en > pe {
            cx.fail("span-not-in-parent", format!("{}: bytes {}..{} not inside the parent's {}..{}", path, st, en, ps, pe));
        }
    }
    if let Some(pe) = prev_end {
        if st < pe {
            cx.fail("span-overlaps-sibling", format!("{}: starts at byte {} before the preceding sibling ends at {}", path, st, pe));
        }
    }
    // the covered text, parsed on its own, is the sub-datum's value
    let slice = &cx.input[st..en];
    // … except for the head of a quote shorthand, whose span covers just the shorthand characters
    let shorthand_head = match (slice, r.value().as_symbol()) {
        (b"'", Some("quote")) | (b"`", Some("quasiquote")) | (b",", Some("unquote")) | (b",@", Some("unquote-splicing")) => true,
        _ => false,
    };
    if shorthand_head {
        return Some((st, en));
    }
    let o = cx.po.to_lexpr();
    match guard(|| lexpr::from_slice_custom(slice, o)) {
        Ok(Ok(v)) => {
            if cmp_roundtrip(&RV::from_value(r.value()), &RV::from_value(&v)).is_err() {
                cx.fail("span-text-is-another-value", format!("{}: bytes {}..{} = {:?} parse to {}, the sub-datum is {}", path, st, en, show_bytes(slice), RV::from_value(&v), RV::from_value(r.value())));
            }
        }
        Ok(Err(e)) => cx.fail("span-text-does-not-parse", format!("{}: bytes {}..{} = {:?}: {}", path, st, en, show_bytes(slice), e)),
        Err(_) => {}
    }
    Some((st, en))
}

/// Walk the datum and the token-layout node tree in lockstep.
fn walk(cx: &mut Cx, r: Ref, node: &Node, ranges: &[(usize, usize)], path: String, parent: Option<(usize, usize)>, prev_end: Option<usize>, check_generic: bool) -> Option<usize> {
    let expected = (ranges[node.first].0, ranges[node.last].1);
    let got = if check_generic { clauses(cx, &r, &path, parent, prev_end) } else { offset_of(cx.input, span_of(&r).0 .0, span_of(&r).0 .1).zip(offset_of(cx.input, span_of(&r).1 .0, span_of(&r).1 .1)) };
    if let Some(g) = got {
        if g != expected {
            cx.fail("span-not-exact", format!("{}: span covers bytes {}..{} ({:?}), the datum's text is bytes {}..{} ({:?})", path, g.0, g.1, show_bytes(&cx.input[g.0.min(cx.input.len())..g.1.min(cx.input.len())]), expected.0, expected.1, show_bytes(&cx.input[expected.0..expected.1])));
        }
    } else if !check_generic {
        cx.fail("span-outside-input", format!("{}: span {:?}", path, span_of(&r)));
    }
    let here = got.or(Some(expected));
    match node.kind {
        NodeKind::Atom => {}
        NodeKind::Vector => {
            let mut prev = None;
            match r.vector_iter() {
                Some(it) => {
                    let kids: Vec<Ref> = it.collect();
                    if kids.len() != node.children.len() {
                        cx.fail("structure", format!("{}: vector_iter yields {} elements, expected {}", path, kids.len(), node.children.len()));
                        return here.map(|h| h.1);
                    }
                    for (i, (k, n)) in kids.into_iter().zip(node.children.iter()).enumerate() {
                        prev = walk(cx, k, n, ranges, format!("{}/v{}", path, i), here, prev, check_generic);
                    }
                }
                None => cx.fail("structure", format!("{}: vector_iter() is None for a vector", path)),
            }
        }
        NodeKind::List { .. } | NodeKind::Shorthand => {
            let mut prev = None;
            match r.list_iter() {
                Some(mut it) => {
                    let mut kids: Vec<Ref> = Vec::new();
                    loop {
                        match it.next() {
                            Some(c) => kids.push(c),
                            None => {
                                if it.is_empty() {
                                    break;
                                }
                            }
                        }
                        if kids.len() > node.children.len() + 2 {
                            break;
                        }
                    }
                    if kids.len() != node.children.len() {
                        cx.fail("structure", format!("{}: list_iter yields {} items, expected {}", path, kids.len(), node.children.len()));
                        return here.map(|h| h.1);
                    }
                    for (i, (k, n)) in kids.into_iter().zip(node.children.iter()).enumerate() {
                        prev = walk(cx, k, n, ranges, format!("{}/{}", path, i), here, prev, check_generic);
                    }
                }
                None => cx.fail("structure", format!("{}: list_iter() is None for a list", path)),
            }
        }
    }
    here.map(|h| h.1)
}

fn parse_datum(input: &[u8], po: &PO, src: &str) -> Result<Result<Datum, lexpr::parse::Error>, String> {
    let o = po.to_lexpr();
    guard(|| match src {
        "str" => lexpr::datum::from_str_custom(std::str::from_utf8(input).unwrap(), o),
        "slice" => lexpr::datum::from_slice_custom(input, o),
        "reader" => lexpr::datum::from_reader_custom(ChunkReader { data: input, pos: 0, chunk: 1 }, o),
        _ => lexpr::datum::from_reader_custom(BufReader::with_capacity(3, input), o),
    })
}

const SOURCES: [&str; 4] = ["str", "slice", "reader", "bufreader"];

/// One laid-out text: spans from every source.
fn check_layout(acc: &mut Acc, sub: &str, rank: u64, lay: &Layout, gaps: &[Vec<u8>], po: &PO, expected_value: &RV) {
    let (text, ranges) = lay.render(gaps);
    acc.evals += 1;
    acc.nontrivial += 1;
    let mut trees: Vec<(&str, Vec<(String, Sp)>)> = Vec::new();
    for src in SOURCES {
        if src == "str" && std::str::from_utf8(&text).is_err() {
            continue;
        }
        let d = match parse_datum(&text, po, src) {
            Ok(Ok(d)) => d,
            Ok(Err(e)) => {
                // readability of printed text is C01/C02/C12's business; only note it
                acc.count("layout-did-not-parse");
                let _ = e;
                return;
            }
            Err(_) => return,
        };
        if cmp_roundtrip(expected_value, &RV::from_value(d.value())).is_err() {
            acc.count("layout-parsed-to-another-value");
            return;
        }
        let mut cx = Cx { acc, sub, rank, input: &text, po, src, fails: Vec::new() };
        walk(&mut cx, d.as_ref(), &lay.root, &ranges, "root".into(), None, None, true);
        let fails = std::mem::take(&mut cx.fails);
        let mut seen = std::collections::HashSet::new();
        for (kind, detail) in fails {
            if !seen.insert(kind.clone()) {
                continue;
            }
            let (h, pi) = (hex(&text), po.index());
            acc.violation(sub, &kind, &format!("{}:{}", kind, if src == "str" || src == "slice" { "str/slice" } else { "reader" }), rank, format!("source={} text={:?} opts=[{}]", src, trunc(&show_bytes(&text), 120), po.describe()), detail, || json!({"input_hex": h, "po": pi}));
        }
        let mut flat = Vec::new();
        flatten(d.as_ref(), "root".into(), &mut flat);
        trees.push((src, flat));
    }
    // identical across sources
    if let Some((s0, t0)) = trees.first() {
        for (s, t) in &trees[1..] {
            if t != t0 {
                let diff = t0.iter().zip(t.iter()).find(|(a, b)| a != b).map(|(a, b)| format!("{}: {} has {:?}, {} has {:?}", a.0, s0, a.1, s, b.1)).unwrap_or_else(|| "different number of sub-datums".into());
                let (h, pi) = (hex(&text), po.index());
                acc.violation(sub, "sources-disagree", &format!("sources-disagree:{}", s), rank, format!("text={:?} opts=[{}]", trunc(&show_bytes(&text), 120), po.describe()), diff, || json!({"input_hex": h, "po": pi}));
            }
        }
        acc.outcome(&t0.len());
    }
}

/// Generic clauses only, for arbitrary accepted text (no token model): used on the corpus.
fn check_text_generic(acc: &mut Acc, sub: &str, rank: u64, text: &[u8], po: &PO) {
    acc.evals += 1;
    let mut trees: Vec<(&str, Vec<(String, Sp)>)> = Vec::new();
    for src in SOURCES {
        if src == "str" && std::str::from_utf8(text).is_err() {
            continue;
        }
        let d = match parse_datum(text, po, src) {
            Ok(Ok(d)) => d,
            _ => return,
        };
        if src == "slice" {
            acc.nontrivial += 1;
        }
        let mut cx = Cx { acc, sub, rank, input: text, po, src, fails: Vec::new() };
        generic_walk(&mut cx, d.as_ref(), "root".into(), None, None);
        let fails = std::mem::take(&mut cx.fails);
        let mut seen = std::collections::HashSet::new();
        for (kind, detail) in fails {
            if !seen.insert(kind.clone()) {
                continue;
            }
            let (h, pi) = (hex(text), po.index());
            acc.violation(sub, &kind, &format!("{}:{}", kind, if src == "str" || src == "slice" { "str/slice" } else { "reader" }), rank, format!("source={} text={:?} opts=[{}]", src, trunc(&show_bytes(text), 120), po.describe()), detail, || json!({"input_hex": h, "po": pi}));
        }
        let mut flat = Vec::new();
        flatten(d.as_ref(), "root".into(), &mut flat);
        // the spans reported by a copy of the datum (clone, owned copy of the root reference) are
        // the spans of the datum
        if src == "slice" {
            let copies: [(&'static str, lexpr::datum::Datum); 2] = [("clone", d.clone()), ("owned-from-ref", lexpr::datum::Datum::from(d.as_ref()))];
            for (cname, c) in copies {
                let mut cf = Vec::new();
                flatten(c.as_ref(), "root".into(), &mut cf);
                trees.push((cname, cf));
            }
        }
        trees.push((src, flat));
    }
    if let Some((s0, t0)) = trees.first() {
        for (s, t) in &trees[1..] {
            if t != t0 {
                let diff = t0.iter().zip(t.iter()).find(|(a, b)| a != b).map(|(a, b)| format!("{}: {} has {:?}, {} has {:?}", a.0, s0, a.1, s, b.1)).unwrap_or_else(|| "different number of sub-datums".into());
                let (h, pi) = (hex(text), po.index());
                acc.violation(sub, "sources-disagree", &format!("sources-disagree:{}", s), rank, format!("text={:?} opts=[{}]", trunc(&show_bytes(text), 120), po.describe()), diff, || json!({"input_hex": h, "po": pi}));
            }
        }
        acc.outcome(&t0.len());
    }
}

fn generic_walk(cx: &mut Cx, r: Ref, path: String, parent: Option<(usize, usize)>, prev_end: Option<usize>) -> Option<usize> {
    let here = clauses(cx, &r, &path, parent, prev_end);
    let mut prev = None;
    if let Some(it) = r.vector_iter() {
        for (i, c) in it.enumerate() {
            prev = generic_walk(cx, c, format!("{}/v{}", path, i), here, prev);
        }
    } else if r.value().is_cons() {
        // quote shorthand: the head's span covers just the shorthand characters
        if let Some(mut it) = r.list_iter() {
            let mut i = 0;
            loop {
                match it.next() {
                    Some(c) => {
                        prev = generic_walk(cx, c, format!("{}/{}", path, i), here, prev);
                        i += 1;
                    }
                    None => {
                        if it.is_empty() {
                            break;
                        }
                    }
                }
                if i > 10_000 {
                    break;
                }
            }
        }
    }
    here.map(|h| h.1)
}

/// Spans from a stream that fails once (a transient error of a kind the caller retries, at a
/// datum boundary) and is read on: where the run yields the same values as the fault-free run,
/// it reports the same spans (positions count bytes of the input, not calls of the reader).
fn check_flaky_stream(acc: &mut Acc, rank: u64, text: &[u8], po: &PO) {
    use crate::engine::choice::FaultReader;
    let o = po.to_lexpr();
    let run = |fail_at: Option<usize>| -> Option<Vec<(String, Vec<(String, Sp)>)>> {
        let reader = FaultReader { data: text, pos: 0, chunk: 1, fail_at: fail_at.unwrap_or(usize::MAX), sticky: false, fired: 0, payload: 3 };
        let r = guard(std::panic::AssertUnwindSafe(move || {
            let mut p = lexpr::parse::Parser::from_reader_custom(reader, o);
            let mut out = Vec::new();
            let mut errors = 0;
            for _ in 0..(text.len() + 4) {
                match p.next_datum() {
                    Ok(Some(d)) => {
                        let mut flat = Vec::new();
                        flatten(d.as_ref(), "root".into(), &mut flat);
                        out.push((RV::from_value(d.value()).to_string(), flat));
                    }
                    Ok(None) => return Some(out),
                    Err(e) => {
                        // retry after the I/O error; anything else ends the comparison
                        if e.classify() != lexpr::parse::error::Category::Io {
                            return None;
                        }
                        errors += 1;
                        if errors > 2 {
                            return None;
                        }
                    }
                }
            }
            None
        }));
        r.ok().flatten()
    };
    let base = match run(None) {
        Some(b) if !b.is_empty() => b,
        _ => return,
    };
    acc.nontrivial += 1;
    for k in 0..=text.len() {
        acc.evals += 1;
        if let Some(got) = run(Some(k)) {
            // only runs in which the fault did not cost a token
            let same_values = got.len() == base.len() && got.iter().zip(base.iter()).all(|(a, b)| a.0 == b.0);
            if !same_values {
                continue;
            }
            acc.outcome(&(got.len(), k.min(3)));
            if got != base {
                let diff = got.iter().zip(base.iter()).flat_map(|(a, b)| a.1.iter().zip(b.1.iter())).find(|(x, y)| x != y).map(|(x, y)| format!("{}: {:?} after the transient error, {:?} without it", x.0, x.1, y.1)).unwrap_or_default();
                let (h, pi) = (hex(text), po.index());
                acc.violation("flaky-stream", "spans-shift-after-transient-error", "spans-shift-after-transient-error", rank, format!("text={:?} opts=[{}] transient read error before byte {}", show_bytes(text), po.describe(), k), diff, || json!({"flaky_hex": h, "po": pi}));
                return;
            }
        }
    }
}

pub fn replay(sub: &str, case: &J, acc: &mut Acc) {
    if let Some(h) = case["flaky_hex"].as_str() {
        check_flaky_stream(acc, 0, &unhex(h), &PO::from_index(case["po"].as_u64().unwrap_or(0)));
        return;
    }
    let input = unhex(case["input_hex"].as_str().unwrap_or(""));
    let po = PO::from_index(case["po"].as_u64().unwrap_or(0));
    // without the token model only the generic clauses and the cross-source equality can be replayed
    check_text_generic(acc, sub, 0, &input, &po);
    // exact spans: re-derive the layout when the text is a default-layout print of its own value
    if let Ok(Ok(d)) = parse_datum(&input, &po, "slice") {
        let v = RV::from_value(d.value());
        for sh in [false, true] {
            let pr = if po == PO::elisp() { Some(PR::elisp()) } else { None };
            if let Some(lay) = layout(&v, pr.as_ref(), sh) {
                // find gaps that reproduce the text: try to align tokens greedily
                let mut gaps: Vec<Vec<u8>> = Vec::new();
                let mut pos = 0usize;
                let mut ok = true;
                for t in &lay.toks {
                    match find(&input[pos..], &t.text) {
                        Some(off) => {
                            gaps.push(input[pos..pos + off].to_vec());
                            pos += off + t.text.len();
                        }
                        None => {
                            ok = false;
                            break;
                        }
                    }
                }
                if ok {
                    gaps.push(input[pos..].to_vec());
                    if lay.render(&gaps).0 == input {
                        check_layout(acc, sub, 0, &lay, &gaps, &po, &v);
                        return;
                    }
                }
            }
        }
    }
}

fn find(hay: &[u8], needle: &[u8]) -> Option<usize> {
    if needle.is_empty() {
        return Some(0);
    }
    hay.windows(needle.len()).position(|w| w == needle)
}

pub fn run(ctx: &Ctx) -> Report {
    let mut rep = Report::new(ctx, "exploration");
    rep.assume("positions: 1-based lines split at LF, 0-based byte columns, start inclusive, end exclusive; the sub-datums are those reachable through the list and vector iterators");
    rep.assume("expected spans come from the token layout model: a sub-datum's text runs from the first byte of its first token to the last byte of its last token");
    let thorough = ctx.tier.thorough();
    let tr = triv();

    for (dname, pr, prm, po) in [("default", None, PR::default_(), PO::default_()), ("elisp", Some(PR::elisp()), PR::elisp(), PO::elisp())] {
        let name = format!("layouts-{}", dname);
        if !ctx.want(&name) {
            continue;
        }
        let mut base: Vec<RV> = actx();
        let atoms = a12();
        let ax = actx();
        for s in shapes(2, 2) {
            for a in &ax {
                base.push(s.build(&mut vec![a.clone(), RV::sym("z")].into_iter()));
                base.push(s.build(&mut vec![RV::str("λ€"), a.clone()].into_iter()));
            }
        }
        for s in shapes(2, 2) {
            for a in atoms.iter().take(if thorough { 0 } else { 6 }) {
                base.push(s.build(&mut vec![a.clone(), RV::Char('λ')].into_iter()));
            }
        }
        for s in shapes(3, if thorough { 3 } else { 2 }).into_iter().enumerate().filter(|(i, _)| thorough || i % 3 == 0).map(|(_, s)| s) {
            for (i, a) in atoms.iter().enumerate() {
                base.push(s.build(&mut vec![a.clone(), atoms[(i + 5) % 12].clone(), atoms[(i + 7) % 12].clone()].into_iter()));
            }
        }
        for a in &atoms {
            for q in ["quote", "quasiquote", "unquote", "unquote-splicing"] {
                base.push(RV::list(vec![RV::sym(q), a.clone()]));
                base.push(RV::list(vec![RV::sym("f"), RV::list(vec![RV::sym(q), RV::list(vec![a.clone(), RV::sym("λ")])])]));
                base.push(RV::Vector(vec![RV::list(vec![RV::sym(q), RV::list(vec![RV::sym(q), a.clone()])])]));
            }
        }
        // values that fold under this dialect change their structure on the way back (a dotted
        // tail that reads as the empty list): the token model does not apply to them
        let vals: Vec<Val> = mk_vals(base).into_iter().filter(|v| allowed(v, &prm, &po) && fold(&prm, &po, &v.m) == v.m).collect();
        // quick: a representative third of the trivia strings in the single-gap layouts
        let tr_used: Vec<Vec<u8>> = if thorough { tr.clone() } else { tr.iter().enumerate().filter(|(i, _)| *i < 7 || i % 4 == 0 || *i >= tr.len() - 2).map(|(_, t)| t.clone()).collect() };
        let sub = Sub::new(
            &name,
            "every value (context atoms; two-leaf shapes with each context atom first and last, next to a non-ASCII string; three-leaf shapes; quote shorthands spelled ' ` , ,@, nested) laid out as tokens with trivia in the gaps: the printer's layout, every single gap replaced by every trivia string (incl. LF, CR LF-like pairs, FF, comments, a non-ASCII comment line before the datum), pairs of gaps, all gaps; datum parsed from str, slice, 1-byte reader and BufReader(3); for the datum and every sub-datum reachable through list_iter / vector_iter: span inside the input, non-empty, inside the parent, after the preceding sibling, covered text re-parses to the sub-datum's value, span == exactly the datum's tokens (shorthand head = the shorthand characters), identical span tree from all sources; non-trivial = every layout",
            &format!("{} values x 2 spellings x (1 + gaps x {} + pairs x 4 + 4) layouts x 4 sources", vals.len(), tr_used.len()),
        );
        let accs = par_ranks(vals.len() as u64 * 2, |rank, acc| {
            let v = &vals[(rank / 2) as usize];
            let shorthand = rank % 2 == 1;
            let lay = match layout(&v.m, pr.as_ref(), shorthand) {
                Some(l) => l,
                None => return,
            };
            let expected = fold(&prm, &po, &v.m);
            let base_gaps = lay.default_gaps();
            acc.sample(rank, || format!("{:?}", show_bytes(&lay.render(&base_gaps).0)));
            check_layout(acc, &name, rank, &lay, &base_gaps, &po, &expected);
            let ng = base_gaps.len();
            for g in 0..ng {
                for t in &tr_used {
                    if !lay.gap_allows(g, t) || *t == base_gaps[g] {
                        continue;
                    }
                    let mut gaps = base_gaps.clone();
                    gaps[g] = t.clone();
                    check_layout(acc, &name, rank, &lay, &gaps, &po, &expected);
                }
            }
            let reps: [&[u8]; 4] = [b"\n", b" ;\xce\xbb\n ", b"\r\n\t", b"\x0c"];
            for g1 in 0..ng {
                for g2 in (g1 + 1)..ng {
                    for t in reps {
                        let mut gaps = base_gaps.clone();
                        gaps[g1] = t.to_vec();
                        gaps[g2] = t.to_vec();
                        check_layout(acc, &name, rank, &lay, &gaps, &po, &expected);
                    }
                }
            }
            for t in reps {
                let gaps: Vec<Vec<u8>> = (0..ng).map(|_| t.to_vec()).collect();
                check_layout(acc, &name, rank, &lay, &gaps, &po, &expected);
            }
        });
        rep.absorb(sub, accs);
    }
    if ctx.want("flaky-stream") {
        let texts: Vec<&str> = vec!["(a b) c\n(d)", "a b\n c", " (a\n b)\n'x ; c\n(y . z)", "#(1 2)\n\"s\" #\\a", "λ (λ)\n[a]", "a"];
        let two = [PO::default_(), PO::elisp()];
        let sub = Sub::new("flaky-stream", "multi-datum texts read with next_datum from a stream that fails once with a transient error before byte k (every k) and is read on by the caller: whenever the run yields the same values as the fault-free run it reports the same spans", &format!("{} texts x 2 option sets x every offset", texts.len()));
        let accs = par_ranks(texts.len() as u64 * 2, |rank, acc| {
            let t = texts[(rank / 2) as usize].as_bytes();
            acc.sample(rank, || format!("{:?}", show_bytes(t)));
            check_flaky_stream(acc, rank, t, &two[(rank % 2) as usize]);
        });
        rep.absorb(sub, accs);
    }
    if ctx.want("corpus-generic") {
        let corpus = crate::corpus::corpus_all(thorough);
        let opts = [PO::default_(), PO::elisp(), PO::all_on()];
        let sub = Sub::new("corpus-generic", "every corpus text that parses (alternative spellings: radix literals, escapes, character names, bracket lists, dotted proper lists, adjacent delimiters, multi-line layouts) under default / elisp / all-on options: the generic span clauses for every sub-datum and identical span trees from str, slice, reader, BufReader", &format!("{} texts x 3 option sets x 4 sources", corpus.len()));
        let accs = par_ranks(corpus.len() as u64 * 3, |rank, acc| {
            let t = &corpus[(rank / 3) as usize];
            acc.sample(rank, || format!("{:?}", trunc(&show_bytes(t), 60)));
            check_text_generic(acc, "corpus-generic", rank, t, &opts[(rank % 3) as usize]);
        });
        rep.absorb(sub, accs);
    }
    if ctx.want("alphabet-generic") {
        use crate::domains::SIGMA;
        use crate::par::{count_upto, unrank_string};
        let k = if thorough { 5 } else { 4 };
        let n = count_upto(SIGMA.len() as u64, k);
        let two = [PO::default_(), PO::elisp()];
        let sub = Sub::new("alphabet-generic", "every string of length <= k over the token alphabet that parses as a datum x {default, elisp}: generic span clauses and cross-source equality", &format!("k = {}: {} strings x 2", k, n));
        let accs = par_ranks(n * 2, |rank, acc| {
            let mut buf = Vec::new();
            let mut idx = Vec::new();
            unrank_string(rank / 2, SIGMA, &mut buf, &mut idx);
            acc.sample(rank, || format!("{:?}", show_bytes(&buf)));
            check_text_generic(acc, "alphabet-generic", rank, &buf, &two[(rank % 2) as usize]);
        });
        rep.absorb(sub, accs);
    }
    rep
}
