//! C02 — round trip for every consistent printer/parser pairing, modulo the documented fold.

use crate::domains::{a12, actx, compat, shapes, str_domain, PO, PR, N_PO, N_PR};
use crate::model::fold::fold;
use crate::model::reader::{plain_keyword, plain_symbol, read_one, RR};
use crate::par::par_ranks;
use crate::report::{Acc, Ctx, Report, Sub};
use crate::roundtrip::{cmp_roundtrip, matches_original};
use crate::rv::RV;
use crate::util::{guard, trunc};
use serde_json::{json, Value as J};

fn names_of(m: &RV, syms: &mut Vec<String>, kws: &mut Vec<String>) {
    match m {
        RV::Sym(s) => syms.push(s.clone()),
        RV::Kw(s) => kws.push(s.clone()),
        RV::Cons(a, d) => {
            names_of(a, syms, kws);
            names_of(d, syms, kws);
        }
        RV::Vector(xs) => xs.iter().for_each(|x| names_of(x, syms, kws)),
        _ => {}
    }
}

pub struct Val {
    pub m: RV,
    pub syms: Vec<String>,
    pub kws: Vec<String>,
}

pub fn mk_vals(ms: Vec<RV>) -> Vec<Val> {
    ms.into_iter()
        .map(|m| {
            let (mut s, mut k) = (Vec::new(), Vec::new());
            names_of(&m, &mut s, &mut k);
            s.sort();
            s.dedup();
            k.sort();
            k.dedup();
            Val { m, syms: s, kws: k }
        })
        .collect()
}

/// Names plain in the dialect of (p, r)?
pub fn allowed(v: &Val, p: &PR, r: &PO) -> bool {
    v.syms.iter().all(|n| plain_symbol(n, r)) && v.kws.iter().all(|n| plain_keyword(n, p.kw, r))
}

fn pair_class(p: &PR, r: &PO) -> String {
    format!("p[{}] r[{}]", p.describe(), r.describe())
}

/// One (printer options, parser options, value) cell.
pub fn check_cell(acc: &mut Acc, sub: &str, rank: u64, p: &PR, r: &PO, m: &RV, independent: bool) {
    acc.evals += 1;
    let expected = fold(p, r, m);
    let v = m.to_value();
    let case = || json!({"pr": p.index(), "po": r.index(), "value": m.to_string()});
    let w = || format!("value={} printer=[{}] parser=[{}]", trunc(&m.to_string(), 200), p.describe(), r.describe());
    let kindcls = |k: &str| {
        // class: failure kind + the option values that matter most + value kind
        let vk = match m {
            RV::Cons(_, _) => "list",
            RV::Vector(_) => "vector",
            RV::Bytes(_) => "bytes",
            RV::Kw(_) => "keyword",
            RV::Sym(_) => "symbol",
            RV::Char(_) => "char",
            RV::Str(_) => "string",
            RV::Float(_) => "float",
            _ => "other",
        };
        format!("{}:{}:vec={} bytes={} kw={}", k, vk, p.vector, p.bytes, p.kw)
    };
    let text = match guard(|| lexpr::print::to_string_custom(&v, p.to_lexpr())) {
        Ok(Ok(t)) => t,
        Ok(Err(e)) => {
            acc.violation(sub, "print-failed", &kindcls("print-failed"), rank, w(), e.to_string(), case);
            return;
        }
        Err(pn) => {
            acc.violation(sub, "print-panic", &kindcls("print-panic"), rank, w(), pn, case);
            return;
        }
    };
    if expected != *m {
        acc.count("folded");
    }
    for (src, parsed) in [("from_str_custom", guard(|| lexpr::from_str_custom(&text, r.to_lexpr()))), ("from_reader_custom", guard(|| lexpr::from_reader_custom(text.as_bytes(), r.to_lexpr())))] {
        match parsed {
            Err(pn) => acc.violation(sub, "parse-panic", &kindcls("parse-panic"), rank, w(), format!("{}: text {:?}: {}", src, trunc(&text, 200), pn), case),
            Ok(Err(e)) => acc.violation(sub, "not-readable", &kindcls("not-readable"), rank, w(), format!("{} rejects the printed text {:?}: {}", src, trunc(&text, 200), e), case),
            Ok(Ok(g)) => {
                if let Err(e) = cmp_roundtrip(&expected, &RV::from_value(&g)) {
                    acc.violation(sub, "round-trip-differs", &kindcls("round-trip-differs"), rank, w(), format!("{}: text {:?}; expected (after fold) {}: {}", src, trunc(&text, 200), trunc(&expected.to_string(), 200), e), case);
                }
            }
        }
    }
    if independent {
        match read_one(text.as_bytes(), r) {
            RR::Value(mm) => {
                if let Err(e) = matches_original(&mm, &expected) {
                    acc.violation(sub, "independent-reader-differs", &kindcls("independent-reader-differs"), rank, w(), format!("text {:?}: {}", trunc(&text, 200), e), case);
                }
            }
            RR::Error => acc.violation(sub, "independent-reader-rejects", &kindcls("independent-reader-rejects"), rank, w(), format!("the printed text {:?} is not in the documented grammar of this dialect", trunc(&text, 200)), case),
            RR::Unspecified => acc.violation(sub, "outside-documented-grammar", &kindcls("outside-documented-grammar"), rank, w(), format!("the printed text {:?} uses syntax the documentation does not define", trunc(&text, 200)), case),
        }
    } else {
        // for the other pairings the reference reader only contributes a count
        match read_one(text.as_bytes(), r) {
            RR::Value(mm) => {
                if matches_original(&mm, &expected).is_ok() {
                    acc.count("reference-reader-agrees");
                } else {
                    acc.count("reference-reader-differs-uncounted");
                }
            }
            RR::Error => acc.count("reference-reader-rejects-uncounted"),
            RR::Unspecified => acc.count("reference-reader-unspecified"),
        }
    }
    let _ = pair_class;
}

pub fn all_pairs() -> Vec<(PR, PO)> {
    let mut v = Vec::new();
    for pi in 0..N_PR {
        let p = PR::from_index(pi);
        for ri in 0..N_PO {
            let r = PO::from_index(ri);
            if compat(&p, &r) {
                v.push((p, r));
            }
        }
    }
    v
}

fn small_values(thorough: bool) -> Vec<RV> {
    let mut v = actx();
    // names that matter for dialect plainness
    for s in ["?a", ":a", "a:", "a1", "1a", "nil", "t", "λ-1", "<=", "+", "-", "...", "+.a", "-a"] {
        v.push(RV::sym(s));
    }
    for s in ["?k", "k:", ":k", "nil", "t", "-", "λ-1", "$x", "<="] {
        v.push(RV::kw(s));
    }
    v.push(RV::Bytes(vec![1, 2]));
    // dialect-sensitive and peculiar names, as symbol and as keyword, in every syntactic position
    // (seed C02-c: a dot-initial postfix keyword is misread in list position only)
    let mut positioned = Vec::new();
    for n in [".a", "..", "+.a", "-.", "-", "+", "...", "-a", "+a", "λ", "a.b", "a", "nil", "t", "a1", "?a"] {
        positioned.extend(crate::domains::in_positions(&RV::sym(n)));
        positioned.extend(crate::domains::in_positions(&RV::kw(n)));
    }
    v.extend(positioned);
    let atoms = if thorough { actx() } else { a12() };
    let mut extra = atoms.clone();
    extra.push(RV::Nil);
    extra.push(RV::Bool(true));
    extra.push(RV::Bytes(vec![]));
    extra.push(RV::sym("-"));
    // (thorough: all context atoms in the flat two-leaf shapes; nested two-leaf shapes over A12)
    for s in shapes(2, 1) {
        for a in &extra {
            for b in &extra {
                v.push(s.build(&mut vec![a.clone(), b.clone()].into_iter()));
            }
        }
    }
    if thorough {
        let a12v = a12();
        for s in shapes(2, 2) {
            for x in &a12v {
                for y in &a12v {
                    v.push(s.build(&mut vec![x.clone(), y.clone()].into_iter()));
                }
            }
        }
        let a = crate::domains::a5();
        for s in shapes(3, 2) {
            for x in &a {
                for y in &a {
                    for z in &a {
                        v.push(s.build(&mut vec![x.clone(), y.clone(), z.clone()].into_iter()));
                    }
                }
            }
        }
    }
    v
}

fn dialect_values(thorough: bool) -> Vec<RV> {
    let mut v = crate::props::c01::v_domain(thorough);
    // long values with many small compound siblings (what the parser keeps per construct must be
    // given back between siblings, in every dialect)
    v.extend(crate::props::c01::long_values());
    for s in str_domain(3) {
        v.push(RV::Str(s));
    }
    for b in 0..=255u8 {
        v.push(RV::Bytes(vec![b]));
        v.push(RV::Bytes(vec![b, 255 - b]));
    }
    v.push(RV::Bytes(vec![]));
    // every ordered pair over boundary octets, digits included (an escaped octet followed by a
    // digit: octal escapes are greedy)
    let oct = [0u8, 1, 7, 8, 27, 31, 32, 34, 48, 53, 55, 56, 57, 92, 97, 127, 128, 255];
    for a in oct {
        for b in oct {
            v.push(RV::Bytes(vec![a, b]));
            v.push(RV::Bytes(vec![a, b, a]));
        }
    }
    for c in crate::domains::name_candidates(2) {
        v.push(RV::Sym(c.clone()));
        v.push(RV::Kw(c));
    }
    v
}

fn check_presets(acc: &mut Acc, rank: u64, v: &Val) {
    let (p, r) = (PR::elisp(), PO::elisp());
    acc.evals += 1;
    let val = v.m.to_value();
    let case = || json!({"pr": p.index(), "po": r.index(), "value": v.m.to_string()});
    let w = || format!("value={}", trunc(&v.m.to_string(), 200));
    for (name, preset, explicit) in [("print::Options::elisp()", lexpr::print::Options::elisp(), p.to_lexpr()), ("print::Options::default()", lexpr::print::Options::default(), PR::default_().to_lexpr())] {
        let a = guard(|| lexpr::print::to_string_custom(&val, preset).ok()).ok().flatten();
        let b = guard(|| lexpr::print::to_string_custom(&val, explicit).ok()).ok().flatten();
        if a != b {
            acc.violation("presets", "printer-preset-differs", &format!("printer-preset-differs:{}", name), rank, w(), format!("{} prints {:?}, the documented option set prints {:?}", name, a, b), case);
        }
    }
    if !allowed(v, &p, &r) {
        acc.count("skipped-name-not-plain-in-dialect");
        return;
    }
    acc.nontrivial += 1;
    if rank % 53 == 0 {
        acc.outcome(&v.m.nodes());
    }
    acc.sample(rank, || v.m.to_string());
    let text = match guard(|| lexpr::print::to_string_custom(&val, lexpr::print::Options::elisp()).ok()).ok().flatten() {
        Some(t) => t,
        None => return, // reported by the dialect-elisp sub-check
    };
    let want = fold(&p, &r, &v.m);
    for (name, got) in [("from_str_custom(parse::Options::elisp())", guard(|| lexpr::from_str_custom(&text, lexpr::parse::Options::elisp()))), ("from_str_elisp", guard(|| lexpr::parse::from_str_elisp(&text)))] {
        match got {
            Ok(Ok(g)) => {
                if let Err(e) = crate::roundtrip::cmp_roundtrip(&want, &RV::from_value(&g)) {
                    acc.violation("presets", "preset-round-trip-differs", &format!("preset-round-trip-differs:{}", name), rank, w(), format!("{} of {:?}: {}", name, trunc(&text, 200), e), case);
                }
            }
            Ok(Err(e)) => acc.violation("presets", "preset-not-readable", &format!("preset-not-readable:{}", name), rank, w(), format!("{} rejects {:?}: {}", name, trunc(&text, 200), e), case),
            Err(pn) => acc.violation("presets", "panic", "panic", rank, w(), pn, case),
        }
    }
}

pub fn replay(sub: &str, case: &J, acc: &mut Acc) {
    let p = PR::from_index(case["pr"].as_u64().unwrap_or(0));
    let r = PO::from_index(case["po"].as_u64().unwrap_or(0));
    if let Some(cp) = case["scalar"].as_u64() {
        if let Some(c) = char::from_u32(cp as u32) {
            check_cell(acc, sub, 0, &p, &r, &RV::Char(c), true);
            check_cell(acc, sub, 0, &p, &r, &RV::Str(c.to_string()), true);
        }
        return;
    }
    let want = case["value"].as_str().unwrap_or("");
    let mut dom = small_values(true);
    dom.extend(dialect_values(true));
    if sub == "presets" {
        if let Some(m) = dom.iter().find(|m| m.to_string() == want) {
            let vs = mk_vals(vec![m.clone()]);
            check_presets(acc, 0, &vs[0]);
        }
        return;
    }
    match dom.iter().find(|m| m.to_string() == want) {
        Some(m) => check_cell(acc, sub, 0, &p, &r, m, sub.starts_with("dialect")),
        None => eprintln!("replay: value not found in the domain"),
    }
}

pub fn run(ctx: &Ctx) -> Report {
    let mut rep = Report::new(ctx, "exploration");
    rep.assume("COMPAT(p, r) and fold(p, r, v) transcribe the statement's parenthesis (DESIGN Appendix B); names are restricted to identifiers plain in the dialect of each pairing");
    let thorough = ctx.tier.thorough();

    if ctx.want("all-pairs") {
        let pairs = all_pairs();
        let vals = mk_vals(small_values(thorough));
        let nv = vals.len() as u64;
        let sub = Sub::new(
            "all-pairs",
            "every printer option set (576) x every compatible parser option set: from_str_custom(to_string_custom(v, p), r) == fold(p, r, v) for the context atoms, dialect-sensitive names and every two-leaf shape (thorough: flat two-leaf shapes over all context atoms, nested two-leaf shapes over A12, three-leaf shapes over 5 atoms); values whose names are not plain in the pairing are skipped (counted); non-trivial = the value was checked and either folds or is compound",
            &format!("{} pairings x {} values", pairs.len(), nv),
        );
        let accs = par_ranks(pairs.len() as u64, |rank, acc| {
            let (p, r) = &pairs[rank as usize];
            acc.sample(rank, || pair_class(p, r));
            acc.outcome(&(p.index(), r.index() % 7));
            for v in &vals {
                if !allowed(v, p, r) {
                    acc.count("skipped-name-not-plain-in-dialect");
                    continue;
                }
                if !v.m.is_atom() || fold(p, r, &v.m) != v.m {
                    acc.nontrivial += 1;
                }
                check_cell(acc, "all-pairs", rank, p, r, &v.m, false);
            }
        });
        rep.absorb(sub, accs);
    }
    for (name, p, r) in [("dialect-elisp", PR::elisp(), PO::elisp()), ("dialect-default", PR::default_(), PO::default_())] {
        if !ctx.want(name) {
            continue;
        }
        let vals = mk_vals(dialect_values(thorough));
        let sub = Sub::new(
            name,
            "the documented dialect pairing on the whole value domain V, all strings <= 3 over the trouble alphabet, all one- and two-octet byte vectors, all names <= 2, with the independent reader of that dialect reading the printed text (violation-level); non-trivial = checked and compound or folding",
            &format!("{} values", vals.len()),
        );
        let accs = par_ranks(vals.len() as u64, |rank, acc| {
            let v = &vals[rank as usize];
            if !allowed(v, &p, &r) {
                acc.evals += 1;
                acc.count("skipped-name-not-plain-in-dialect");
                return;
            }
            if !v.m.is_atom() || fold(&p, &r, &v.m) != v.m {
                acc.nontrivial += 1;
            }
            if rank % 53 == 0 {
                acc.outcome(&v.m.nodes());
            }
            acc.sample(rank, || v.m.to_string());
            check_cell(acc, name, rank, &p, &r, &v.m, true);
        });
        rep.absorb(sub, accs);
    }
    if ctx.want("presets") {
        // the statement's "in particular": the Emacs Lisp presets themselves, not only option sets
        // that the harness builds field by field
        let vals = mk_vals(dialect_values(thorough));
        let (p, r) = (PR::elisp(), PO::elisp());
        let sub = Sub::new(
            "presets",
            "print::Options::elisp() prints every value of the dialect domain exactly like the documented Emacs Lisp option set built field by field (and print::Options::default() like the documented default set), and the printed text read with parse::Options::elisp() (and from_str_elisp) equals the fold of the value; non-trivial = every checked value",
            &format!("{} values", vals.len()),
        );
        let accs = par_ranks(vals.len() as u64, |rank, acc| {
            check_presets(acc, rank, &vals[rank as usize]);
        });
        rep.absorb(sub, accs);
    }
    if ctx.want("elisp-scalars") {
        let (p, r) = (PR::elisp(), PO::elisp());
        let n: u64 = 0x110000 - 0x800;
        let sub = Sub::new("elisp-scalars", "every Unicode scalar value as a character (?c syntax) and as a one-character string under the Emacs Lisp pairing, with the independent Emacs reader", "1 112 064 scalars x 2 kinds");
        let accs = par_ranks(n, |rank, acc| {
            let cp = if rank < 0xD800 { rank } else { rank + 0x800 } as u32;
            let c = char::from_u32(cp).unwrap();
            acc.nontrivial += 2;
            if rank % 8192 == 0 {
                acc.outcome(&(cp >> 8));
            }
            acc.sample(rank, || format!("U+{:04X}", cp));
            for m in [RV::Char(c), RV::Str(c.to_string())] {
                // inline variant of check_cell with a scalar-based replay case
                let before = acc.viols.len();
                check_cell(acc, "elisp-scalars", rank, &p, &r, &m, true);
                for v in acc.viols[before..].iter_mut() {
                    v.case = json!({"pr": p.index(), "po": r.index(), "scalar": cp});
                }
            }
        });
        rep.absorb(sub, accs);
    }
    rep
}
