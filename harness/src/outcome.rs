//! Normalised observations of the parse APIs.

use crate::engine::choice::Payload;
use crate::rv::RV;
use crate::util::guard;
use lexpr::parse::error::Category;
use lexpr::parse::{Error, Options, Parser, Read};

#[derive(Clone, Copy, PartialEq, Eq, Hash, Debug)]
pub enum Cat {
    Io,
    Syntax,
    Eof,
}

#[derive(Clone, PartialEq, Eq, Hash, Debug)]
pub struct ErrInfo {
    pub cat: Cat,
    /// Display text without the " at line L column C" suffix
    pub msg: String,
    pub loc: Option<(usize, usize)>,
    /// id of the injected fault carried by an Io error (through source())
    pub payload: Option<u64>,
}

#[derive(Clone, PartialEq, Eq, Hash, Debug)]
pub enum Outcome {
    Ok(RV),
    Err(ErrInfo),
    Panic(String),
}

impl Outcome {
    pub fn is_ok(&self) -> bool {
        matches!(self, Outcome::Ok(_))
    }
    /// Comparison key that ignores locations (C06 equality clause).
    pub fn sans_loc(&self) -> Outcome {
        match self {
            Outcome::Err(e) => Outcome::Err(ErrInfo { loc: None, ..e.clone() }),
            o => o.clone(),
        }
    }
    /// Ok value or error category only.
    pub fn coarse(&self) -> Outcome {
        match self {
            Outcome::Err(e) => Outcome::Err(ErrInfo { cat: e.cat, msg: String::new(), loc: None, payload: None }),
            o => o.clone(),
        }
    }
    pub fn short(&self) -> String {
        match self {
            Outcome::Ok(v) => format!("Ok({})", crate::util::trunc(&v.to_string(), 120)),
            Outcome::Err(e) => format!(
                "Err({:?}: {}{}{})",
                e.cat,
                e.msg,
                e.loc.map(|(l, c)| format!(" @{}:{}", l, c)).unwrap_or_default(),
                e.payload.map(|p| format!(" payload#{}", p)).unwrap_or_default()
            ),
            Outcome::Panic(p) => format!("PANIC({})", crate::util::trunc(p, 160)),
        }
    }
}

pub fn err_info(e: &Error) -> ErrInfo {
    let cat = match e.classify() {
        Category::Io => Cat::Io,
        Category::Syntax => Cat::Syntax,
        Category::Eof => Cat::Eof,
    };
    let full = e.to_string();
    let loc = e.location().map(|l| (l.line(), l.column()));
    let msg = match full.rfind(" at line ") {
        Some(i) if loc.is_some() => full[..i].to_string(),
        _ => full,
    };
    let payload = std::error::Error::source(e)
        .and_then(|s| s.downcast_ref::<std::io::Error>())
        .and_then(|io| io.get_ref())
        .and_then(|inner| inner.downcast_ref::<Payload>())
        .map(|p| p.0);
    ErrInfo { cat, msg, loc, payload }
}

pub fn norm(r: Result<Result<lexpr::Value, Error>, String>) -> Outcome {
    match r {
        Ok(Ok(v)) => Outcome::Ok(RV::from_value(&v)),
        Ok(Err(e)) => Outcome::Err(err_info(&e)),
        Err(p) => Outcome::Panic(p),
    }
}

pub fn parse_slice(input: &[u8], o: Options) -> Outcome {
    norm(guard(|| lexpr::from_slice_custom(input, o)))
}
pub fn parse_str(input: &str, o: Options) -> Outcome {
    norm(guard(|| lexpr::from_str_custom(input, o)))
}
pub fn parse_reader<R: std::io::Read>(r: R, o: Options) -> Outcome {
    norm(guard(|| lexpr::from_reader_custom(r, o)))
}

/// One item of a parse loop.
#[derive(Clone, PartialEq, Eq, Hash, Debug)]
pub enum Item {
    Val(RV),
    Err(ErrInfo),
    End,
    Panic(String),
}

impl Item {
    pub fn short(&self) -> String {
        match self {
            Item::Val(v) => format!("{}", crate::util::trunc(&v.to_string(), 80)),
            Item::Err(e) => format!("Err({:?}: {}{})", e.cat, e.msg, e.loc.map(|(l, c)| format!(" @{}:{}", l, c)).unwrap_or_default()),
            Item::End => "End".into(),
            Item::Panic(p) => format!("PANIC({})", crate::util::trunc(p, 120)),
        }
    }
    pub fn sans_loc(&self) -> Item {
        match self {
            Item::Err(e) => Item::Err(ErrInfo { loc: None, ..e.clone() }),
            o => o.clone(),
        }
    }
}

pub fn show_items(items: &[Item]) -> String {
    items.iter().map(|i| i.short()).collect::<Vec<_>>().join(" | ")
}

#[derive(Clone, Copy, PartialEq, Eq, Hash, Debug)]
pub enum Style {
    NextValue,
    NextDatum,
    ValueIter,
    DatumIter,
    ParserIter,
}

pub const STYLES: [Style; 5] = [Style::NextValue, Style::NextDatum, Style::ValueIter, Style::DatumIter, Style::ParserIter];

/// Drive one iteration style for at most `cap` items (the parser's iterators never fuse, so every
/// loop in the harness is capped). Stops after End, a panic, or `stop_at_error` and an error.
pub fn drive<'de, R: Read<'de>>(p: &mut Parser<R>, style: Style, cap: usize, stop_at_error: bool) -> Vec<Item> {
    let mut out = Vec::new();
    for _ in 0..cap {
        let it = step(p, style);
        let stop = matches!(it, Item::End | Item::Panic(_)) || (stop_at_error && matches!(it, Item::Err(_)));
        out.push(it);
        if stop {
            break;
        }
    }
    out
}

pub fn step<'de, R: Read<'de>>(p: &mut Parser<R>, style: Style) -> Item {
    let r = guard(|| match style {
        Style::NextValue => p.next_value().map(|o| o.map(|v| RV::from_value(&v))),
        Style::NextDatum => p.next_datum().map(|o| o.map(|d| RV::from_value(d.value()))),
        Style::ValueIter => p.value_iter().next().transpose().map(|o| o.map(|v| RV::from_value(&v))),
        Style::DatumIter => p.datum_iter().next().transpose().map(|o| o.map(|d| RV::from_value(d.value()))),
        Style::ParserIter => Iterator::next(p).transpose().map(|o| o.map(|v| RV::from_value(&v))),
    });
    match r {
        Ok(Ok(Some(v))) => Item::Val(v),
        Ok(Ok(None)) => Item::End,
        Ok(Err(e)) => Item::Err(err_info(&e)),
        Err(pn) => Item::Panic(pn),
    }
}
