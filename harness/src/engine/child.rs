//! E4: abort oracle (child side). Filled in with C16 / C03.
pub fn child_main(_args: &[String]) -> i32 {
    2
}
