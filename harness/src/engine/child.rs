//! E4 — abort oracle. Operations whose failure mode is a process abort (stack overflow) or a
//! hang are run by `mc child <casefile>` in a child process, each inside a thread with an
//! explicitly sized stack. The child prints `BEGIN i` / `END i <result>`; when it dies the parent
//! knows the case, records the signal, and restarts a child for the remaining cases. A per-case
//! wall-clock watchdog turns "fails to return" into an observation as well.

use serde_json::{json, Value as J};
use std::io::{BufRead, BufReader, Write};
use std::process::{Command, Stdio};
use std::sync::mpsc;
use std::time::Duration;

#[derive(Clone, Debug, PartialEq)]
pub enum ChildObs {
    /// the operation returned; payload is the child's own description ("ok …", "err …")
    Returned(String),
    /// the operation panicked (unwound)
    Panicked(String),
    /// the process died: signal number or exit code
    Died(String),
    /// no answer within the watchdog period
    TimedOut(u64),
}

impl ChildObs {
    pub fn short(&self) -> String {
        match self {
            ChildObs::Returned(s) => format!("returned: {}", crate::util::trunc(s, 100)),
            ChildObs::Panicked(s) => format!("panicked: {}", crate::util::trunc(s, 100)),
            ChildObs::Died(s) => format!("process died ({})", s),
            ChildObs::TimedOut(s) => format!("no answer within {} s", s),
        }
    }
}

/// Run `cases` in child processes (`parallel` at a time). Returns one observation per case.
pub fn run_children(cases: &[J], parallel: usize, timeout_s: u64, tag: &str) -> Vec<ChildObs> {
    let n = cases.len();
    let chunk = ((n + parallel - 1) / parallel.max(1)).max(1);
    let mut out: Vec<Option<ChildObs>> = vec![None; n];
    std::thread::scope(|s| {
        let mut hs = Vec::new();
        for (ci, slice) in cases.chunks(chunk).enumerate() {
            let tag = format!("{}-{}", tag, ci);
            hs.push((ci * chunk, s.spawn(move || run_chunk(slice, timeout_s, &tag))));
        }
        for (base, h) in hs {
            let res = h.join().unwrap_or_else(|_| {
                eprintln!("MACHINERY: child supervisor thread panicked");
                std::process::exit(2)
            });
            for (i, r) in res.into_iter().enumerate() {
                out[base + i] = Some(r);
            }
        }
    });
    out.into_iter().map(|o| o.expect("observation for every case")).collect()
}

impl ChildObs {
    /// The child was killed from outside (SIGKILL: the kernel's out-of-memory killer) or did not
    /// answer in time. On a loaded machine neither says anything about the code under test.
    pub fn inconclusive(&self) -> bool {
        match self {
            ChildObs::TimedOut(_) => true,
            ChildObs::Died(how) => how.contains("signal 9"),
            _ => false,
        }
    }
}

/// Like `run_children`, but every inconclusive observation (killed from outside, no answer in
/// time) is repeated once, alone on the machine, with `retry_timeout_s`.
pub fn run_children_retry(cases: &[J], parallel: usize, timeout_s: u64, retry_timeout_s: u64, tag: &str) -> Vec<ChildObs> {
    let mut obs = run_children(cases, parallel, timeout_s, tag);
    for i in 0..obs.len() {
        if obs[i].inconclusive() {
            let again = run_children(&cases[i..i + 1], 1, retry_timeout_s, &format!("{}-retry{}", tag, i));
            obs[i] = again.into_iter().next().expect("one observation");
        }
    }
    obs
}

fn run_chunk(cases: &[J], timeout_s: u64, tag: &str) -> Vec<ChildObs> {
    let mut results: Vec<ChildObs> = Vec::with_capacity(cases.len());
    // children run the build with optimisations off when it is available: tail-call elimination
    // in optimised builds can hide per-element recursion that users of debug builds would hit
    let exe = match std::env::var("MC_CHILD_BIN") {
        Ok(p) if std::path::Path::new(&p).exists() => std::path::PathBuf::from(p),
        _ => std::env::current_exe().expect("current exe"),
    };
    let dir = std::env::var("VERIF_DIR").unwrap_or_else(|_| "/verif".into());
    let _ = std::fs::create_dir_all(format!("{}/target", dir));
    while results.len() < cases.len() {
        let start = results.len();
        let file = format!("{}/target/childcases-{}-{}-{}.json", dir, std::process::id(), tag, start);
        std::fs::write(&file, serde_json::to_string(&cases[start..]).unwrap()).expect("write case file");
        let mut child = Command::new(&exe).arg("child").arg(&file).stdout(Stdio::piped()).stderr(Stdio::null()).stdin(Stdio::null()).spawn().expect("spawn child");
        let stdout = child.stdout.take().unwrap();
        let (tx, rx) = mpsc::channel::<String>();
        let reader = std::thread::spawn(move || {
            let br = BufReader::new(stdout);
            for line in br.lines() {
                match line {
                    Ok(l) => {
                        if tx.send(l).is_err() {
                            break;
                        }
                    }
                    Err(_) => break,
                }
            }
        });
        let mut in_progress: Option<usize> = None;
        let mut killed_for_timeout = false;
        loop {
            match rx.recv_timeout(Duration::from_secs(timeout_s)) {
                Ok(line) => {
                    if let Some(rest) = line.strip_prefix("BEGIN ") {
                        in_progress = rest.trim().parse::<usize>().ok();
                    } else if let Some(rest) = line.strip_prefix("END ") {
                        let mut it = rest.splitn(3, ' ');
                        let _idx = it.next();
                        let kind = it.next().unwrap_or("");
                        let payload = it.next().unwrap_or("").to_string();
                        results.push(if kind == "panic" { ChildObs::Panicked(payload) } else { ChildObs::Returned(format!("{} {}", kind, payload)) });
                        in_progress = None;
                    }
                }
                Err(mpsc::RecvTimeoutError::Timeout) => {
                    let _ = child.kill();
                    killed_for_timeout = true;
                    break;
                }
                Err(mpsc::RecvTimeoutError::Disconnected) => break,
            }
        }
        let status = child.wait().ok();
        let _ = reader.join();
        let _ = std::fs::remove_file(&file);
        if results.len() < cases.len() {
            // the child stopped before finishing: the case in progress (or the next one) is the culprit
            let _ = in_progress;
            if killed_for_timeout {
                results.push(ChildObs::TimedOut(timeout_s));
            } else {
                let desc = match status {
                    Some(st) => {
                        #[cfg(unix)]
                        {
                            use std::os::unix::process::ExitStatusExt;
                            match st.signal() {
                                Some(sig) => format!("signal {}", sig),
                                None => format!("exit code {:?}", st.code()),
                            }
                        }
                        #[cfg(not(unix))]
                        {
                            format!("exit {:?}", st.code())
                        }
                    }
                    None => "unknown".into(),
                };
                results.push(ChildObs::Died(desc));
            }
        }
    }
    results
}

// ---------------------------------------------------------------------------------------------
// child side

/// Openers for pathological nesting (C03): (text of the opener, does it nest?)
pub const OPENERS: &[&str] = &["(", "[", "#(", "'", "`", ",", ",@", "(a . ", "#u8("];

pub fn build_parse_input(c: &J) -> Vec<u8> {
    let n = c["n"].as_u64().unwrap_or(0) as usize;
    let mut out = Vec::with_capacity(n + 16);
    match c["family"].as_str().unwrap_or("") {
        "openers" => {
            let pat: Vec<usize> = c["pattern"].as_array().map(|a| a.iter().map(|x| x.as_u64().unwrap_or(0) as usize).collect()).unwrap_or_default();
            let mut i = 0;
            while out.len() < n {
                out.extend_from_slice(OPENERS[pat[i % pat.len()]].as_bytes());
                i += 1;
            }
        }
        "run" => {
            // prefix + unit repeated + suffix
            let prefix = c["prefix"].as_str().unwrap_or("");
            let unit = c["unit"].as_str().unwrap_or("a");
            let suffix = c["suffix"].as_str().unwrap_or("");
            out.extend_from_slice(prefix.as_bytes());
            while out.len() < n {
                out.extend_from_slice(unit.as_bytes());
            }
            out.extend_from_slice(suffix.as_bytes());
            if let Some(h) = c["suffix_hex"].as_str() {
                out.extend_from_slice(&crate::rv::unhex(h));
            }
        }
        _ => {}
    }
    out
}

fn child_parse(c: &J) -> String {
    let input = build_parse_input(c);
    let opts = if c["opts"].as_str() == Some("elisp") { lexpr::parse::Options::elisp() } else { lexpr::parse::Options::default() };
    let src = c["src"].as_str().unwrap_or("slice").to_string();
    let api = c["api"].as_str().unwrap_or("value").to_string();
    let r: Result<String, String> = crate::util::guard(|| {
        // results are leaked: dropping long values is C16's business, not the parser's
        let describe_v = |r: Result<lexpr::Value, lexpr::parse::Error>| match r {
            Ok(v) => {
                std::mem::forget(v);
                "ok value".to_string()
            }
            Err(e) => format!("err {}", e),
        };
        let describe_d = |r: Result<lexpr::datum::Datum, lexpr::parse::Error>| match r {
            Ok(d) => {
                std::mem::forget(d);
                "ok datum".to_string()
            }
            Err(e) => format!("err {}", e),
        };
        match (src.as_str(), api.as_str()) {
            ("str", "value") => match std::str::from_utf8(&input) {
                Ok(s) => describe_v(lexpr::from_str_custom(s, opts)),
                Err(_) => describe_v(lexpr::from_slice_custom(&input, opts)),
            },
            ("str", _) => match std::str::from_utf8(&input) {
                Ok(s) => describe_d(lexpr::datum::from_str_custom(s, opts)),
                Err(_) => describe_d(lexpr::datum::from_slice_custom(&input, opts)),
            },
            ("reader", "value") => describe_v(lexpr::from_reader_custom(&input[..], opts)),
            ("reader", _) => describe_d(lexpr::datum::from_reader_custom(&input[..], opts)),
            (_, "value") => describe_v(lexpr::from_slice_custom(&input, opts)),
            (_, _) => describe_d(lexpr::datum::from_slice_custom(&input, opts)),
        }
    });
    match r {
        Ok(s) => s,
        Err(p) => format!("panic {}", p),
    }
}

pub fn child_main(args: &[String]) -> i32 {
    let file = match args.first() {
        Some(f) => f,
        None => return 2,
    };
    let text = match std::fs::read_to_string(file) {
        Ok(t) => t,
        Err(_) => return 2,
    };
    let cases: Vec<J> = match serde_json::from_str(&text) {
        Ok(c) => c,
        Err(_) => return 2,
    };
    let stdout = std::io::stdout();
    for (i, c) in cases.iter().enumerate() {
        {
            let mut o = stdout.lock();
            let _ = writeln!(o, "BEGIN {}", i);
            let _ = o.flush();
        }
        let stack = c["stack"].as_u64().unwrap_or(2 << 20) as usize;
        let c2 = c.clone();
        let h = std::thread::Builder::new().stack_size(stack).spawn(move || match c2["kind"].as_str().unwrap_or("") {
            "parse" => child_parse(&c2),
            #[cfg(feature = "full")]
            "listop" => crate::props::c16::child_listop(&c2),
            other => format!("err unknown case kind {}", other),
        });
        let res = match h {
            Ok(h) => h.join().unwrap_or_else(|_| "panic (thread)".to_string()),
            Err(e) => format!("err cannot spawn thread: {}", e),
        };
        let mut o = stdout.lock();
        let _ = writeln!(o, "END {} {}", i, res.replace('\n', " "));
        let _ = o.flush();
    }
    let _ = json!(null);
    0
}
