//! E3 — explicit-state exploration of call histories on one live `Parser`.
//!
//! A state is the history that reaches it; it is rebuilt by replaying the history on a fresh
//! parser (live parsers do not clone). The canonical key is (byte offset, remaining depth budget)
//! read through the verif-hooks observation hook; without hooks the key degrades to the result
//! history (over-fine: more states, same verdicts). In every state, for every operation, the
//! central invariant is *suffix congruence*: the result of `op` equals the result of `op` on a
//! fresh parser over `input[offset..]` (locations translated).

use crate::model::pos::pos_of;
use crate::outcome::{err_info, ErrInfo};
use crate::rv::RV;
use crate::util::guard;
use lexpr::parse::{Options, Parser, Read};
use std::collections::HashSet;

#[derive(Clone, Copy, PartialEq, Eq, Hash, Debug)]
pub enum Op {
    NextValue,
    NextDatum,
    ExpectValue,
    ExpectDatum,
    ExpectEnd,
    ValueIter,
    DatumIter,
    ParserIter,
}

pub const ALL_OPS: [Op; 8] = [Op::NextValue, Op::NextDatum, Op::ExpectValue, Op::ExpectDatum, Op::ExpectEnd, Op::ValueIter, Op::DatumIter, Op::ParserIter];

type Pos2 = ((usize, usize), (usize, usize));

#[derive(Clone, PartialEq, Eq, Hash, Debug)]
pub enum OpResult {
    Val(RV, Option<Pos2>),
    End,
    Unit,
    Err(ErrInfo),
    Panic(String),
}

impl OpResult {
    pub fn short(&self) -> String {
        match self {
            OpResult::Val(v, sp) => format!("{}{}", crate::util::trunc(&v.to_string(), 80), sp.map(|s| format!(" @{}:{}-{}:{}", s.0 .0, s.0 .1, s.1 .0, s.1 .1)).unwrap_or_default()),
            OpResult::End => "End".into(),
            OpResult::Unit => "Ok(())".into(),
            OpResult::Err(e) => format!("Err({:?}: {}{})", e.cat, e.msg, e.loc.map(|(l, c)| format!(" @{}:{}", l, c)).unwrap_or_default()),
            OpResult::Panic(p) => format!("PANIC({})", crate::util::trunc(p, 100)),
        }
    }
    pub fn is_err(&self) -> bool {
        matches!(self, OpResult::Err(_) | OpResult::Panic(_))
    }
    /// value-level view: drops spans (for comparing value ops with datum ops)
    pub fn value_view(&self) -> OpResult {
        match self {
            OpResult::Val(v, _) => OpResult::Val(v.clone(), None),
            o => o.clone(),
        }
    }
}

fn span_of(d: &lexpr::datum::Datum) -> Pos2 {
    let s = d.span();
    ((s.start().line(), s.start().column()), (s.end().line(), s.end().column()))
}

pub fn apply<'de, R: Read<'de>>(p: &mut Parser<R>, op: Op, spans: bool) -> OpResult {
    let r = guard(|| -> Result<OpResult, lexpr::parse::Error> {
        let dat = |d: lexpr::datum::Datum| OpResult::Val(RV::from_value(d.value()), if spans { Some(span_of(&d)) } else { None });
        Ok(match op {
            Op::NextValue => match p.next_value()? {
                Some(v) => OpResult::Val(RV::from_value(&v), None),
                None => OpResult::End,
            },
            Op::NextDatum => match p.next_datum()? {
                Some(d) => dat(d),
                None => OpResult::End,
            },
            Op::ExpectValue => OpResult::Val(RV::from_value(&p.expect_value()?), None),
            Op::ExpectDatum => dat(p.expect_datum()?),
            Op::ExpectEnd => {
                p.expect_end()?;
                OpResult::Unit
            }
            Op::ValueIter => match p.value_iter().next() {
                Some(r) => OpResult::Val(RV::from_value(&r?), None),
                None => OpResult::End,
            },
            Op::DatumIter => match p.datum_iter().next() {
                Some(r) => dat(r?),
                None => OpResult::End,
            },
            Op::ParserIter => match Iterator::next(p) {
                Some(r) => OpResult::Val(RV::from_value(&r?), None),
                None => OpResult::End,
            },
        })
    });
    match r {
        Ok(Ok(x)) => x,
        Ok(Err(e)) => OpResult::Err(err_info(&e)),
        Err(pn) => OpResult::Panic(pn),
    }
}

/// Translate a location reported relative to `input[offset..]` into one relative to `input`.
fn translate(input: &[u8], offset: usize, loc: (usize, usize)) -> (usize, usize) {
    let (l0, c0) = pos_of(input, offset);
    if loc.0 <= 1 {
        (l0, c0 + loc.1)
    } else {
        (l0 + loc.0 - 1, loc.1)
    }
}

pub fn translate_result(input: &[u8], offset: usize, r: &OpResult) -> OpResult {
    match r {
        OpResult::Err(e) => OpResult::Err(ErrInfo { loc: e.loc.map(|l| translate(input, offset, l)), ..e.clone() }),
        OpResult::Val(v, Some((a, b))) => OpResult::Val(v.clone(), Some((translate(input, offset, *a), translate(input, offset, *b)))),
        o => o.clone(),
    }
}

#[derive(Clone, Copy, PartialEq, Eq, Debug)]
pub enum Src {
    Slice,
    Str,
    Reader,
}

#[derive(Clone, PartialEq, Eq, Hash, Debug)]
pub enum Key {
    Hooked(usize, u8),
    Results(Vec<OpResult>),
}

/// Replay a history on a fresh parser; returns the results, the state key and the byte offset
/// (None without hooks).
pub fn replay(input: &[u8], o: Options, src: Src, hist: &[Op], spans: bool) -> (Vec<OpResult>, Key, Option<usize>) {
    fn go<'de, R: Read<'de>>(mut p: Parser<R>, hist: &[Op], spans: bool) -> (Vec<OpResult>, Key, Option<usize>) {
        let mut res = Vec::with_capacity(hist.len());
        for &op in hist {
            res.push(apply(&mut p, op, spans));
        }
        #[cfg(feature = "hooks")]
        {
            let (off, depth) = p.verif_state();
            (res, Key::Hooked(off, depth), Some(off))
        }
        #[cfg(not(feature = "hooks"))]
        {
            let k = Key::Results(res.clone());
            (res, k, None)
        }
    }
    match src {
        Src::Slice => go(Parser::from_slice_custom(input, o), hist, spans),
        Src::Str => go(Parser::from_str_custom(std::str::from_utf8(input).expect("utf8 for Src::Str"), o), hist, spans),
        Src::Reader => go(Parser::from_reader_custom(input, o), hist, spans),
    }
}

#[derive(Default, Clone, Debug)]
pub struct HistStats {
    pub states: u64,
    pub transitions: u64,
    pub merged: u64,
    pub max_depth: usize,
    pub capped: bool,
}

/// One explored transition.
pub struct Transition<'a> {
    pub history: &'a [Op],
    pub op: Op,
    pub offset: Option<usize>,
    pub actual: &'a OpResult,
    /// result of `op` on a fresh parser over `input[offset..]`, locations translated (hooks only)
    pub fresh: Option<OpResult>,
    pub new_offset: Option<usize>,
}

/// BFS over histories. `visit` is called for every transition.
pub fn explore(input: &[u8], o: Options, src: Src, ops: &[Op], max_depth: usize, max_states: usize, spans: bool, mut visit: impl FnMut(&Transition)) -> HistStats {
    let mut stats = HistStats::default();
    let mut seen: HashSet<Key> = HashSet::new();
    let (_, k0, _) = replay(input, o, src, &[], spans);
    seen.insert(k0);
    stats.states = 1;
    let mut frontier: Vec<Vec<Op>> = vec![vec![]];
    let mut depth = 0;
    while !frontier.is_empty() && depth < max_depth {
        let mut next = Vec::new();
        for hist in &frontier {
            let (_, _, off) = replay(input, o, src, hist, spans);
            for &op in ops {
                let mut h2 = hist.clone();
                h2.push(op);
                let (res, key, off2) = replay(input, o, src, &h2, spans);
                let actual = res.last().unwrap();
                let fresh = off.map(|k| {
                    let (r, _, _) = replay(&input[k..], o, src, &[op], spans);
                    translate_result(input, k, &r[0])
                });
                stats.transitions += 1;
                visit(&Transition { history: hist, op, offset: off, actual, fresh, new_offset: off2 });
                if matches!(actual, OpResult::Panic(_)) {
                    continue; // a panicked parser is not explored further
                }
                if seen.insert(key) {
                    stats.states += 1;
                    if seen.len() >= max_states {
                        stats.capped = true;
                        return stats;
                    }
                    next.push(h2);
                } else {
                    stats.merged += 1;
                }
            }
        }
        frontier = next;
        depth += 1;
        stats.max_depth = depth;
    }
    if !frontier.is_empty() {
        // depth bound reached with unexplored states
        stats.capped = true;
    }
    stats
}
