//! (to be filled in)
