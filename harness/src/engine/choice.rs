//! E2 — stateless choice-tree explorer for environment answers (CHESS-style, deviation-bounded).
//!
//! A controlled `io::Write` / `io::Read` asks `Explorer::choose(menu_len)` on every call. Choice 0
//! is the default answer; every other choice is a deviation of cost 1. `explore` runs the body
//! with the empty prefix, then re-runs it for every alternative at every choice point after the
//! replayed prefix whose total deviation count fits the bound. Replaying a prefix must reproduce
//! the same menus; a divergence is a machinery error (exit 2), never a verdict.

use std::cell::RefCell;
use std::io;
use std::rc::Rc;

#[derive(Clone, Debug, Default)]
pub struct Explorer {
    prefix: Vec<u8>,
    menus_of_prefix: Vec<u8>,
    pub choices: Vec<u8>,
    pub menus: Vec<u8>,
}

impl Explorer {
    pub fn with_prefix(prefix: Vec<u8>, menus: Vec<u8>) -> Explorer {
        Explorer { prefix, menus_of_prefix: menus, choices: Vec::new(), menus: Vec::new() }
    }
    pub fn choose(&mut self, menu_len: usize) -> usize {
        let i = self.choices.len();
        let c = if i < self.prefix.len() {
            let recorded = self.menus_of_prefix.get(i).copied().unwrap_or(menu_len as u8);
            if recorded as usize != menu_len || self.prefix[i] as usize >= menu_len {
                eprintln!(
                    "MACHINERY: schedule replay diverged at point {} (menu {} vs recorded {}, choice {})",
                    i, menu_len, recorded, self.prefix[i]
                );
                std::process::exit(2);
            }
            self.prefix[i] as usize
        } else {
            0
        };
        self.choices.push(c as u8);
        self.menus.push(menu_len as u8);
        c
    }
    pub fn deviations(&self) -> usize {
        self.choices.iter().filter(|c| **c != 0).count()
    }
}

pub type Shared = Rc<RefCell<Explorer>>;

#[derive(Default, Clone, Debug)]
pub struct ExploreStats {
    pub schedules: u64,
    pub points: u64,
    pub max_points: usize,
    pub capped: bool,
}

/// Explore every schedule with at most `bound` deviations. `body` receives the explorer handle,
/// runs the code under test once and checks its oracle. `cap` bounds the number of schedules
/// (reported if hit).
pub fn explore(bound: usize, cap: u64, mut body: impl FnMut(&Shared)) -> ExploreStats {
    let mut stats = ExploreStats::default();
    let mut stack: Vec<(Vec<u8>, Vec<u8>)> = vec![(Vec::new(), Vec::new())];
    while let Some((prefix, menus)) = stack.pop() {
        if stats.schedules >= cap {
            stats.capped = true;
            break;
        }
        let plen = prefix.len();
        let ex: Shared = Rc::new(RefCell::new(Explorer::with_prefix(prefix, menus)));
        body(&ex);
        let ex = ex.borrow();
        stats.schedules += 1;
        stats.points += ex.choices.len() as u64;
        stats.max_points = stats.max_points.max(ex.choices.len());
        if ex.choices.len() < plen {
            eprintln!("MACHINERY: schedule replay ended before its prefix was consumed");
            std::process::exit(2);
        }
        // deviations already spent in the prefix
        let mut spent = ex.choices[..plen].iter().filter(|c| **c != 0).count();
        for i in plen..ex.choices.len() {
            // choices after the prefix are all 0 (default)
            if spent + 1 <= bound {
                for alt in 1..ex.menus[i] {
                    let mut p = ex.choices[..i].to_vec();
                    p.push(alt);
                    let m = ex.menus[..=i].to_vec();
                    stack.push((p, m));
                }
            }
            if ex.choices[i] != 0 {
                spent += 1;
            }
        }
    }
    stats
}

// ------------------------------------------------------------------------------------------

#[derive(Clone, Copy, Debug, PartialEq, Eq)]
pub enum WAnswer {
    All,
    Accept(usize),
    Zero,
    Error,
}

/// Controlled sink. Records everything it accepted and whether it ever refused.
pub struct CtlWriter {
    pub ex: Shared,
    pub data: Vec<u8>,
    pub refused: bool, // returned Err or Ok(0) for a non-empty buffer
    pub calls: usize,
    pub err_payloads: usize,
}

impl CtlWriter {
    pub fn new(ex: &Shared) -> CtlWriter {
        CtlWriter { ex: ex.clone(), data: Vec::new(), refused: false, calls: 0, err_payloads: 0 }
    }
    fn menu(len: usize) -> Vec<WAnswer> {
        let mut m = vec![WAnswer::All];
        if len > 1 {
            m.push(WAnswer::Accept(1));
        }
        if len > 2 {
            m.push(WAnswer::Accept(2));
        }
        if len > 3 {
            m.push(WAnswer::Accept(len - 1));
        }
        m.push(WAnswer::Zero);
        m.push(WAnswer::Error);
        m
    }
}

impl io::Write for CtlWriter {
    fn write(&mut self, buf: &[u8]) -> io::Result<usize> {
        self.calls += 1;
        if buf.is_empty() {
            return Ok(0);
        }
        let menu = CtlWriter::menu(buf.len());
        let c = self.ex.borrow_mut().choose(menu.len());
        match menu[c] {
            WAnswer::All => {
                self.data.extend_from_slice(buf);
                Ok(buf.len())
            }
            WAnswer::Accept(k) => {
                self.data.extend_from_slice(&buf[..k]);
                Ok(k)
            }
            WAnswer::Zero => {
                self.refused = true;
                Ok(0)
            }
            WAnswer::Error => {
                self.refused = true;
                self.err_payloads += 1;
                Err(io::Error::new(sink_fault_kind(self.data.len()), "injected write error"))
            }
        }
    }
    fn flush(&mut self) -> io::Result<()> {
        Ok(())
    }
}

/// A sink with a fixed policy (no exploration): accept at most k bytes per call; optionally fail
/// (error or zero) once `fail_at` bytes have been accepted.
pub struct UniformWriter {
    pub k: usize,
    pub fail_at: Option<usize>,
    pub fail_zero: bool,
    pub data: Vec<u8>,
    pub refused: bool,
}

impl io::Write for UniformWriter {
    fn write(&mut self, buf: &[u8]) -> io::Result<usize> {
        if buf.is_empty() {
            return Ok(0);
        }
        let mut n = buf.len().min(self.k);
        if let Some(f) = self.fail_at {
            if self.data.len() >= f {
                self.refused = true;
                return if self.fail_zero { Ok(0) } else { Err(io::Error::new(sink_fault_kind(self.data.len()), "injected write error")) };
            }
            n = n.min(f - self.data.len());
        }
        self.data.extend_from_slice(&buf[..n]);
        Ok(n)
    }
    fn flush(&mut self) -> io::Result<()> {
        Ok(())
    }
}

// ------------------------------------------------------------------------------------------

/// Controlled source for chunking schedules: default = deliver as much as fits; deviations =
/// `Interrupted`, a 1-byte short delivery.
pub struct CtlReader<'a> {
    pub ex: Shared,
    pub data: &'a [u8],
    pub pos: usize,
    pub calls: usize,
}

impl<'a> CtlReader<'a> {
    pub fn new(ex: &Shared, data: &'a [u8]) -> CtlReader<'a> {
        CtlReader { ex: ex.clone(), data, pos: 0, calls: 0 }
    }
}

impl<'a> io::Read for CtlReader<'a> {
    fn read(&mut self, buf: &mut [u8]) -> io::Result<usize> {
        self.calls += 1;
        if buf.is_empty() {
            return Ok(0);
        }
        let avail = (self.data.len() - self.pos).min(buf.len());
        // menu: 0 = default, 1 = Interrupted, 2 = short (only if avail > 1)
        let menu_len = if avail > 1 { 3 } else { 2 };
        // Interrupted forever would never terminate; the explorer's bound limits how many are taken.
        let c = self.ex.borrow_mut().choose(menu_len);
        match c {
            0 => {
                buf[..avail].copy_from_slice(&self.data[self.pos..self.pos + avail]);
                self.pos += avail;
                Ok(avail)
            }
            1 => Err(io::Error::new(io::ErrorKind::Interrupted, "injected EINTR")),
            _ => {
                buf[0] = self.data[self.pos];
                self.pos += 1;
                Ok(1)
            }
        }
    }
}

/// Fault-injecting source (no exploration): delivers `chunk` bytes per call and fails at byte
/// offset `fail_at`, either once (transient) or on every later call (sticky). The error carries a
/// unique payload so that identity can be checked on the way out.
pub struct FaultReader<'a> {
    pub data: &'a [u8],
    pub pos: usize,
    pub chunk: usize,
    pub fail_at: usize,
    pub sticky: bool,
    pub fired: usize,
    pub payload: u64,
}

/// Error kinds of a failing sink, chosen by the number of bytes accepted so far (Interrupted is
/// left out: write_all retries it by contract).
pub fn sink_fault_kind(accepted: usize) -> io::ErrorKind {
    const K: [io::ErrorKind; 6] = [io::ErrorKind::Other, io::ErrorKind::BrokenPipe, io::ErrorKind::WriteZero, io::ErrorKind::ConnectionReset, io::ErrorKind::TimedOut, io::ErrorKind::WouldBlock];
    K[accepted % K.len()]
}

/// The error kinds a failing stream reports, rotated over the injection points (Interrupted is
/// not a failure: std and the parser retry it). A reader that special-cases one kind — e.g.
/// takes UnexpectedEof for the end of the stream — must not get away with it.
pub const FAULT_KINDS: [io::ErrorKind; 6] = [io::ErrorKind::Other, io::ErrorKind::UnexpectedEof, io::ErrorKind::InvalidData, io::ErrorKind::BrokenPipe, io::ErrorKind::TimedOut, io::ErrorKind::WouldBlock];

pub fn fault_kind(payload: u64) -> io::ErrorKind {
    // the payload encodes (rank, offset, sticky); mix so that every input sees every kind
    FAULT_KINDS[((payload >> 1) % 6) as usize]
}

#[derive(Debug)]
pub struct Payload(pub u64);
impl std::fmt::Display for Payload {
    fn fmt(&self, f: &mut std::fmt::Formatter<'_>) -> std::fmt::Result {
        write!(f, "injected read fault #{}", self.0)
    }
}
impl std::error::Error for Payload {}

impl<'a> io::Read for FaultReader<'a> {
    fn read(&mut self, buf: &mut [u8]) -> io::Result<usize> {
        if buf.is_empty() {
            return Ok(0);
        }
        if self.pos >= self.fail_at && (self.sticky || self.fired == 0) {
            self.fired += 1;
            return Err(io::Error::new(fault_kind(self.payload), Payload(self.payload)));
        }
        let mut avail = (self.data.len() - self.pos).min(buf.len()).min(self.chunk);
        if self.pos < self.fail_at && (self.sticky || self.fired == 0) {
            avail = avail.min(self.fail_at - self.pos);
        }
        buf[..avail].copy_from_slice(&self.data[self.pos..self.pos + avail]);
        self.pos += avail;
        Ok(avail)
    }
}

/// Plain chunked reader (k bytes per call).
pub struct ChunkReader<'a> {
    pub data: &'a [u8],
    pub pos: usize,
    pub chunk: usize,
}
impl<'a> io::Read for ChunkReader<'a> {
    fn read(&mut self, buf: &mut [u8]) -> io::Result<usize> {
        let avail = (self.data.len() - self.pos).min(buf.len()).min(self.chunk);
        buf[..avail].copy_from_slice(&self.data[self.pos..self.pos + avail]);
        self.pos += avail;
        Ok(avail)
    }
}
