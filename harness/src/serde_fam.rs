//! The Serde type family TF (C04, C14, C18): ~45 concrete types covering every Serde data-model
//! category and the nestings that are shape-ambiguous in S-expressions, each with a bounded-
//! exhaustive inhabitant generator and a shape function written from the serde-lexpr crate docs.

use crate::rv::RV;
use serde::de::DeserializeOwned;
use serde::Serialize;
use serde_bytes::ByteBuf;
use serde_derive::{Deserialize, Serialize};
use std::collections::{BTreeMap, BTreeSet, HashMap};
use std::fmt::Debug;

/// Annotated documented shape: which positions are Serde sequences (lists) and tuples (vectors).
#[derive(Clone, Debug)]
pub enum Sh {
    A(RV),
    Seq(Vec<Sh>),
    Tup(Vec<Sh>),
    Opt(Option<Box<Sh>>),
    Alist(Vec<(Sh, Sh)>),
    /// (car . cdr): newtype variant (name . payload), tuple variant (name item...), struct variant
    Cons(Box<Sh>, Box<Sh>),
}

#[derive(Clone, Copy, PartialEq, Debug)]
pub enum Render {
    Normal,
    /// render the node at this preorder index with list and vector swapped
    SwapAt(usize),
    SwapAll,
    /// render the node at this index as an improper list ending in the given atom
    ImproperAt(usize, usize),
    /// replace the node at this index by the given atom
    ReplaceAt(usize, usize),
}

pub fn wrong_atoms() -> Vec<RV> {
    vec![
        RV::Nil, RV::Bool(true), RV::Int(7), RV::Float(1.5), RV::Char('c'), RV::str("s"), RV::sym("y"), RV::kw("k"), RV::Bytes(vec![1]),
        // values that an error message has to describe: beyond i64, the most negative, non-finite-free extremes, long multi-byte text
        RV::Int(u64::MAX as i128), RV::Int(i64::MIN as i128), RV::Float(1.7976931348623157e308), RV::Str(format!("a{}", "€".repeat(40))),
    ]
}

impl Sh {
    pub fn sym(s: &str) -> Sh {
        Sh::A(RV::sym(s))
    }
    pub fn to_rv(&self) -> RV {
        let mut n = 0;
        self.render(Render::Normal, &mut n)
    }
    /// Number of Seq/Tup nodes (preorder).
    pub fn seq_nodes(&self) -> Vec<(bool, usize)> {
        // (is_tuple, length)
        let mut v = Vec::new();
        self.collect(&mut v);
        v
    }
    fn collect(&self, v: &mut Vec<(bool, usize)>) {
        match self {
            Sh::A(_) => {}
            Sh::Seq(xs) => {
                v.push((false, xs.len()));
                xs.iter().for_each(|x| x.collect(v));
            }
            Sh::Tup(xs) => {
                v.push((true, xs.len()));
                xs.iter().for_each(|x| x.collect(v));
            }
            Sh::Opt(o) => {
                if let Some(x) = o {
                    x.collect(v)
                }
            }
            Sh::Alist(es) => es.iter().for_each(|(k, x)| {
                k.collect(v);
                x.collect(v)
            }),
            Sh::Cons(a, d) => {
                a.collect(v);
                d.collect(v)
            }
        }
    }
    pub fn render(&self, r: Render, counter: &mut usize) -> RV {
        match self {
            Sh::A(v) => v.clone(),
            Sh::Seq(xs) | Sh::Tup(xs) => {
                let idx = *counter;
                *counter += 1;
                let is_tup = matches!(self, Sh::Tup(_));
                let items: Vec<RV> = xs.iter().map(|x| x.render(r, counter)).collect();
                let swapped = match r {
                    Render::SwapAll => true,
                    Render::SwapAt(i) => i == idx,
                    _ => false,
                };
                match r {
                    Render::ImproperAt(i, a) if i == idx => return RV::append(items, wrong_atoms()[a].clone()),
                    Render::ReplaceAt(i, a) if i == idx => return wrong_atoms()[a].clone(),
                    _ => {}
                }
                if is_tup != swapped {
                    RV::Vector(items)
                } else {
                    RV::list(items)
                }
            }
            Sh::Opt(None) => RV::Null,
            Sh::Opt(Some(x)) => RV::list(vec![x.render(r, counter)]),
            Sh::Alist(es) => RV::list(es.iter().map(|(k, x)| {
                let kk = k.render(r, counter);
                let vv = x.render(r, counter);
                RV::cons(kk, vv)
            }).collect()),
            Sh::Cons(a, d) => {
                let aa = a.render(r, counter);
                let dd = d.render(r, counter);
                RV::cons(aa, dd)
            }
        }
    }
}

pub struct Budget {
    pub cap: usize,
    pub long: usize,
}

pub trait Fam: Serialize + DeserializeOwned + PartialEq + Debug + Clone + Send + Sync + 'static {
    fn tname() -> String;
    fn inhabitants(b: &Budget) -> Vec<Self>;
    fn sh(&self) -> Sh;
    fn same(a: &Self, b: &Self) -> bool {
        a == b
    }
    /// serialization order is not deterministic (HashMap): shapes are compared as multisets
    fn unordered() -> bool {
        false
    }
    fn has_nonfinite(&self) -> bool {
        false
    }
}

fn trunc_to<T>(mut v: Vec<T>, cap: usize) -> Vec<T> {
    v.truncate(cap.max(1));
    v
}

macro_rules! int_fam {
    ($($t:ty),*) => {$(
        impl Fam for $t {
            fn tname() -> String { stringify!($t).to_string() }
            fn inhabitants(_b: &Budget) -> Vec<Self> {
                let mut v: Vec<i128> = vec![0, 1, -1, 7, 255, 256, 1 << 31, 1 << 32, 1 << 63, (1 << 63) - 1, -(1 << 31), -(1 << 63), <$t>::MIN as i128, <$t>::MIN as i128 + 1, <$t>::MAX as i128 - 1, <$t>::MAX as i128];
                v.retain(|x| *x >= <$t>::MIN as i128 && *x <= <$t>::MAX as i128);
                v.sort();
                v.dedup();
                v.into_iter().map(|x| x as $t).collect()
            }
            fn sh(&self) -> Sh { Sh::A(RV::Int(*self as i128)) }
        }
    )*};
}
int_fam!(i8, u8, i16, u16, i32, u32, i64, u64);

impl Fam for f64 {
    fn tname() -> String {
        "f64".into()
    }
    fn inhabitants(_b: &Budget) -> Vec<Self> {
        vec![0.0, -0.0, 1.0, -1.0, 1.5, -2.5, 0.1, 1e21, 1e-7, 123456.789, 5e-324, f64::MIN_POSITIVE, f64::MAX, f64::MIN, 9007199254740993.0, f64::INFINITY, f64::NEG_INFINITY, f64::NAN]
    }
    fn sh(&self) -> Sh {
        Sh::A(RV::Float(*self))
    }
    fn same(a: &Self, b: &Self) -> bool {
        a.to_bits() == b.to_bits()
    }
    fn has_nonfinite(&self) -> bool {
        !self.is_finite()
    }
}
impl Fam for f32 {
    fn tname() -> String {
        "f32".into()
    }
    fn inhabitants(_b: &Budget) -> Vec<Self> {
        vec![0.0, -0.0, 1.0, -1.5, 0.1, 16777217.0, 1e-45, f32::MIN_POSITIVE, f32::MAX, f32::MIN, 3.4028235e38, f32::INFINITY, f32::NEG_INFINITY, f32::NAN]
    }
    fn sh(&self) -> Sh {
        Sh::A(RV::Float(*self as f64))
    }
    fn same(a: &Self, b: &Self) -> bool {
        a.to_bits() == b.to_bits()
    }
    fn has_nonfinite(&self) -> bool {
        !self.is_finite()
    }
}
impl Fam for bool {
    fn tname() -> String {
        "bool".into()
    }
    fn inhabitants(_b: &Budget) -> Vec<Self> {
        vec![false, true]
    }
    fn sh(&self) -> Sh {
        Sh::A(RV::Bool(*self))
    }
}
impl Fam for char {
    fn tname() -> String {
        "char".into()
    }
    fn inhabitants(_b: &Budget) -> Vec<Self> {
        vec!['a', ' ', '(', '"', '\\', '\0', '\x7f', '\u{80}', 'λ', '\u{d7ff}', '\u{e000}', '\u{10ffff}']
    }
    fn sh(&self) -> Sh {
        Sh::A(RV::Char(*self))
    }
}
impl Fam for String {
    fn tname() -> String {
        "String".into()
    }
    fn inhabitants(b: &Budget) -> Vec<Self> {
        let mut v: Vec<String> = ["", "a", "a b", "\"\\", "λ€😀", "\n\t\0\x7f", "nil", "Unit", "(;|#"].iter().map(|s| s.to_string()).collect();
        v.push("x".repeat(b.long));
        // long multi-byte text at both alignments (anything that cuts or copies text by byte count)
        v.push("é".repeat(60));
        v.push(format!("a{}", "€".repeat(40)));
        v.push(format!("ab{}\n\"\\", "😀".repeat(30)));
        v
    }
    fn sh(&self) -> Sh {
        Sh::A(RV::Str(self.clone()))
    }
}
impl Fam for ByteBuf {
    fn tname() -> String {
        "ByteBuf".into()
    }
    fn inhabitants(b: &Budget) -> Vec<Self> {
        vec![ByteBuf::from(vec![]), ByteBuf::from(vec![0]), ByteBuf::from(vec![255, 0, 128]), ByteBuf::from((0..b.long).map(|i| i as u8).collect::<Vec<u8>>())]
    }
    fn sh(&self) -> Sh {
        Sh::A(RV::Bytes(self.to_vec()))
    }
}
impl Fam for () {
    fn tname() -> String {
        "()".into()
    }
    fn inhabitants(_b: &Budget) -> Vec<Self> {
        vec![()]
    }
    fn sh(&self) -> Sh {
        Sh::A(RV::Null)
    }
}
impl<T: Fam> Fam for Option<T> {
    fn tname() -> String {
        format!("Option<{}>", T::tname())
    }
    fn inhabitants(b: &Budget) -> Vec<Self> {
        let mut v = vec![None];
        v.extend(trunc_to(T::inhabitants(b), b.cap).into_iter().map(Some));
        v
    }
    fn sh(&self) -> Sh {
        Sh::Opt(self.as_ref().map(|x| Box::new(x.sh())))
    }
    fn same(a: &Self, b: &Self) -> bool {
        match (a, b) {
            (None, None) => true,
            (Some(x), Some(y)) => T::same(x, y),
            _ => false,
        }
    }
    fn has_nonfinite(&self) -> bool {
        self.as_ref().map(|x| x.has_nonfinite()).unwrap_or(false)
    }
}
impl<T: Fam> Fam for Box<T> {
    fn tname() -> String {
        format!("Box<{}>", T::tname())
    }
    fn inhabitants(b: &Budget) -> Vec<Self> {
        T::inhabitants(b).into_iter().map(Box::new).collect()
    }
    fn sh(&self) -> Sh {
        (**self).sh()
    }
    fn same(a: &Self, b: &Self) -> bool {
        T::same(a, b)
    }
}
impl<T: Fam> Fam for Vec<T> {
    fn tname() -> String {
        format!("Vec<{}>", T::tname())
    }
    fn inhabitants(b: &Budget) -> Vec<Self> {
        let base = T::inhabitants(b);
        let mut v: Vec<Vec<T>> = vec![vec![]];
        for x in base.iter().take(b.cap) {
            v.push(vec![x.clone()]);
        }
        let k = ((b.cap as f64).sqrt() as usize).max(2).min(base.len());
        for x in base.iter().take(k) {
            for y in base.iter().take(k) {
                v.push(vec![x.clone(), y.clone()]);
            }
        }
        if let Some(x) = base.get(base.len() / 2) {
            v.push(vec![x.clone(); 3]);
            if std::mem::size_of::<T>() <= 16 {
                v.push((0..b.long).map(|i| base[i % base.len()].clone()).collect());
            }
        }
        trunc_to(v, b.cap)
    }
    fn sh(&self) -> Sh {
        Sh::Seq(self.iter().map(|x| x.sh()).collect())
    }
    fn same(a: &Self, b: &Self) -> bool {
        a.len() == b.len() && a.iter().zip(b.iter()).all(|(x, y)| T::same(x, y))
    }
    fn has_nonfinite(&self) -> bool {
        self.iter().any(|x| x.has_nonfinite())
    }
}
impl<T: Fam + Ord> Fam for BTreeSet<T> {
    fn tname() -> String {
        format!("BTreeSet<{}>", T::tname())
    }
    fn inhabitants(b: &Budget) -> Vec<Self> {
        let base = T::inhabitants(b);
        let mut v: Vec<BTreeSet<T>> = vec![BTreeSet::new()];
        for x in &base {
            v.push([x.clone()].into_iter().collect());
        }
        for x in base.iter().take(6) {
            for y in base.iter().take(6) {
                v.push([x.clone(), y.clone()].into_iter().collect());
            }
        }
        v.push(base.iter().cloned().collect());
        v.sort();
        v.dedup();
        trunc_to(v, b.cap)
    }
    fn sh(&self) -> Sh {
        Sh::Seq(self.iter().map(|x| x.sh()).collect())
    }
}
impl<A: Fam> Fam for (A,) {
    fn tname() -> String {
        format!("({},)", A::tname())
    }
    fn inhabitants(b: &Budget) -> Vec<Self> {
        A::inhabitants(b).into_iter().map(|a| (a,)).collect()
    }
    fn sh(&self) -> Sh {
        Sh::Tup(vec![self.0.sh()])
    }
    fn same(a: &Self, b: &Self) -> bool {
        A::same(&a.0, &b.0)
    }
}
impl<A: Fam, B: Fam> Fam for (A, B) {
    fn tname() -> String {
        format!("({}, {})", A::tname(), B::tname())
    }
    fn inhabitants(b: &Budget) -> Vec<Self> {
        let (xs, ys) = (A::inhabitants(b), B::inhabitants(b));
        let k = ((b.cap as f64).sqrt() as usize).max(3);
        let mut v = Vec::new();
        for x in xs.iter().take(k) {
            for y in ys.iter().take(k) {
                v.push((x.clone(), y.clone()));
            }
        }
        v
    }
    fn sh(&self) -> Sh {
        Sh::Tup(vec![self.0.sh(), self.1.sh()])
    }
    fn same(a: &Self, b: &Self) -> bool {
        A::same(&a.0, &b.0) && B::same(&a.1, &b.1)
    }
    fn has_nonfinite(&self) -> bool {
        self.0.has_nonfinite() || self.1.has_nonfinite()
    }
}
impl Fam for [u8; 3] {
    fn tname() -> String {
        "[u8; 3]".into()
    }
    fn inhabitants(_b: &Budget) -> Vec<Self> {
        vec![[0, 0, 0], [1, 2, 3], [255, 0, 128]]
    }
    fn sh(&self) -> Sh {
        Sh::Tup(self.iter().map(|x| x.sh()).collect())
    }
}
impl Fam for [u8; 0] {
    fn tname() -> String {
        "[u8; 0]".into()
    }
    fn inhabitants(_b: &Budget) -> Vec<Self> {
        vec![[]]
    }
    fn sh(&self) -> Sh {
        Sh::Tup(vec![])
    }
}
impl<K: Fam + Ord, V: Fam> Fam for BTreeMap<K, V> {
    fn tname() -> String {
        format!("BTreeMap<{}, {}>", K::tname(), V::tname())
    }
    fn inhabitants(b: &Budget) -> Vec<Self> {
        let (ks, vs) = (K::inhabitants(b), V::inhabitants(b));
        let mut out: Vec<BTreeMap<K, V>> = vec![BTreeMap::new()];
        for (i, k) in ks.iter().enumerate() {
            let v = &vs[i % vs.len()];
            out.push([(k.clone(), v.clone())].into_iter().collect());
        }
        for (i, k1) in ks.iter().take(5).enumerate() {
            for (j, k2) in ks.iter().take(5).enumerate() {
                out.push([(k1.clone(), vs[i % vs.len()].clone()), (k2.clone(), vs[(j + 1) % vs.len()].clone())].into_iter().collect());
            }
        }
        out.push(ks.iter().enumerate().map(|(i, k)| (k.clone(), vs[i % vs.len()].clone())).collect());
        // every value inhabitant in the value position of an entry
        if let Some(k0) = ks.get(1).or(ks.first()) {
            for v in vs.iter().take(b.cap) {
                out.push([(k0.clone(), v.clone())].into_iter().collect());
            }
        }
        trunc_to(out, b.cap)
    }
    fn sh(&self) -> Sh {
        Sh::Alist(self.iter().map(|(k, v)| (k.sh(), v.sh())).collect())
    }
    fn same(a: &Self, b: &Self) -> bool {
        a.len() == b.len() && a.iter().zip(b.iter()).all(|((k1, v1), (k2, v2))| k1 == k2 && V::same(v1, v2))
    }
    fn has_nonfinite(&self) -> bool {
        self.values().any(|v| v.has_nonfinite())
    }
}
impl Fam for HashMap<String, i64> {
    fn tname() -> String {
        "HashMap<String, i64>".into()
    }
    fn inhabitants(_b: &Budget) -> Vec<Self> {
        let mut out = vec![HashMap::new()];
        out.push([("a".to_string(), 1i64)].into_iter().collect());
        out.push([("a".to_string(), -1i64), ("λ".to_string(), i64::MIN)].into_iter().collect());
        out.push((0..20).map(|i| (format!("k{}", i), i as i64)).collect());
        out
    }
    fn sh(&self) -> Sh {
        let mut es: Vec<(&String, &i64)> = self.iter().collect();
        es.sort();
        Sh::Alist(es.into_iter().map(|(k, v)| (k.sh(), v.sh())).collect())
    }
    fn unordered() -> bool {
        true
    }
}

// ---- derived types -------------------------------------------------------------------------

#[derive(Serialize, Deserialize, PartialEq, Debug, Clone, PartialOrd, Ord, Eq)]
pub struct UnitS;
#[derive(Serialize, Deserialize, PartialEq, Debug, Clone)]
pub struct NewtypeS(pub u8);
#[derive(Serialize, Deserialize, PartialEq, Debug, Clone)]
pub struct NewtypeVecS(pub Vec<u8>);
#[derive(Serialize, Deserialize, PartialEq, Debug, Clone)]
pub struct Tup0S();
#[derive(Serialize, Deserialize, PartialEq, Debug, Clone)]
pub struct Tup2S(pub u8, pub String);
#[derive(Serialize, Deserialize, PartialEq, Debug, Clone)]
pub struct EmptyS {}
#[derive(Serialize, Deserialize, PartialEq, Debug, Clone, PartialOrd, Ord, Eq)]
pub enum K {
    A,
    B,
    #[serde(rename = "kebab-c")]
    C,
}
#[derive(Serialize, Deserialize, PartialEq, Debug, Clone)]
pub enum E {
    Unit,
    NtVec(Vec<u8>),
    NtOpt(Option<u8>),
    NtUnit(()),
    NtTuple((u8, char)),
    NtBox(Box<E>),
    T0(),
    T1(u8),
    T2(u8, String),
    St0 {},
    St1 { x: u8 },
    St2 { a: Option<u8>, b: Vec<u8> },
}
#[derive(Serialize, Deserialize, PartialEq, Debug, Clone)]
pub struct FieldsS {
    pub a: Option<u8>,
    pub b: (),
    pub c: UnitS,
    pub d: E,
    pub e: (u8, char),
}
#[derive(Serialize, Deserialize, PartialEq, Debug, Clone)]
pub struct InnerS {
    pub v: Vec<E>,
    pub k: K,
}
#[derive(Serialize, Deserialize, PartialEq, Debug, Clone)]
pub struct OuterS {
    pub m: BTreeMap<String, InnerS>,
    pub o: Option<E>,
}

impl Fam for UnitS {
    fn tname() -> String {
        "UnitS".into()
    }
    fn inhabitants(_b: &Budget) -> Vec<Self> {
        vec![UnitS]
    }
    fn sh(&self) -> Sh {
        Sh::A(RV::Null)
    }
}
impl Fam for NewtypeS {
    fn tname() -> String {
        "NewtypeS(u8)".into()
    }
    fn inhabitants(b: &Budget) -> Vec<Self> {
        u8::inhabitants(b).into_iter().map(NewtypeS).collect()
    }
    fn sh(&self) -> Sh {
        self.0.sh()
    }
}
impl Fam for NewtypeVecS {
    fn tname() -> String {
        "NewtypeVecS(Vec<u8>)".into()
    }
    fn inhabitants(b: &Budget) -> Vec<Self> {
        Vec::<u8>::inhabitants(b).into_iter().map(NewtypeVecS).collect()
    }
    fn sh(&self) -> Sh {
        self.0.sh()
    }
}
impl Fam for Tup0S {
    fn tname() -> String {
        "Tup0S()".into()
    }
    fn inhabitants(_b: &Budget) -> Vec<Self> {
        vec![Tup0S()]
    }
    fn sh(&self) -> Sh {
        Sh::Tup(vec![])
    }
}
impl Fam for Tup2S {
    fn tname() -> String {
        "Tup2S(u8, String)".into()
    }
    fn inhabitants(b: &Budget) -> Vec<Self> {
        <(u8, String)>::inhabitants(b).into_iter().map(|(a, s)| Tup2S(a, s)).collect()
    }
    fn sh(&self) -> Sh {
        Sh::Tup(vec![self.0.sh(), self.1.sh()])
    }
}
impl Fam for EmptyS {
    fn tname() -> String {
        "EmptyS {}".into()
    }
    fn inhabitants(_b: &Budget) -> Vec<Self> {
        vec![EmptyS {}]
    }
    fn sh(&self) -> Sh {
        Sh::Alist(vec![])
    }
}
impl Fam for K {
    fn tname() -> String {
        "K (unit-variant enum)".into()
    }
    fn inhabitants(_b: &Budget) -> Vec<Self> {
        vec![K::A, K::B, K::C]
    }
    fn sh(&self) -> Sh {
        Sh::sym(match self {
            K::A => "A",
            K::B => "B",
            K::C => "kebab-c",
        })
    }
}
fn e_level0() -> Vec<E> {
    let mut v = vec![E::Unit, E::NtUnit(()), E::T0(), E::St0 {}];
    for x in [vec![], vec![0u8], vec![1, 2], vec![255; 3]] {
        v.push(E::NtVec(x));
    }
    for o in [None, Some(0u8), Some(255)] {
        v.push(E::NtOpt(o));
    }
    for t in [(0u8, 'a'), (255, 'λ'), (1, '(')] {
        v.push(E::NtTuple(t));
    }
    for x in [0u8, 255] {
        v.push(E::T1(x));
        v.push(E::St1 { x });
    }
    for s in ["", "Unit", "λ \"q\""] {
        v.push(E::T2(7, s.to_string()));
    }
    for (a, b) in [(None, vec![]), (Some(1u8), vec![1u8, 2]), (None, vec![0])] {
        v.push(E::St2 { a, b });
    }
    v
}
impl Fam for E {
    fn tname() -> String {
        "E (enum: unit, newtype(Vec/Option/()/tuple/Box<E>), tuple 0/1/2, struct 0/1/2)".into()
    }
    fn inhabitants(_b: &Budget) -> Vec<Self> {
        let l0 = e_level0();
        let mut v = l0.clone();
        for x in &l0 {
            v.push(E::NtBox(Box::new(x.clone())));
        }
        for x in l0.iter().take(6) {
            v.push(E::NtBox(Box::new(E::NtBox(Box::new(x.clone())))));
        }
        v
    }
    fn sh(&self) -> Sh {
        let nt = |n: &str, p: Sh| Sh::Cons(Box::new(Sh::sym(n)), Box::new(p));
        match self {
            E::Unit => Sh::sym("Unit"),
            E::NtVec(x) => nt("NtVec", x.sh()),
            E::NtOpt(o) => nt("NtOpt", o.sh()),
            E::NtUnit(()) => nt("NtUnit", ().sh()),
            E::NtTuple(t) => nt("NtTuple", t.sh()),
            E::NtBox(b) => nt("NtBox", b.sh()),
            E::T0() => nt("T0", Sh::Seq(vec![])),
            // a one-field tuple variant *is* a newtype variant in Serde's data model
            E::T1(x) => nt("T1", x.sh()),
            E::T2(x, s) => nt("T2", Sh::Seq(vec![x.sh(), s.sh()])),
            E::St0 {} => nt("St0", Sh::Alist(vec![])),
            E::St1 { x } => nt("St1", Sh::Alist(vec![(Sh::sym("x"), x.sh())])),
            E::St2 { a, b } => nt("St2", Sh::Alist(vec![(Sh::sym("a"), a.sh()), (Sh::sym("b"), b.sh())])),
        }
    }
}
impl Fam for FieldsS {
    fn tname() -> String {
        "FieldsS { a: Option<u8>, b: (), c: UnitS, d: E, e: (u8, char) }".into()
    }
    fn inhabitants(b: &Budget) -> Vec<Self> {
        let es = E::inhabitants(b);
        let mut v = Vec::new();
        for (i, d) in es.iter().enumerate() {
            v.push(FieldsS { a: if i % 3 == 0 { None } else { Some(i as u8) }, b: (), c: UnitS, d: d.clone(), e: (i as u8, if i % 2 == 0 { 'a' } else { 'λ' }) });
        }
        v
    }
    fn sh(&self) -> Sh {
        Sh::Alist(vec![(Sh::sym("a"), self.a.sh()), (Sh::sym("b"), Sh::A(RV::Null)), (Sh::sym("c"), Sh::A(RV::Null)), (Sh::sym("d"), self.d.sh()), (Sh::sym("e"), self.e.sh())])
    }
}
impl Fam for InnerS {
    fn tname() -> String {
        "InnerS { v: Vec<E>, k: K }".into()
    }
    fn inhabitants(b: &Budget) -> Vec<Self> {
        let es = e_level0();
        let mut v = vec![InnerS { v: vec![], k: K::A }];
        for (i, e) in es.iter().enumerate() {
            v.push(InnerS { v: vec![e.clone()], k: [K::A, K::B, K::C][i % 3].clone() });
            v.push(InnerS { v: vec![e.clone(), es[(i + 3) % es.len()].clone()], k: K::C });
        }
        trunc_to(v, b.cap)
    }
    fn sh(&self) -> Sh {
        Sh::Alist(vec![(Sh::sym("v"), self.v.sh()), (Sh::sym("k"), self.k.sh())])
    }
}
impl Fam for OuterS {
    fn tname() -> String {
        "OuterS { m: BTreeMap<String, InnerS>, o: Option<E> }".into()
    }
    fn inhabitants(b: &Budget) -> Vec<Self> {
        let inner = InnerS::inhabitants(b);
        let es = e_level0();
        let mut v = vec![OuterS { m: BTreeMap::new(), o: None }];
        for (i, x) in inner.iter().enumerate().take(40) {
            let mut m = BTreeMap::new();
            m.insert(format!("k{}", i), x.clone());
            if i % 2 == 0 {
                m.insert("λ".to_string(), inner[(i + 1) % inner.len()].clone());
            }
            v.push(OuterS { m, o: if i % 4 == 0 { None } else { Some(es[i % es.len()].clone()) } });
        }
        v
    }
    fn sh(&self) -> Sh {
        Sh::Alist(vec![(Sh::sym("m"), self.m.sh()), (Sh::sym("o"), self.o.sh())])
    }
}

// ---- position wrappers: every payload type in every position --------------------------------
// (C04-b: an alist cursor that reads `(key ())` like `(key)` is only visible with a shape-ambiguous
// payload — Some(None), Some(vec![]), vec![None] — in a struct-field or map-value position)

#[derive(Serialize, Deserialize, PartialEq, Debug, Clone)]
pub struct FieldOf<T> {
    pub f: T,
    pub g: T,
}
#[derive(Serialize, Deserialize, PartialEq, Debug, Clone)]
pub enum VarOf<T> {
    N(T),
    S { f: T },
    P(T, T),
}
#[derive(Serialize, Deserialize, PartialEq, Debug, Clone)]
pub struct NtOf<T>(pub T);

fn pairs_of<T: Fam>(b: &Budget) -> Vec<(T, T)> {
    let xs = T::inhabitants(b);
    let k = ((b.cap as f64).sqrt() as usize).max(3).min(6);
    let mut v = Vec::new();
    for x in xs.iter().take(k) {
        for y in xs.iter().take(k) {
            v.push((x.clone(), y.clone()));
        }
    }
    if let Some(x0) = xs.first() {
        for x in xs.iter().skip(k).take(b.cap) {
            v.push((x.clone(), x0.clone()));
            v.push((x0.clone(), x.clone()));
        }
    }
    v
}

impl<T: Fam> Fam for FieldOf<T> {
    fn tname() -> String {
        format!("FieldOf<{}> {{ f, g }}", T::tname())
    }
    fn inhabitants(b: &Budget) -> Vec<Self> {
        trunc_to(pairs_of::<T>(b).into_iter().map(|(f, g)| FieldOf { f, g }).collect(), b.cap)
    }
    fn sh(&self) -> Sh {
        Sh::Alist(vec![(Sh::sym("f"), self.f.sh()), (Sh::sym("g"), self.g.sh())])
    }
    fn same(a: &Self, b: &Self) -> bool {
        T::same(&a.f, &b.f) && T::same(&a.g, &b.g)
    }
    fn has_nonfinite(&self) -> bool {
        self.f.has_nonfinite() || self.g.has_nonfinite()
    }
}
impl<T: Fam> Fam for VarOf<T> {
    fn tname() -> String {
        format!("VarOf<{}> (N(T) | S {{ f: T }} | P(T, T))", T::tname())
    }
    fn inhabitants(b: &Budget) -> Vec<Self> {
        let xs = trunc_to(T::inhabitants(b), b.cap);
        let mut v: Vec<Self> = Vec::new();
        for x in &xs {
            v.push(VarOf::N(x.clone()));
            v.push(VarOf::S { f: x.clone() });
        }
        for (x, y) in pairs_of::<T>(b) {
            v.push(VarOf::P(x, y));
        }
        trunc_to(v, b.cap)
    }
    fn sh(&self) -> Sh {
        let nt = |n: &str, p: Sh| Sh::Cons(Box::new(Sh::sym(n)), Box::new(p));
        match self {
            VarOf::N(x) => nt("N", x.sh()),
            VarOf::S { f } => nt("S", Sh::Alist(vec![(Sh::sym("f"), f.sh())])),
            VarOf::P(x, y) => nt("P", Sh::Seq(vec![x.sh(), y.sh()])),
        }
    }
    fn same(a: &Self, b: &Self) -> bool {
        match (a, b) {
            (VarOf::N(x), VarOf::N(y)) => T::same(x, y),
            (VarOf::S { f: x }, VarOf::S { f: y }) => T::same(x, y),
            (VarOf::P(x1, x2), VarOf::P(y1, y2)) => T::same(x1, y1) && T::same(x2, y2),
            _ => false,
        }
    }
    fn has_nonfinite(&self) -> bool {
        match self {
            VarOf::N(x) | VarOf::S { f: x } => x.has_nonfinite(),
            VarOf::P(x, y) => x.has_nonfinite() || y.has_nonfinite(),
        }
    }
}
impl<T: Fam> Fam for NtOf<T> {
    fn tname() -> String {
        format!("NtOf<{}>(T)", T::tname())
    }
    fn inhabitants(b: &Budget) -> Vec<Self> {
        T::inhabitants(b).into_iter().map(NtOf).collect()
    }
    fn sh(&self) -> Sh {
        self.0.sh()
    }
    fn same(a: &Self, b: &Self) -> bool {
        T::same(&a.0, &b.0)
    }
    fn has_nonfinite(&self) -> bool {
        self.0.has_nonfinite()
    }
}

// ---- the two-step map protocol ------------------------------------------------------------
// std maps go through serialize_entry; hand-written impls (and serde's flatten machinery) use the
// two-step protocol serialize_key / serialize_value on one map object (seed C14-d1).
// #[serde(flatten)] itself is not in the family: it is not part of the data model the crate
// documents, and it does not round-trip (string keys are written, identifiers are only read from
// symbols) — noted in DESIGN 8.2 as an observation outside the properties.

#[derive(PartialEq, Debug, Clone)]
pub struct TwoStep(pub Vec<(String, u8)>);

impl Serialize for TwoStep {
    fn serialize<S: serde::Serializer>(&self, ser: S) -> Result<S::Ok, S::Error> {
        use serde::ser::SerializeMap;
        let mut m = ser.serialize_map(Some(self.0.len()))?;
        for (k, v) in &self.0 {
            m.serialize_key(k)?;
            m.serialize_value(v)?;
        }
        m.end()
    }
}
impl<'de> serde::Deserialize<'de> for TwoStep {
    fn deserialize<D: serde::Deserializer<'de>>(de: D) -> Result<Self, D::Error> {
        struct V;
        impl<'de> serde::de::Visitor<'de> for V {
            type Value = TwoStep;
            fn expecting(&self, f: &mut std::fmt::Formatter) -> std::fmt::Result {
                f.write_str("a map")
            }
            fn visit_map<A: serde::de::MapAccess<'de>>(self, mut a: A) -> Result<TwoStep, A::Error> {
                let mut out = Vec::new();
                while let Some(k) = a.next_key::<String>()? {
                    let v = a.next_value::<u8>()?;
                    out.push((k, v));
                }
                Ok(TwoStep(out))
            }
        }
        de.deserialize_map(V)
    }
}
impl Fam for TwoStep {
    fn tname() -> String {
        "TwoStep (hand-written map impl: serialize_key + serialize_value)".into()
    }
    fn inhabitants(_b: &Budget) -> Vec<Self> {
        let mk = |ks: &[&str]| TwoStep(ks.iter().enumerate().map(|(i, k)| (k.to_string(), (i * 7) as u8)).collect());
        vec![mk(&[]), mk(&["a"]), mk(&["a", "b"]), mk(&["one", "two", "three"]), mk(&["λ", "", "k k", "z"]), TwoStep((0..40).map(|i| (format!("k{}", i), i as u8)).collect())]
    }
    fn sh(&self) -> Sh {
        Sh::Alist(self.0.iter().map(|(k, v)| (k.sh(), v.sh())).collect())
    }
}

// ---- registry --------------------------------------------------------------------------------

pub enum DeOutcome {
    /// deserialized; normalised: re-serialising and re-reading gives the same Rust value
    OkNormalised(String),
    OkNotNormalised(String),
    ErrData,
    ErrOther(String),
    Panic(String),
}

pub trait Runner: Sync + Send {
    fn name(&self) -> String;
    fn count(&self, b: &Budget) -> usize;
    /// C04: identity on the value path and the three text paths for inhabitant i
    fn roundtrip(&self, b: &Budget, i: usize) -> Vec<(String, String)>;
    /// C14: documented shape of inhabitant i vs to_value; alternative encodings
    fn shapes(&self, b: &Budget, i: usize) -> (Vec<(String, String)>, u64);
    /// the encoding of inhabitant i
    fn encoding(&self, b: &Budget, i: usize) -> Option<RV>;
    fn describe(&self, b: &Budget, i: usize) -> String;
    /// C18: deserialize an arbitrary value into this type
    fn deserialize(&self, v: &lexpr::Value) -> DeOutcome;
    /// C07: serde_lexpr::to_writer / to_writer_custom of inhabitant i into short-writing and
    /// refusing sinks; returns (failures, runs)
    fn writers(&self, b: &Budget, i: usize) -> (Vec<(String, String)>, u64);
}

pub struct R<T: Fam>(pub std::sync::OnceLock<Vec<T>>);

impl<T: Fam> R<T> {
    /// inhabitants are generated once per process (one budget per run)
    fn inh(&self, b: &Budget) -> &Vec<T> {
        self.0.get_or_init(|| T::inhabitants(b))
    }
}

fn sort_alist(v: &RV) -> RV {
    // order-insensitive comparison for unordered maps: sort the entries by their rendering
    let (mut items, tail) = crate::model::list::decompose(v);
    items.sort_by_key(|x| x.to_string());
    RV::append(items, tail)
}

impl<T: Fam> Runner for R<T> {
    fn name(&self) -> String {
        T::tname()
    }
    fn count(&self, b: &Budget) -> usize {
        self.inh(b).len()
    }
    fn describe(&self, b: &Budget, i: usize) -> String {
        crate::util::trunc(&format!("{:?}", self.inh(b)[i]), 160)
    }
    fn encoding(&self, b: &Budget, i: usize) -> Option<RV> {
        let x = &self.inh(b)[i];
        crate::util::guard(|| serde_lexpr::to_value(x).ok().map(|v| RV::from_value(&v))).ok().flatten()
    }
    fn roundtrip(&self, b: &Budget, i: usize) -> Vec<(String, String)> {
        let x = self.inh(b)[i].clone();
        let mut fails: Vec<(String, String)> = Vec::new();
        // value path
        match crate::util::guard(|| serde_lexpr::to_value(&x)) {
            Err(p) => fails.push(("to_value-panic".into(), p)),
            Ok(Err(e)) => fails.push(("to_value-failed".into(), e.to_string())),
            Ok(Ok(v)) => match crate::util::guard(|| serde_lexpr::from_value::<T>(&v)) {
                Err(p) => fails.push(("from_value-panic".into(), p)),
                Ok(Err(e)) => fails.push(("from_value-rejects-own-encoding".into(), format!("encoding {}: {}", RV::from_value(&v), e))),
                Ok(Ok(y)) => {
                    if !T::same(&x, &y) {
                        fails.push(("value-path-not-identity".into(), format!("encoding {} read back as {:?}", RV::from_value(&v), y)));
                    }
                }
            },
        }
        // text paths: finite floats only
        if x.has_nonfinite() {
            return fails;
        }
        let approx = |y: &T| -> bool {
            // floats to C05 accuracy: compare through the value encodings
            if T::same(&x, y) {
                return true;
            }
            match (serde_lexpr::to_value(&x), serde_lexpr::to_value(y)) {
                (Ok(a), Ok(b2)) => crate::roundtrip::cmp_roundtrip(&RV::from_value(&a), &RV::from_value(&b2)).is_ok(),
                _ => false,
            }
        };
        type Path<T> = (&'static str, Box<dyn Fn(&T) -> Result<T, String>>);
        let paths: Vec<Path<T>> = vec![
            ("to_string/from_str", Box::new(|x: &T| serde_lexpr::to_string(x).map_err(|e| e.to_string()).and_then(|s| serde_lexpr::from_str::<T>(&s).map_err(|e| format!("text {:?}: {}", crate::util::trunc(&s, 120), e))))),
            ("to_vec/from_slice", Box::new(|x: &T| serde_lexpr::to_vec(x).map_err(|e| e.to_string()).and_then(|s| serde_lexpr::from_slice::<T>(&s).map_err(|e| e.to_string())))),
            ("to_writer/from_reader", Box::new(|x: &T| {
                let mut buf = Vec::new();
                serde_lexpr::to_writer(&mut buf, x).map_err(|e| e.to_string())?;
                serde_lexpr::from_reader::<T>(&buf[..]).map_err(|e| e.to_string())
            })),
            // the _custom entry points, given the default option sets, are the same functions
            ("to_string_custom/from_str_custom", Box::new(|x: &T| serde_lexpr::to_string_custom(x, lexpr::print::Options::default()).map_err(|e| e.to_string()).and_then(|s| serde_lexpr::from_str_custom::<T>(&s, lexpr::parse::Options::default()).map_err(|e| format!("text {:?}: {}", crate::util::trunc(&s, 120), e))))),
            ("to_vec_custom/from_slice_custom", Box::new(|x: &T| serde_lexpr::to_vec_custom(x, lexpr::print::Options::default()).map_err(|e| e.to_string()).and_then(|s| serde_lexpr::from_slice_custom::<T>(&s, lexpr::parse::Options::default()).map_err(|e| e.to_string())))),
            ("to_writer_custom/from_reader_custom", Box::new(|x: &T| {
                let mut buf = Vec::new();
                serde_lexpr::to_writer_custom(&mut buf, x, lexpr::print::Options::default()).map_err(|e| e.to_string())?;
                serde_lexpr::from_reader_custom::<T>(&buf[..], lexpr::parse::Options::default()).map_err(|e| e.to_string())
            })),
        ];
        for (name, f) in paths {
            match crate::util::guard(|| f(&x)) {
                Err(p) => fails.push((format!("text-path-panic:{}", name), p)),
                Ok(Err(e)) => fails.push((format!("text-path-fails:{}", name), e)),
                Ok(Ok(y)) => {
                    if !approx(&y) {
                        fails.push((format!("text-path-not-identity:{}", name), format!("read back as {:?}", y)));
                    }
                }
            }
        }
        fails
    }
    fn shapes(&self, b: &Budget, i: usize) -> (Vec<(String, String)>, u64) {
        let x = self.inh(b)[i].clone();
        let mut fails: Vec<(String, String)> = Vec::new();
        let mut evals = 0u64;
        let sh = x.sh();
        let expected = sh.to_rv();
        match crate::util::guard(|| serde_lexpr::to_value(&x)) {
            Ok(Ok(v)) => {
                let got = RV::from_value(&v);
                let ok = if T::unordered() { sort_alist(&got) == sort_alist(&expected) } else { got == expected };
                if !ok {
                    fails.push(("shape-differs".into(), format!("documented shape {}, serialized {}", expected, got)));
                }
            }
            Ok(Err(e)) => fails.push(("to_value-failed".into(), e.to_string())),
            Err(p) => fails.push(("to_value-panic".into(), p)),
        }
        // alternative encodings
        let nodes = sh.seq_nodes();
        let natoms = wrong_atoms().len();
        let mut alts: Vec<(Render, bool)> = Vec::new(); // (rendering, must be accepted)
        for (idx, (_is_tup, len)) in nodes.iter().enumerate() {
            alts.push((Render::SwapAt(idx), true));
            for a in 0..natoms {
                if *len > 0 {
                    alts.push((Render::ImproperAt(idx, a), false));
                }
                alts.push((Render::ReplaceAt(idx, a), false));
            }
        }
        if nodes.len() > 1 {
            alts.push((Render::SwapAll, true));
        }
        for (r, accept) in alts {
            let mut n = 0;
            let alt = sh.render(r, &mut n);
            let v = alt.to_value();
            evals += 1;
            match crate::util::guard(|| serde_lexpr::from_value::<T>(&v)) {
                Err(p) => fails.push(("alternative-panic".into(), format!("{:?}: encoding {}: {}", r, alt, p))),
                Ok(Ok(y)) => {
                    if accept {
                        if !T::same(&x, &y) {
                            fails.push((format!("alternative-misread:{}", kind_of(r)), format!("{} read as {:?}", alt, y)));
                        }
                    } else {
                        fails.push((format!("alternative-accepted:{}", kind_of(r)), format!("{} (improper list / wrong kind in a sequence or tuple position) was accepted as {:?}", alt, y)));
                    }
                }
                Ok(Err(e)) => {
                    if accept {
                        fails.push((format!("alternative-rejected:{}", kind_of(r)), format!("{} (list <-> vector with the same elements) was rejected: {}", alt, e)));
                    } else if e.classify() != serde_lexpr::error::Category::Data {
                        fails.push(("alternative-error-not-data".into(), format!("{}: category {:?}", alt, e.classify())));
                    }
                }
            }
        }
        (fails, evals)
    }
    fn writers(&self, b: &Budget, i: usize) -> (Vec<(String, String)>, u64) {
        use crate::engine::choice::UniformWriter;
        let x = self.inh(b)[i].clone();
        let mut fails: Vec<(String, String)> = Vec::new();
        let mut runs = 0u64;
        if x.has_nonfinite() {
            return (fails, runs);
        }
        for elisp in [false, true] {
            let opts = || if elisp { lexpr::print::Options::elisp() } else { lexpr::print::Options::default() };
            let t = match crate::util::guard(|| if elisp { serde_lexpr::to_string_custom(&x, opts()) } else { serde_lexpr::to_string(&x) }) {
                Ok(Ok(t)) => t.into_bytes(),
                _ => continue, // C04 / C14 judge serialization failures
            };
            let mut scheds: Vec<(usize, Option<usize>, bool)> = vec![(1, None, false), (2, None, false), (3, None, false), (5, None, false), (usize::MAX, None, false)];
            for off in 0..=t.len() {
                for k in [1usize, usize::MAX] {
                    scheds.push((k, Some(off), false));
                    scheds.push((k, Some(off), true));
                }
            }
            for (k, fail_at, zero) in scheds {
                let mut w = UniformWriter { k, fail_at, fail_zero: zero, data: Vec::new(), refused: false };
                runs += 1;
                let r = crate::util::guard(std::panic::AssertUnwindSafe(|| if elisp { serde_lexpr::to_writer_custom(&mut w, &x, opts()) } else { serde_lexpr::to_writer(&mut w, &x) }));
                let ctx = format!("{} sink=[k={} fail_at={:?} zero={}]", if elisp { "to_writer_custom(elisp)" } else { "to_writer" }, k as isize, fail_at, zero);
                match r {
                    Err(p) => fails.push(("panic".into(), format!("{}: {}", ctx, p))),
                    Ok(res) => {
                        let ok = res.is_ok();
                        if !t.starts_with(&w.data) {
                            fails.push(("sink-not-a-prefix".into(), format!("{}: sink holds {:?}, text is {:?}", ctx, crate::rv::show_bytes(&w.data), crate::rv::show_bytes(&t))));
                        } else if ok && w.data != t {
                            fails.push(("ok-but-truncated".into(), format!("{}: Ok but the sink holds {:?} instead of {:?}", ctx, crate::rv::show_bytes(&w.data), crate::rv::show_bytes(&t))));
                        } else if w.refused && ok {
                            fails.push(("error-swallowed".into(), format!("{}: the sink refused a write but the call returned Ok", ctx)));
                        } else if !w.refused && !ok {
                            fails.push(("spurious-error".into(), format!("{}: failed on a sink that never refused", ctx)));
                        }
                    }
                }
            }
        }
        (fails, runs)
    }
    fn deserialize(&self, v: &lexpr::Value) -> DeOutcome {
        match crate::util::guard(|| serde_lexpr::from_value::<T>(v)) {
            Err(p) => DeOutcome::Panic(p),
            Ok(Err(e)) => {
                if e.classify() == serde_lexpr::error::Category::Data {
                    DeOutcome::ErrData
                } else {
                    DeOutcome::ErrOther(format!("{:?}: {}", e.classify(), e))
                }
            }
            Ok(Ok(x)) => {
                let again = crate::util::guard(|| serde_lexpr::to_value(&x).ok().and_then(|v2| serde_lexpr::from_value::<T>(&v2).ok()));
                match again {
                    Ok(Some(y)) if T::same(&x, &y) => DeOutcome::OkNormalised(crate::util::trunc(&format!("{:?}", x), 100)),
                    Ok(other) => DeOutcome::OkNotNormalised(format!("accepted as {:?}, but its own serialization reads back as {:?}", x, other)),
                    Err(p) => DeOutcome::Panic(p),
                }
            }
        }
    }
}

fn kind_of(r: Render) -> &'static str {
    match r {
        Render::Normal => "normal",
        Render::SwapAt(_) => "list<->vector",
        Render::SwapAll => "all-swapped",
        Render::ImproperAt(_, _) => "improper",
        Render::ReplaceAt(_, _) => "wrong-kind",
    }
}

/// every payload type in every position: sequence element, option payload, tuple element, map
/// value, struct field, newtype / struct / tuple variant payload, newtype struct payload
macro_rules! reg_positions {
    ($($t:ty),* $(,)?) => {{
        let mut v: Vec<Box<dyn Runner>> = Vec::new();
        $(
            v.extend(reg![Vec<$t>, Option<$t>, ($t, $t), BTreeMap<String, $t>, FieldOf<$t>, VarOf<$t>, NtOf<$t>]);
        )*
        v
    }};
}

macro_rules! reg {
    ($($t:ty),* $(,)?) => {
        vec![$(Box::new(R::<$t>(std::sync::OnceLock::new())) as Box<dyn Runner>),*]
    };
}

/// Number of types in the core family (the position product follows it).
pub const N_CORE: usize = 50;

/// A second enum with the same Rust identifier as `K` in another module, different variant
/// names at the same indices: anything keyed by (type name, variant index) confuses the two
/// (seed C14-g1: a per-thread cache of unit-variant symbols).
pub mod alt {
    use serde_derive::{Deserialize, Serialize};
    #[derive(Serialize, Deserialize, PartialEq, Debug, Clone, PartialOrd, Ord, Eq)]
    pub enum K {
        X,
        Y,
        Z,
    }
    #[derive(Serialize, Deserialize, PartialEq, Debug, Clone)]
    pub enum E {
        Other,
        NtVec(u8),
        St1 { y: u8 },
    }
}
#[derive(Serialize, Deserialize, PartialEq, Debug, Clone)]
pub struct TwoEnums {
    pub a: K,
    pub b: alt::K,
    pub c: alt::E,
    pub d: E,
    pub e: alt::K,
    pub f: K,
}
impl Fam for TwoEnums {
    fn tname() -> String {
        "TwoEnums { a: K, b: alt::K, c: alt::E, d: E, e: alt::K, f: K } (two pairs of enums with the same identifier)".into()
    }
    fn inhabitants(_b: &Budget) -> Vec<Self> {
        let ks = [K::A, K::B, K::C];
        let aks = [alt::K::X, alt::K::Y, alt::K::Z];
        let aes = [alt::E::Other, alt::E::NtVec(7), alt::E::St1 { y: 9 }];
        let es = [E::Unit, E::NtVec(vec![7]), E::St1 { x: 9 }];
        let mut v = Vec::new();
        for i in 0..3 {
            for j in 0..3 {
                v.push(TwoEnums { a: ks[i].clone(), b: aks[j].clone(), c: aes[i].clone(), d: es[j].clone(), e: aks[i].clone(), f: ks[j].clone() });
            }
        }
        v
    }
    fn sh(&self) -> Sh {
        let ak = |k: &alt::K| Sh::sym(match k { alt::K::X => "X", alt::K::Y => "Y", alt::K::Z => "Z" });
        let ae = match &self.c {
            alt::E::Other => Sh::sym("Other"),
            alt::E::NtVec(n) => Sh::Cons(Box::new(Sh::sym("NtVec")), Box::new(n.sh())),
            alt::E::St1 { y } => Sh::Cons(Box::new(Sh::sym("St1")), Box::new(Sh::Alist(vec![(Sh::sym("y"), y.sh())]))),
        };
        Sh::Alist(vec![(Sh::sym("a"), self.a.sh()), (Sh::sym("b"), ak(&self.b)), (Sh::sym("c"), ae), (Sh::sym("d"), self.d.sh()), (Sh::sym("e"), ak(&self.e)), (Sh::sym("f"), self.f.sh())])
    }
}

// ---- standard-library types with Serde implementations of their own (several have two
// representations, chosen by `is_human_readable`: seed C18-g3)
macro_rules! std_fam {
    ($t:ty, $name:expr, $inh:expr, $sh:expr) => {
        impl Fam for $t {
            fn tname() -> String {
                $name.to_string()
            }
            fn inhabitants(_b: &Budget) -> Vec<Self> {
                $inh
            }
            fn sh(&self) -> Sh {
                let f: fn(&$t) -> Sh = $sh;
                f(self)
            }
        }
    };
}
fn field_alist(fields: Vec<(&str, Sh)>) -> Sh {
    Sh::Alist(fields.into_iter().map(|(k, v)| (Sh::sym(k), v)).collect())
}
fn variant(name: &str, payload: Sh) -> Sh {
    Sh::Cons(Box::new(Sh::sym(name)), Box::new(payload))
}
std_fam!(std::net::Ipv4Addr, "std::net::Ipv4Addr", vec![[0, 0, 0, 0].into(), [127, 0, 0, 1].into(), [10, 0, 0, 7].into(), [255, 255, 255, 255].into()], |x| Sh::A(RV::Str(x.to_string())));
std_fam!(std::net::Ipv6Addr, "std::net::Ipv6Addr", vec![std::net::Ipv6Addr::UNSPECIFIED, std::net::Ipv6Addr::LOCALHOST, std::net::Ipv6Addr::new(0x2001, 0xdb8, 0, 0, 0, 0xff00, 0x42, 0x8329)], |x| Sh::A(RV::Str(x.to_string())));
std_fam!(std::net::IpAddr, "std::net::IpAddr", vec![std::net::IpAddr::V4([10, 0, 0, 7].into()), std::net::IpAddr::V6(std::net::Ipv6Addr::LOCALHOST)], |x| Sh::A(RV::Str(x.to_string())));
std_fam!(std::net::SocketAddrV4, "std::net::SocketAddrV4", vec![std::net::SocketAddrV4::new([10, 0, 0, 7].into(), 8080), std::net::SocketAddrV4::new([0, 0, 0, 0].into(), 0)], |x| Sh::A(RV::Str(x.to_string())));
std_fam!(std::time::Duration, "std::time::Duration", vec![std::time::Duration::new(0, 0), std::time::Duration::new(1, 999_999_999), std::time::Duration::new(u64::MAX, 0), std::time::Duration::new(7, 5)], |x| field_alist(vec![("secs", x.as_secs().sh()), ("nanos", x.subsec_nanos().sh())]));
std_fam!(std::num::NonZeroU8, "std::num::NonZeroU8", vec![std::num::NonZeroU8::new(1).unwrap(), std::num::NonZeroU8::new(255).unwrap()], |x| Sh::A(RV::Int(x.get() as i128)));
std_fam!(std::num::Wrapping<u8>, "std::num::Wrapping<u8>", vec![std::num::Wrapping(0), std::num::Wrapping(255)], |x| Sh::A(RV::Int(x.0 as i128)));
std_fam!(std::ops::Range<u8>, "std::ops::Range<u8>", vec![0..0, 1..255, 9..3], |x| field_alist(vec![("start", x.start.sh()), ("end", x.end.sh())]));
std_fam!(Result<u8, String>, "Result<u8, String>", vec![Ok(0), Ok(255), Err(String::new()), Err("Ok".into())], |x| match x {
    Ok(n) => variant("Ok", n.sh()),
    Err(e) => variant("Err", e.sh()),
});
std_fam!(std::ops::Bound<u8>, "std::ops::Bound<u8>", vec![std::ops::Bound::Unbounded, std::ops::Bound::Included(0), std::ops::Bound::Excluded(255)], |x| match x {
    std::ops::Bound::Unbounded => Sh::sym("Unbounded"),
    std::ops::Bound::Included(n) => variant("Included", n.sh()),
    std::ops::Bound::Excluded(n) => variant("Excluded", n.sh()),
});

pub fn family() -> Vec<Box<dyn Runner>> {
    let mut v = family_core();
    assert_eq!(v.len(), N_CORE);
    v.extend(reg![TwoStep, Vec<TwoStep>, Vec<char>, BTreeSet<char>, Vec<(char, char)>, BTreeMap<i16, u8>, BTreeMap<u32, String>, TwoEnums, Vec<TwoEnums>]);
    v.extend(reg![
        std::net::Ipv4Addr, std::net::Ipv6Addr, std::net::IpAddr, std::net::SocketAddrV4, std::time::Duration, std::num::NonZeroU8, std::num::Wrapping<u8>,
        std::ops::Range<u8>, Result<u8, String>, std::ops::Bound<u8>, Vec<std::net::Ipv4Addr>, Option<std::net::SocketAddrV4>, BTreeMap<String, std::time::Duration>,
    ]);
    v.extend(reg_positions![
        (), u64, f64, String, ByteBuf, Option<u8>, Option<Option<u8>>, Option<()>, Option<Vec<u8>>, Vec<u8>, Vec<Option<u8>>, Vec<Vec<()>>,
        (u8, String), [u8; 0], UnitS, Tup0S, EmptyS, K, E, BTreeMap<String, Option<u8>>, NewtypeS,
    ]);
    v
}

pub fn family_core() -> Vec<Box<dyn Runner>> {
    reg![
        i8, u8, i16, u16, i32, u32, i64, u64, f32, f64, bool, char, String, ByteBuf, (),
        Option<u8>, Option<Option<u8>>, Option<()>, Option<Vec<u8>>, Vec<Option<u8>>, Vec<Vec<()>>, Vec<u8>, Vec<String>, Vec<f64>,
        BTreeSet<u8>, (u8,), (u8, String), ((),), [u8; 3], [u8; 0], (Vec<u8>, Option<u8>),
        BTreeMap<u8, char>, BTreeMap<char, E>, BTreeMap<String, Option<u8>>, BTreeMap<K, u8>, HashMap<String, i64>,
        UnitS, NewtypeS, NewtypeVecS, Tup0S, Tup2S, EmptyS, K, E, Option<E>, (E, E), Vec<E>, FieldsS, InnerS, OuterS,
    ]
}
