//! E1 helper: complete enumeration of `0..n` ranks sharded over worker threads.
//! Workers only partition ranks; every result is merged and sorted afterwards so that two
//! runs report the same lines.

use crate::report::Acc;
use std::sync::atomic::{AtomicU64, Ordering};

pub fn threads() -> usize {
    std::env::var("VERIF_THREADS")
        .ok()
        .and_then(|s| s.parse().ok())
        .unwrap_or_else(|| std::thread::available_parallelism().map(|n| n.get()).unwrap_or(4))
        .max(1)
}

/// Run `f(rank, acc)` for every rank in `0..n`, on all cores. Returns the accumulators.
pub fn par_ranks<F>(n: u64, f: F) -> Vec<Acc>
where
    F: Fn(u64, &mut Acc) + Sync,
{
    par_ranks_with(n, threads(), f)
}

pub fn par_ranks_with<F>(n: u64, nthreads: usize, f: F) -> Vec<Acc>
where
    F: Fn(u64, &mut Acc) + Sync,
{
    let next = AtomicU64::new(0);
    let chunk = (n / (nthreads as u64 * 64)).clamp(1, 1 << 16);
    let stride = (n / 8).max(1);
    let mut accs = Vec::new();
    std::thread::scope(|s| {
        let mut hs = Vec::new();
        for _ in 0..nthreads {
            let next = &next;
            let f = &f;
            hs.push(
                std::thread::Builder::new()
                    .stack_size(64 << 20)
                    .spawn_scoped(s, move || {
                        let mut acc = Acc::new();
                        acc.sample_stride = stride;
                        loop {
                            let start = next.fetch_add(chunk, Ordering::Relaxed);
                            if start >= n {
                                break;
                            }
                            let end = (start + chunk).min(n);
                            for r in start..end {
                                f(r, &mut acc);
                            }
                        }
                        acc
                    })
                    .expect("spawn worker"),
            );
        }
        for h in hs {
            match h.join() {
                Ok(a) => accs.push(a),
                Err(_) => {
                    eprintln!("MACHINERY: a worker thread panicked outside catch_unwind");
                    std::process::exit(2);
                }
            }
        }
    });
    accs
}

/// Sequential variant (used where order matters or the domain is tiny).
pub fn seq_ranks<F>(n: u64, mut f: F) -> Vec<Acc>
where
    F: FnMut(u64, &mut Acc),
{
    let mut acc = Acc::new();
    acc.sample_stride = (n / 8).max(1);
    for r in 0..n {
        f(r, &mut acc);
    }
    vec![acc]
}

/// Mixed-radix helper: number of strings of length <= k over an alphabet of size a.
pub fn count_upto(a: u64, k: u32) -> u64 {
    let mut total = 0u64;
    let mut p = 1u64;
    for _ in 0..=k {
        total += p;
        p = p.saturating_mul(a);
    }
    total
}

/// rank -> string over alphabet (shorter first, then lexicographic in alphabet order).
pub fn unrank_string(mut rank: u64, alphabet: &[&[u8]], out: &mut Vec<u8>, idx: &mut Vec<u8>) {
    out.clear();
    idx.clear();
    let a = alphabet.len() as u64;
    let mut len = 0u32;
    let mut p = 1u64;
    while rank >= p {
        rank -= p;
        p *= a;
        len += 1;
    }
    // rank is now the index among strings of length len
    idx.resize(len as usize, 0);
    for i in (0..len as usize).rev() {
        idx[i] = (rank % a) as u8;
        rank /= a;
    }
    for &i in idx.iter() {
        out.extend_from_slice(alphabet[i as usize]);
    }
}
