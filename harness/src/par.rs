//! E1 helper: complete enumeration of `0..n` ranks sharded over worker threads.
//! Workers only partition ranks; every result is merged and sorted afterwards so that two
//! runs report the same lines.

use crate::report::Acc;
use std::sync::atomic::{AtomicU64, Ordering};

/// Rank in progress (+1; 0 = none) per worker, readable from the abort handler.
pub static CUR_RANK: [AtomicU64; 256] = [const { AtomicU64::new(0) }; 256];
thread_local! {
    /// Index of this worker in CUR_RANK (usize::MAX: not a worker thread).
    pub static WORKER_IDX: std::cell::Cell<usize> = const { std::cell::Cell::new(usize::MAX) };
}

/// Milliseconds (since the first use) at which each worker last started a rank or called
/// `heartbeat`; the watchdog measures from here.
pub static LAST_BEAT: [AtomicU64; 256] = [const { AtomicU64::new(0) }; 256];

fn now_ms() -> u64 {
    static T0: std::sync::OnceLock<std::time::Instant> = std::sync::OnceLock::new();
    T0.get_or_init(std::time::Instant::now).elapsed().as_millis() as u64
}

/// A rank that consists of many independent cases of the code under test (each of them bounded)
/// calls this between cases: the watchdog limit applies to one case, not to the whole rank.
pub fn heartbeat() {
    let w = WORKER_IDX.with(|c| c.get());
    if w < LAST_BEAT.len() {
        LAST_BEAT[w].store(now_ms(), Ordering::Relaxed);
    }
}

/// The rank the calling thread is working on, if it is a worker (used by the SIGABRT handler).
pub fn current_rank_of_this_thread() -> Option<u64> {
    let w = WORKER_IDX.with(|c| c.get());
    if w >= CUR_RANK.len() {
        return None;
    }
    match CUR_RANK[w].load(Ordering::Relaxed) {
        0 => None,
        r => Some(r - 1),
    }
}

pub fn threads() -> usize {
    std::env::var("VERIF_THREADS")
        .ok()
        .and_then(|s| s.parse().ok())
        .unwrap_or_else(|| std::thread::available_parallelism().map(|n| n.get()).unwrap_or(4))
        .max(1)
}

/// Run `f(rank, acc)` for every rank in `0..n`, on all cores. Returns the accumulators.
pub fn par_ranks<F>(n: u64, f: F) -> Vec<Acc>
where
    F: Fn(u64, &mut Acc) + Sync,
{
    par_ranks_with(n, threads(), f)
}

/// Wall-clock limit for a single rank. A rank is one bounded case; the heaviest legitimate ones
/// take a few seconds. A rank that runs longer than this means the code under test does not
/// return (C03: "never ... fails to return"; C12: "iterating ... always terminates"); the
/// thread cannot be stopped, so the run ends there with a verdict (see report::stalled).
pub fn stall_secs() -> u64 {
    std::env::var("MC_STALL_SECS").ok().and_then(|s| s.parse().ok()).unwrap_or(90)
}

/// Developer / replay aid: run only this rank of the (single) selected sub-check.
fn only_rank() -> Option<u64> {
    std::env::var("MC_ONLY_RANK").ok().and_then(|s| s.parse().ok())
}

pub fn par_ranks_with<F>(n: u64, nthreads: usize, f: F) -> Vec<Acc>
where
    F: Fn(u64, &mut Acc) + Sync,
{
    let (lo, hi) = match only_rank() {
        Some(r) if r < n => (r, r + 1),
        Some(_) => (0, 0),
        None => (0, n),
    };
    let next = AtomicU64::new(lo);
    let chunk = (n / (nthreads as u64 * 64)).clamp(1, 1 << 16);
    let stride = (n / 8).max(1);
    let mut accs = Vec::new();
    // per worker: rank in progress + 1 (0 = idle / finished) and the time it started (ms since t0)
    let slots: Vec<(AtomicU64, AtomicU64)> = (0..nthreads).map(|_| (AtomicU64::new(0), AtomicU64::new(0))).collect();
    let t0 = std::time::Instant::now();
    let done = std::sync::atomic::AtomicBool::new(false);
    let limit_ms = stall_secs() * 1000;
    std::thread::scope(|s| {
        let mut hs = Vec::new();
        for w in 0..nthreads {
            let next = &next;
            let f = &f;
            let slot = &slots[w];
            let t0 = &t0;
            hs.push(
                std::thread::Builder::new()
                    .stack_size(64 << 20)
                    .spawn_scoped(s, move || {
                        let mut acc = Acc::new();
                        acc.sample_stride = stride;
                        WORKER_IDX.with(|c| c.set(w));
                        // a roomy alternate signal stack: after a stack overflow the abort handler
                        // has to run (and write its report) on it
                        unsafe {
                            let size = 1usize << 20;
                            let mem = libc::mmap(std::ptr::null_mut(), size, libc::PROT_READ | libc::PROT_WRITE, libc::MAP_PRIVATE | libc::MAP_ANONYMOUS, -1, 0);
                            if mem != libc::MAP_FAILED {
                                let ss = libc::stack_t { ss_sp: mem, ss_flags: 0, ss_size: size };
                                libc::sigaltstack(&ss, std::ptr::null_mut());
                            }
                        }
                        loop {
                            let start = next.fetch_add(chunk, Ordering::Relaxed);
                            if start >= hi {
                                break;
                            }
                            let end = (start + chunk).min(hi);
                            for r in start..end {
                                slot.1.store(t0.elapsed().as_millis() as u64, Ordering::Relaxed);
                                if w < LAST_BEAT.len() {
                                    LAST_BEAT[w].store(now_ms(), Ordering::Relaxed);
                                }
                                slot.0.store(r + 1, Ordering::Release);
                                if w < CUR_RANK.len() {
                                    CUR_RANK[w].store(r + 1, Ordering::Relaxed);
                                }
                                f(r, &mut acc);
                            }
                            slot.0.store(0, Ordering::Release);
                            if w < CUR_RANK.len() {
                                CUR_RANK[w].store(0, Ordering::Relaxed);
                            }
                        }
                        acc
                    })
                    .expect("spawn worker"),
            );
        }
        // watchdog
        let slots = &slots;
        let done = &done;
        let t0 = &t0;
        s.spawn(move || {
            while !done.load(Ordering::Acquire) {
                std::thread::sleep(std::time::Duration::from_millis(250));
                let now = t0.elapsed().as_millis() as u64;
                let _ = now;
                for (w, slot) in slots.iter().enumerate() {
                    let r1 = slot.0.load(Ordering::Acquire);
                    let st = slot.1.load(Ordering::Relaxed);
                    // time since the rank started or since its last heartbeat, whichever is later
                    let idle = if w < LAST_BEAT.len() { now_ms().saturating_sub(LAST_BEAT[w].load(Ordering::Relaxed)) } else { t0.elapsed().as_millis() as u64 - st };
                    if r1 != 0 && idle > limit_ms {
                        // confirm it is still the same rank (not a torn read across two ranks)
                        if slot.0.load(Ordering::Acquire) == r1 && slot.1.load(Ordering::Relaxed) == st {
                            crate::report::stalled(r1 - 1, limit_ms / 1000);
                        }
                    }
                }
            }
        });
        for h in hs {
            match h.join() {
                Ok(a) => accs.push(a),
                Err(_) => {
                    eprintln!("MACHINERY: a worker thread panicked outside catch_unwind");
                    std::process::exit(2);
                }
            }
        }
        done.store(true, Ordering::Release);
    });
    accs
}

/// Sequential variant (used where order matters or the domain is tiny).
pub fn seq_ranks<F>(n: u64, mut f: F) -> Vec<Acc>
where
    F: FnMut(u64, &mut Acc),
{
    let mut acc = Acc::new();
    acc.sample_stride = (n / 8).max(1);
    for r in 0..n {
        f(r, &mut acc);
    }
    vec![acc]
}

/// Mixed-radix helper: number of strings of length <= k over an alphabet of size a.
pub fn count_upto(a: u64, k: u32) -> u64 {
    let mut total = 0u64;
    let mut p = 1u64;
    for _ in 0..=k {
        total += p;
        p = p.saturating_mul(a);
    }
    total
}

/// rank -> string over alphabet (shorter first, then lexicographic in alphabet order).
pub fn unrank_string(mut rank: u64, alphabet: &[&[u8]], out: &mut Vec<u8>, idx: &mut Vec<u8>) {
    out.clear();
    idx.clear();
    let a = alphabet.len() as u64;
    let mut len = 0u32;
    let mut p = 1u64;
    while rank >= p {
        rank -= p;
        p *= a;
        len += 1;
    }
    // rank is now the index among strings of length len
    idx.resize(len as usize, 0);
    for i in (0..len as usize).rev() {
        idx[i] = (rank % a) as u8;
        rank /= a;
    }
    for &i in idx.iter() {
        out.extend_from_slice(alphabet[i as usize]);
    }
}
